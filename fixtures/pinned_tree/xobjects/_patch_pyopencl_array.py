# copyright ################################# #
# This file is part of the Xobjects Package.  #
# Copyright (c) CERN, 2021.                   #
# ########################################### #

import numpy as np


def _patch_pyopencl_array(cl, cla, ctx):
    prg = cl.Program(
        ctx,
        """
        __kernel void copy_array_fcont(
                     const int    fcont, // bool not accepted
                     const int    ndim,
                     const int    nelem,
            __global const int*   shape,
                     const int    itemsize,
            __global const char*  buffer_src,
            __global const int*   strides_src,
                     const int    offset_src,
            __global       char*  buffer_dest,
            __global const int*   strides_dest,
                     const int    offset_dest
                          )
        {
          int gid = get_global_id(0);
          int ibyte, idim, this_shape, slice_size, this_index, flat_index;
          int pos_src, pos_dest, this_stride_src, this_stride_dest;

          slice_size = nelem;
          flat_index = gid;
          pos_src = offset_src;
          pos_dest = offset_dest;
          for (idim=0; idim<ndim; idim++){
            if (fcont){
               this_shape = shape[ndim-idim-1];              // for f contiguous
               this_stride_src = strides_src[ndim-idim-1];   // for f contiguous
               this_stride_dest = strides_dest[ndim-idim-1]; // for f contiguous
               }
            else {
               this_shape = shape[idim];              // for c contiguous
               this_stride_src = strides_src[idim];   // for c contiguous
               this_stride_dest = strides_dest[idim]; // for c contiguous
            }


            slice_size = slice_size/this_shape;
            this_index = flat_index/slice_size;
            flat_index = flat_index - this_index*slice_size;

            pos_src = pos_src + this_index * this_stride_src;
            pos_dest = pos_dest + this_index * this_stride_dest;

          }

          for (ibyte=0; ibyte<itemsize; ibyte++){
            buffer_dest[pos_dest + ibyte] = buffer_src[pos_src + ibyte];
            }
        }
        """,
    ).build()

    knl_copy_array_fcont = prg.copy_array_fcont

    def _infer_fccont(arr):
        if arr.strides[0] < arr.strides[-1]:
            return "F"
        else:
            return "C"

    def copy_non_cont(src, dest, custom_itemsize=None, skip_typecheck=False):
        assert src.shape == dest.shape

        # The case float -> complex just works (by using the src itemsize)
        if not (src.dtype == np.float64 and dest.dtype == np.complex128):
            if not skip_typecheck:
                assert src.dtype == dest.dtype

        if src.strides[0] != src.strides[-1]:  # check is needed for 1d arrays
            assert _infer_fccont(src) == _infer_fccont(dest)

        if custom_itemsize is not None:
            itemsize = np.int32(custom_itemsize)
        else:
            itemsize = np.int32(src.dtype.itemsize)

        fcontiguous = 0
        if _infer_fccont(dest) == "F":
            fcontiguous = 1
        fcont = np.int32(fcontiguous)
        shape = cla.to_device(dest.queue, np.array(src.shape, dtype=np.int32))
        ndim = np.int32(len(shape))
        nelem = np.int32(np.prod(src.shape))
        buffer_src = src.base_data
        strides_src = cla.to_device(
            dest.queue, np.array(src.strides, dtype=np.int32)
        )
        offset_src = np.int32(src.offset)
        buffer_dest = dest.base_data
        strides_dest = cla.to_device(
            dest.queue, np.array(dest.strides, dtype=np.int32)
        )
        offset_dest = np.int32(dest.offset)

        event = knl_copy_array_fcont(
            dest.queue,
            (nelem,),
            None,
            # args:
            fcont,
            ndim,
            nelem,
            shape.data,
            itemsize,
            buffer_src,
            strides_src.data,
            offset_src,
            buffer_dest,
            strides_dest.data,
            offset_dest,
        )
        event.wait()

    def mysetitem(self, *args, **kwargs):
        try:
            self._old_setitem(*args, **kwargs)
        except (NotImplementedError, ValueError):
            dest = self[args[0]]
            src = args[1]
            if np.isscalar(src):
                src = dest._cont_zeros_like_me() + src
            copy_non_cont(src, dest)

    def mycopy(self):
        res = self._cont_zeros_like_me()
        copy_non_cont(self, res)
        return res

    def myreal(self):
        assert self.dtype == np.complex128
        res = cla.zeros(
            self.queue,
            shape=self.shape,
            dtype=np.float64,
            order=_infer_fccont(self),
        )
        copy_non_cont(self, res, custom_itemsize=8, skip_typecheck=True)
        return res

    def myget(self):
        try:
            return self._old_get()
        except AssertionError:
            return self.copy().get()

    def _cont_zeros_like_me(self):
        res = cla.zeros(
            self.queue,
            shape=self.shape,
            dtype=self.dtype,
            order=_infer_fccont(self),
        )
        return res

    # sum not implemented by pyopencl, I add it
    def mysum(self):
        dtype = getattr(np, self.dtype.name)
        try:
            res = dtype(cla.sum(self).get())
        except RuntimeError:
            res = dtype(cla.sum(self.copy()).get())

        return res

    # mean not implemented by pyopencl, I add it
    def mymean(self):
        return self.sum() / len(self)

    cla.Array._cont_zeros_like_me = _cont_zeros_like_me

    if not hasattr(cla.Array, "_old_copy"):
        cla.Array._old_copy = cla.Array.copy
    cla.Array.copy = mycopy

    if not hasattr(cla.Array, "_old_setitem"):
        cla.Array._old_setitem = cla.Array.__setitem__
    cla.Array.__setitem__ = mysetitem

    if not hasattr(cla.Array, "_old_get"):
        cla.Array._old_get = cla.Array.get
    cla.Array.get = myget

    cla.Array.real = property(myreal)
    cla.Array.sum = mysum
    cla.Array.mean = mymean

    # sqrt available in clmath, add it to cla, so we can use it in nplike_lib
    from pyopencl.clmath import sqrt as clm_sqrt

    cla.sqrt = clm_sqrt

    # isnan is not available, but can be simulated easily
    cla.isnan = lambda ary: (ary != ary)
