# copyright ################################# #
# This file is part of the Xobjects Package.  #
# Copyright (c) CERN, 2022.                   #
# ########################################### #

import logging

import numpy as np
from typing import List, Dict, Tuple

from .context import (
    ModuleNotAvailable,
    SourceType,
    XBuffer,
    XContext,
    _concatenate_sources,
    available,
    classes_from_kernels,
    sort_classes,
    sources_from_classes,
)
from .linkedarray import BaseLinkedArray
from .specialize_source import specialize_source

log = logging.getLogger(__name__)

try:
    import pyopencl as cl
    import pyopencl.array as cla

    _enabled = True
except ImportError:
    log.info(
        "pyopencl is not installed, ContextPyopencl will not be available"
    )
    cl = ModuleNotAvailable(
        message=(
            "pyopencl is not installed. ContextPyopencl is not available!"
        )
    )
    cl.Buffer = cl
    cla = cl
    _enabled = False

from ._patch_pyopencl_array import _patch_pyopencl_array

openclheader: List[SourceType] = [
    """\
#ifndef XOBJ_STDINT
typedef long           int64_t;
typedef int            int32_t;
typedef short          int16_t;
typedef char           int8_t;
typedef unsigned long  uint64_t;
typedef unsigned int   uint32_t;
typedef unsigned short uint16_t;
typedef unsigned char  uint8_t;
#endif
#ifndef NULL
#define NULL 0L
#endif
"""
]

if _enabled:
    # order of base classes matters as it defines which __setitem__ is used
    class LinkedArrayPyopencl(BaseLinkedArray, cla.Array):
        @classmethod
        def _build_view(cls, a):
            assert len(a.shape) == 1
            return cls(
                cq=a.queue,
                shape=a.shape,
                dtype=a.dtype,
                data=a.base_data,
                offset=a.offset,
                strides=a.strides,
                order="C",
                _flags=a.flags,
            )


class ContextPyopencl(XContext):
    @property
    def nplike_array_type(self):
        return cla.Array

    @property
    def linked_array_type(self):
        return LinkedArrayPyopencl

    @classmethod
    def get_devices(cls):
        out = []
        for ip, platform in enumerate(cl.get_platforms()):
            for id, device in enumerate(platform.get_devices()):
                out.append(f"{ip}.{id}")
        return out

    @classmethod
    def print_devices(cls):
        for ip, platform in enumerate(cl.get_platforms()):
            print(f"Platform {ip}  : {platform.name}")
            for id, device in enumerate(platform.get_devices()):
                print(f"Device   {ip}.{id}: {device.name}")

    def __init__(
        self, device=None, patch_pyopencl_array=True, minimum_alignment=None
    ):
        """
        Creates a Pyopencl Context object, that allows performing the computations
        on GPUs and CPUs through PyOpenCL.

        Args:
            device (str or Device): The device (CPU or GPU) for the simulation.
            default_kernels (bool): If ``True``, the Xfields defult kernels are
                automatically imported.
            patch_pyopencl_array (bool): If ``True``, the PyOpecCL class is patched to
                allow some operations with non-contiguous arrays.
            specialize_code (bool): If True, the code is specialized using
                annotations in the source code. Default is ``True``

        Returns:
            ContextPyopencl: context object.

        """

        super().__init__()

        # TODO assume one device only
        if device is None:
            self.context = cl.create_some_context(interactive=False)
            self.device = self.context.devices[0]
            self.platform = self.device.platform
        else:
            if isinstance(device, str):
                platform, device = map(int, device.split("."))
                self.platform = cl.get_platforms()[platform]
                self.device = self.platform.get_devices()[device]
            else:
                self.device = device
                self.platform = device.platform

            self.context = cl.Context([self.device])

        self.queue = cl.CommandQueue(self.context)

        if patch_pyopencl_array:
            _patch_pyopencl_array(cl, cla, self.context)

        if minimum_alignment is None:
            minimum_alignment = self.find_minimum_alignment()
        self.minimum_alignment = minimum_alignment

    def _make_buffer(self, capacity):
        return BufferPyopencl(capacity=capacity, context=self)

    def find_minimum_alignment(self):
        buff = self.new_buffer()
        i = 1
        found = False
        while i < 2**16:
            try:
                buff.buffer[i:]
                found = True
                break
            except cl._cl.RuntimeError:
                pass
            i += 1
        if not found:
            raise RuntimeError(
                "Impossible to find minimum alignment on Pyopencl context"
            )
        return i

    def build_kernels(
        self,
        sources,
        kernel_descriptions,
        specialize=True,
        apply_to_source=(),
        save_source_as=None,
        extra_cdef=None,
        extra_classes=(),
        extra_headers=(),
        compile=True,  # noqa
    ) -> Dict[Tuple[str, tuple], "KernelPyopencl"]:
        if not compile:
            raise NotImplementedError("compile=False available only on CPU.")

        classes = list(classes_from_kernels(kernel_descriptions))
        classes += list(extra_classes)
        classes = sort_classes(classes)

        # Update the kernel descriptions with the overriden classes
        cls_for_name = {cls.__name__: cls for cls in classes}
        for kernel_name, kernel in kernel_descriptions.items():
            for arg in kernel.args:
                arg.atype = cls_for_name.get(arg.atype.__name__, arg.atype)

        cls_sources = sources_from_classes(classes)

        headers = openclheader + list(extra_headers)

        sources = headers + cls_sources + sources

        source, folders = _concatenate_sources(sources, apply_to_source)

        if specialize:
            # included files are searched in the same folders od the src_filed
            specialized_source = specialize_source(
                source, specialize_for="opencl", search_in_folders=folders
            )
        else:
            specialized_source = source

        if save_source_as is not None:
            with open(save_source_as, "w") as fid:
                fid.write(specialized_source)

        prg = cl.Program(self.context, specialized_source).build(
            options="-cl-std=CL2.0",
        )

        out_kernels = {}
        for pyname, kernel in kernel_descriptions.items():
            if kernel.c_name is None:
                kernel.c_name = pyname

            out_kernels[pyname] = KernelPyopencl(
                function=getattr(prg, kernel.c_name),
                description=kernel,
                context=self,
            )

            out_kernels[pyname].source = source
            out_kernels[pyname].specialized_source = specialized_source

        return out_kernels

    def __str__(self):
        platform_id = cl.get_platforms().index(self.platform)
        device_id = self.platform.get_devices().index(self.device)
        return f"{type(self).__name__}:{platform_id}.{device_id}"

    def nparray_to_context_array(self, arr):
        """
        Copies a numpy array to the device memory.
        Args:
            arr (numpy.ndarray): Array to be transferred

        Returns:
            pyopencl.array.Array:The same array copied to the device.

        """
        dev_arr = cla.to_device(self.queue, arr)
        return dev_arr

    def nparray_from_context_array(self, dev_arr):
        """
        Copies an array to the device to a numpy array.

        Args:
            dev_arr (pyopencl.array.Array): Array to be transferred.
        Returns:
            numpy.ndarray: The same data copied to a numpy array.

        """
        return dev_arr.get()

    @property
    def nplike_lib(self):
        """
        Module containing all the numpy features supported by PyOpenCL (optionally
        with patches to operate with non-contiguous arrays).
        """
        return cla

    @property
    def splike_lib(self):
        """
        Scipy features are not available through openCL
        """
        raise NotImplementedError

    def synchronize(self):
        """
        Ensures that all computations submitted to the context are completed.
        No action is performed by this function in the Pyopencl context. The method
        is provided so that the Pyopencl context has an identical API to the Cupy one.
        """
        pass

    def zeros(self, *args, **kwargs):
        """
        Allocates an array of zeros on the device. The function has the same
        interface of numpy.zeros"""
        return self.nplike_lib.zeros(self.queue, *args, **kwargs)

    def plan_FFT(self, data, axes, wait_on_call=True):
        """
        Generates an FFT plan object to be executed on the context.

        Args:
            data (pyopencl.array.Array): Array having type and shape for which
                the FFT needs to be planned.
            axes (sequence of ints): Axes along which the FFT needs to be
                performed.
        Returns:
            FFTPyopencl: FFT plan for the required array shape, type and axes.

        Example:

        .. code-block:: python

            plan = context.plan_FFT(data, axes=(0,1))

            data2 = 2*data

            # Forward tranform (in place)
            plan.transform(data2)

            # Inverse tranform (in place)
            plan.itransform(data2)
        """
        return FFTPyopencl(self, data, axes, wait_on_call)

    @property
    def kernels(self):
        """
        Dictionary containing all the kernels that have been imported to the context.
        The syntax ``context.kernels.mykernel`` can also be used.
        """

        return self._kernels


class BufferPyopencl(XBuffer):
    def _make_context(self):
        return ContextPyopencl()

    def _new_buffer(self, capacity):
        return cl.Buffer(
            self.context.context, cl.mem_flags.READ_WRITE, capacity
        )

    def copy_from(self, source, src_offset, dest_offset, byte_count):
        # Does not pass through cpu if it can
        # source: python object that uses buffer protocol or opencl buffer
        cl.enqueue_copy(
            self.context.queue,
            self.buffer,
            source,
            src_offset=src_offset,
            dst_offset=dest_offset,
            byte_count=byte_count,
        )

    def write(self, offset, data):
        # From python object with buffer interface on cpu
        # log.debug(f"write {self} {offset} {data}")
        cl.enqueue_copy(
            self.context.queue, self.buffer, data, src_offset=offset
        )

    def read(self, offset, size):
        # To bytearray on cpu
        data = bytearray(size)
        cl.enqueue_copy(
            self.context.queue, data, self.buffer, src_offset=offset
        )
        return data

    def update_from_native(
        self, offset: int, source: cl.Buffer, source_offset: int, nbytes: int
    ):
        """Copy data from native buffer into self.buffer starting from offset"""
        cl.enqueue_copy(
            self.context.queue,
            self.buffer,
            source,
            src_offset=source_offset,
            dst_offset=offset,
            byte_count=nbytes,
        )

    def to_native(self, offset: int, nbytes: int):
        """return native data with content at from offset and nbytes"""
        buff = self._new_buffer(nbytes)
        cl.enqueue_copy(
            queue=self.context.queue,
            dest=buff,
            src=self.buffer,
            src_offset=offset,
            byte_count=nbytes,
        )
        return buff

    def copy_to_native(
        self, dest, dest_offset, source_offset: int, nbytes: int
    ):
        """return native data with content at from offset and nbytes"""
        cl.enqueue_copy(
            queue=self.context.queue,
            dest=dest,
            src=self.buffer,
            src_offset=source_offset,
            byte_count=nbytes,
        )

    def update_from_buffer(self, offset: int, source):
        """Copy data from python buffer such as bytearray, bytes, memoryview, numpy array.data"""
        cl.enqueue_copy(
            queue=self.context.queue,
            dest=self.buffer,
            src=source,  # nbytes taken from min(len(source),len(buffer))
            dst_offset=offset,
        )

    def to_nplike(self, offset, dtype, shape):
        """view in nplike"""
        return cl.array.Array(
            self.context.queue,
            data=self.buffer,
            offset=offset,
            dtype=dtype,
            shape=tuple(shape),
        )

    def to_nparray(self, offset, dtype, shape):
        return self.to_nplike(offset, dtype, shape).get()

    def update_from_nplike(self, offset, dest_dtype, arr):
        if arr.dtype != dest_dtype:
            arr = arr.astype(dest_dtype)
        self.update_from_native(offset, arr.base_data, arr.offset, arr.nbytes)

    def to_bytearray(self, offset, nbytes):
        """copy in byte array: used in update_from_xbuffer"""
        data = bytearray(nbytes)
        cl.enqueue_copy(
            queue=self.context.queue,
            dest=data,  # nbytes taken from min(len(data),len(buffer))
            src=self.buffer,
            src_offset=offset,
        )
        return data

    def to_pointer_arg(self, offset, nbytes):
        """return data that can be used as argument in kernel

        Can fail if offset is not a multiple of self.alignment

        """
        return self.buffer[offset : offset + nbytes]


class KernelPyopencl(object):
    def __init__(
        self,
        function,
        description,
        context,
        wait_on_call=True,
    ):
        self.function = function
        self.description = description
        self.context = context
        self.wait_on_call = wait_on_call

    def to_function_arg(self, arg, value):
        if arg.pointer:
            if hasattr(arg.atype, "_dtype"):  # it is numerical scalar
                if isinstance(value, cl.Buffer):
                    return value
                elif hasattr(value, "dtype"):  # nparray
                    assert isinstance(value, cla.Array)
                    return value.base_data[value.offset :]
                elif hasattr(value, "_shape"):  # xobject array
                    raise NotImplementedError
                else:
                    raise NotImplementedError
            else:
                raise ValueError(
                    f"Invalid value {value} for argument {arg.name} "
                    f"of kernel {self.description.pyname}"
                )
        else:
            if hasattr(arg.atype, "_dtype"):  # it is numerical scalar
                return arg.atype(value)  # try to return a numpy scalar
            elif hasattr(arg.atype, "_size"):  # it is a compound xobject
                assert (
                    value._buffer.context is self.context
                ), f"Incompatible context for argument `{arg.name}`"
                return value._buffer.buffer[value._offset :]
            else:
                raise ValueError(
                    f"Invalid value {value} for argument {arg.name} of kernel {self.description.pyname}"
                )

    @property
    def num_args(self):
        return len(self.description.args)

    def __call__(self, **kwargs):
        assert len(kwargs.keys()) == self.num_args
        arg_list = []
        for arg in self.description.args:
            vv = kwargs[arg.name]
            arg_list.append(self.to_function_arg(arg, vv))

        if isinstance(self.description.n_threads, str):
            n_threads = kwargs[self.description.n_threads]
        else:
            n_threads = self.description.n_threads

        event = self.function(
            self.context.queue, (n_threads,), None, *arg_list
        )

        if self.wait_on_call:
            event.wait()

        return event


class FFTPyopencl(object):
    def __init__(self, context, data, axes, wait_on_call=True):
        self.context = context
        self.axes = axes
        self.wait_on_call = wait_on_call

        assert len(data.shape) > max(axes)

        # Check internal dimensions are powers of two
        for ii in axes[:-1]:
            nn = data.shape[ii]
            frac_part, _ = np.modf(np.log(nn) / np.log(2))
            assert np.isclose(frac_part, 0), (
                "PyOpenCL FFT requires"
                " all dimensions apart from the last to be powers of two!"
            )

        import gpyfft

        self._fftobj = gpyfft.fft.FFT(
            context.context, context.queue, data, axes=axes
        )

    def transform(self, data):
        """The transform is done inplace"""

        (event,) = self._fftobj.enqueue_arrays(data)
        if self.wait_on_call:
            event.wait()
        return event

    def itransform(self, data):
        """The transform is done inplace"""

        (event,) = self._fftobj.enqueue_arrays(data, forward=False)
        if self.wait_on_call:
            event.wait()
        return event


if _enabled:
    available.append(ContextPyopencl)
