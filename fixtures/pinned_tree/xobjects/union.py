# copyright ################################# #
# This file is part of the Xobjects Package.  #
# Copyright (c) CERN, 2021.                   #
# ########################################### #

import numpy as np

from .typeutils import allocate_on_buffer, Info
from .scalar import Int64
from .array import Array

"""
union typ1 typ2 ...

Initialization:
    1) Union(instance)
    1) Union((typename,...))


Data layout:
    - typeid
    - data
    - _is_static_type

Array instance:
    _itemtypes: list of item types
"""


class MetaUnion(type):
    def __new__(cls, name, bases, data):
        if "_itemtypes" in data:
            itemtypes = data["_itemtypes"]
            typeids = {}
            types = {}
            isize = itemtypes[0]
            for ii, itemtype in enumerate(itemtypes):
                name = itemtype.__name__
                typeids[name] = ii
                types[name] = itemtype
                if itemtype._size != isize:
                    isize = None

            data["_typeids"] = typeids
            data["_types"] = types
            data["_size"] = isize

        return type.__new__(cls, name, bases, data)

    def __getitem__(cls, shape):
        return Array.mk_arrayclass(cls, shape)


class Union(metaclass=MetaUnion):
    _types: list
    _size: None
    _typeids: dict
    _typenames: dict
    _itemtypes: list

    @classmethod
    def _get_type_index(cls, value):
        return cls._typeids[type(value).__name__]

    @classmethod
    def _get_type(cls, name):
        return cls._typenames[name]

    @classmethod
    def add_type(cls, itemtype):
        name = itemtype.__name__
        if name not in cls._typenames:
            cls._itemtypes.append(itemtype)
            cls._types[itemtype.__name__] = itemtype
            cls._typeids[itemtype.__name__] = cls._itemtypes.index(itemtype)
        else:
            raise ValueError(f"{itemtype} already in union")

    @classmethod
    def _inspect_args(cls, *args):
        if len(args) == 1:
            value = args[0]
            if type(value) in cls._itemtypes:
                size = value._get_size() + 8
                return Info(
                    size=size,
                    typeid=cls._get_type_index(value),
                    is_raw=True,
                    value=value,
                )
            elif type(value) is tuple:
                typename, value = value
                itemtype = cls._types[typename]
                typeid = cls._typeids[typename]
                iinfo = itemtype._inspect_args(value)
                return Info(
                    size=iinfo.size + 8,
                    typeid=typeid,
                    extra=iinfo,
                    is_raw=False,
                    value=value,
                )
            else:
                raise ValueError(f"{value} has the wrong type")
        else:
            raise ValueError(f"{value} has wrong number of arguments")

    @classmethod
    def _from_buffer(cls, buffer, offset=0):
        self = object.__new__(cls)
        self._buffer = buffer
        self._offset = offset
        return self

    @classmethod
    def _to_buffer(cls, buffer, offset, value, info=None):
        if info is None:
            info = cls._inspect_args(value)
        Int64._to_buffer(buffer, offset, info.typeid)
        coffset = offset + 8
        if info.is_raw:
            info.itemtype._buffer.copy_from(
                coffset, value._buffer, value._offset, info.size
            )
        else:
            info.itemtype._to_buffer(buffer, coffset, value, info=info.extra)

    def __init__(self, *args, _context=None, _buffer=None, _offset=None):
        info = self.__class__._inspect_args(*args)
        self._buffer, self._offset = allocate_on_buffer(
            info.size, _context, _buffer, _offset
        )

        self.__class__._to_buffer(self._buffer, self._offset, info.value, info)

        self._size = info._size
        self._itemtype = info._itemtype

    def get(self):
        return self._itemtype._from_buffer(self._buffer, self._offset + 8)

    def _get_size(self):
        if self.__class__._size is None:
            return Int64._from_buffer(self._buffer, self._offset)
        else:
            return self.__class__._size
