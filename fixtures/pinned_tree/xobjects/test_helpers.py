# copyright ################################# #
# This file is part of the Xobjects Package.  #
# Copyright (c) CERN, 2022.                   #
# ########################################### #

from functools import wraps
from typing import Callable, Iterable, Union

import pytest

from .context import get_context_from_string, get_test_contexts


def _for_all_test_contexts_excluding(
    test_function: Callable,
    excluding: Union[Iterable[str], str] = (),
) -> Callable:
    """Parametrize the decorated test over all test contexts with the argument
    `test_context`, excluding those contexts whose names are in ``excluding."""
    if isinstance(excluding, str):
        excluding = (excluding,)

    test_context_names = tuple(
        str(ctx)
        for ctx in get_test_contexts()
        if type(ctx).__name__ not in excluding
    )

    @wraps(test_function)
    def actual_test(*args, **kwargs):
        kwargs["test_context"] = get_context_from_string(
            kwargs["test_context"]
        )
        test_function(*args, **kwargs)

    if len(test_context_names) == 0:
        return pytest.mark.skip(
            "All available contexts have been excluded for "
            f"this test: {excluding}."
        )(actual_test)

    test = pytest.mark.parametrize(
        "test_context",
        test_context_names,
    )(actual_test)

    return pytest.mark.context_dependent(test)


def for_all_test_contexts(*args, **kwargs):
    """Parametrize the decorated test over all test contexts with the argument
    `test_context`, excluding those contexts whose names are in `excluding`.

    Can be used in both of the below forms:

    @for_all_test_contexts
    def test_all(test_context):
        ...

    @for_all_test_contexts(excluding=('ContextPyopencl',))
    def test_all_but_opencl(test_context):
        ...
    """
    if len(args) == 1 and not kwargs and callable(args[0]):
        return _for_all_test_contexts_excluding(args[0])
    elif not args and len(kwargs) == 1 and "excluding" in kwargs:

        def decorator(test_function):
            return _for_all_test_contexts_excluding(
                test_function, excluding=kwargs["excluding"]
            )

        return decorator

    raise ValueError(
        f"@for_all_test_contexts can only be used either directly "
        f"on the test, or with a single argument `excluding`."
    )


def requires_context(context_name: str):
    ctx_names = (type(ctx).__name__ for ctx in get_test_contexts())

    if {context_name} & set(ctx_names):  # proceed as normal
        return pytest.mark.context_dependent

    return pytest.mark.skip(f"{context_name} is unavailable on this platform.")


def fix_random_seed(seed: int):
    """Decorator to fix the random seed for a test."""

    def decorator(test_function):
        @wraps(test_function)
        def wrapper(*args, **kwargs):
            import numpy as np

            rng_state = np.random.get_state()
            try:
                np.random.seed(seed)
                test_function(*args, **kwargs)
            finally:
                np.random.set_state(rng_state)

        return wrapper

    return decorator
