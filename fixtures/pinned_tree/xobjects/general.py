# copyright ################################# #
# This file is part of the Xobjects Package.  #
# Copyright (c) CERN, 2024.                   #
# ########################################### #
from numpy.testing import assert_allclose as np_assert_allclose
import numpy as np


class Print:
    suppress = False

    def __call__(self, *args, **kwargs):
        if not self.suppress:
            print(*args, **kwargs)


_print = Print()


def assert_allclose(a, b, rtol=1e-7, atol=1e-7):
    if hasattr(a, "get"):
        a = a.get()
    if hasattr(b, "get"):
        b = b.get()
    try:
        a = np.squeeze(a)
    except:
        pass
    try:
        b = np.squeeze(b)
    except:
        pass
    np_assert_allclose(a, b, rtol=rtol, atol=atol)
