# copyright ################################# #
# This file is part of the Xobjects Package.  #
# Copyright (c) CERN, 2021.                   #
# ########################################### #

from .scalar import (
    Float64,
    Float32,
    Int64,
    UInt64,
    Int32,
    UInt32,
    Int16,
    UInt16,
    Int8,
    UInt8,
)
from .array import Array
from .string import String
from .struct import Struct, Field
from .ref import Ref, UnionRef

from .context_cpu import ContextCpu
from .context_pyopencl import ContextPyopencl
from .context_cupy import ContextCupy

from .context import Arg, Kernel, Method, get_user_context

from .specialize_source import specialize_source

from .typeutils import context_default, get_a_buffer

from .hybrid_class import JEncoder, HybridClass, MetaHybridClass, ThisClass

from .linkedarray import BypassLinked

from .general import _print

from .general import assert_allclose

from ._version import __version__
