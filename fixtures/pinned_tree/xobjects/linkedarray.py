# copyright ################################# #
# This file is part of the Xobjects Package.  #
# Copyright (c) CERN, 2021.                   #
# ########################################### #


class BaseLinkedArray:
    container = None
    container_setitem_name = None
    mode = None

    @classmethod
    def from_array(
        cls, a, mode=None, container=None, container_setitem_name=None
    ):
        assert len(a.shape) == 1  # TODO: To be generalized
        assert mode in (None, "readonly", "setitem_from_container")
        self = cls._build_view(a)
        self.mode = mode
        self.container = container
        self.container_setitem_name = container_setitem_name
        return self

    def _basic_setitem(self, indx, val):
        super().__setitem__(indx, val)

    def __setitem__(self, indx, val):
        if self.mode is None or (
            hasattr(self.container, "_flag_bypass_linked")
            and self.container._flag_bypass_linked
        ):
            self._basic_setitem(indx, val)
        elif self.mode == "setitem_from_container":
            getattr(self.container, self.container_setitem_name)(indx, val)
        elif self.mode == "readonly":
            raise ValueError("This array is read only")


class BypassLinked:
    def __init__(self, container):
        self.container = container

    def __enter__(self):
        self.container._flag_bypass_linked = True

    def __exit__(self, *args, **kwargs):
        del self.container._flag_bypass_linked
