__version__ = "0.4.7"
