#!/venv/bin/python
"""Run every claimed check against /repo's tree with a patch applied (scratch copy under /dev/shm, removed afterwards):
    tools/run_on_patch.py <patch.diff> [--expect silent|detect] [--props C01,C02]
Prints one line per check that does not exit 0, with the rules reporting.  Exit 0 if the expectation holds."""
import argparse
import json
import shutil
import os
import subprocess
import sys
import tempfile

PY = "/venv/bin/python"


def sh(cmd, cwd=None):
    env = dict(os.environ, XOVERIF_JOBS=os.environ.get("XOVERIF_JOBS", "2"))  # many checks run side by side: small worker pools
    r = subprocess.run(cmd, shell=True, cwd=cwd, capture_output=True, text=True, timeout=1800, env=env)
    return r.returncode, r.stdout + r.stderr


def run(patch, props=None):
    d = tempfile.mkdtemp(prefix="patchchk_", dir="/dev/shm")
    try:
        shutil.copytree("/repo/xobjects", d + "/xobjects", ignore=shutil.ignore_patterns("__pycache__", "*.so"))
        shutil.copytree("/repo/docs", d + "/docs")
        shutil.copy("/repo/Architecture.md", d + "/Architecture.md")
        rc, o = sh(f"patch -p1 -s < {patch}", cwd=d)
        if rc != 0:
            return None, f"patch does not apply: {o[:200]}"
        man = json.load(open("/verif/MANIFEST.json"))
        det = {}
        sys.path.insert(0, os.path.dirname(os.path.abspath(__file__)))
        from _affected import affected

        can_see = affected(patch)
        for c in man["checks"]:
            pid = c["property_id"]
            if props and pid not in props:
                continue
            if can_see is not None and pid not in can_see:
                continue  # consults none of the touched files: same verdict as on the unchanged tree
            rcc, oc = sh(f"{PY} -m xoverif.check {pid} --no-evidence --root {d}", cwd="/verif")
            if rcc != 0:
                fails = [l for l in oc.splitlines() if l.startswith("FAIL")]
                errs = [l for l in oc.splitlines() if l.startswith("ANALYSIS-ERROR")]
                det[pid] = {"rc": rcc, "rules": sorted({l.split(": ", 1)[1].split(" ")[0] for l in fails}), "lines": (fails or errs)[:3]}
        return det, None
    finally:
        shutil.rmtree(d, ignore_errors=True)


def main():
    ap = argparse.ArgumentParser()
    ap.add_argument("patch")
    ap.add_argument("--expect", default=None)
    ap.add_argument("--props", default=None)
    a = ap.parse_args()
    det, err = run(a.patch, set(a.props.split(",")) if a.props else None)
    if err:
        print("ERROR", err)
        return 2
    for k, v in sorted(det.items()):
        print(f"{k} rc={v['rc']} rules={v['rules']}")
        for l in v["lines"]:
            print("     ", l[:260])
    viol = any(v["rc"] == 1 for v in det.values())
    if a.expect == "silent":
        return 1 if viol else 0
    if a.expect == "detect":
        return 0 if viol else 1
    return 0


if __name__ == "__main__":
    sys.exit(main())
