#!/venv/bin/python
"""Re-run every claimed check against every kept seeded change:  tools/recheck_seeded.py [name ...]

For each /verif/seeded/<name>/patch.diff: copy /repo's working tree (package + the documents the spec
oracle anchors on) to a scratch directory under /dev/shm, apply the patch there, run the analyser with
--root <scratch>, record which checks/rules report it in meta.json["result"], remove the scratch copy.
Nothing is applied to /repo itself.  Prints the catch matrix (also written to seeded/MATRIX.md).
"""
import json
import os
import shutil
import subprocess
import sys
import tempfile
from concurrent.futures import ThreadPoolExecutor

PY = "/venv/bin/python"
SEEDED = "/verif/seeded"


def sh(cmd, cwd=None, timeout=900):
    env = dict(os.environ, XOVERIF_JOBS=os.environ.get("XOVERIF_JOBS", "3"))  # four patches run side by side: small worker pools
    r = subprocess.run(cmd, shell=True, cwd=cwd, capture_output=True, text=True, timeout=timeout, env=env)
    return r.returncode, r.stdout + r.stderr


def scratch_tree():
    d = tempfile.mkdtemp(prefix="seedchk_", dir="/dev/shm")
    shutil.copytree("/repo/xobjects", d + "/xobjects", ignore=shutil.ignore_patterns("__pycache__", "*.so"))
    shutil.copytree("/repo/docs", d + "/docs")
    shutil.copy("/repo/Architecture.md", d + "/Architecture.md")
    return d


def one(name):
    dest = f"{SEEDED}/{name}"
    meta = json.load(open(f"{dest}/meta.json"))
    prop = meta["breaks_property"]
    d = scratch_tree()
    try:
        rc, o = sh(f"patch -p1 -s < {dest}/patch.diff", cwd=d)
        if rc != 0:
            return name, prop, None, f"patch does not apply: {o[:200]}"
        man = json.load(open("/verif/MANIFEST.json"))
        det = {}
        sys.path.insert(0, os.path.dirname(os.path.abspath(__file__)))
        from _affected import affected

        can_see = affected(f"{dest}/patch.diff")
        for c in man["checks"]:
            pid = c["property_id"]
            if can_see is not None and pid not in can_see:
                continue  # consults none of the touched files: same verdict as on the unchanged tree
            rcc, oc = sh(f"{PY} -m xoverif.check {pid} --no-evidence --root {d}", cwd="/verif")
            fails = [l for l in oc.splitlines() if l.startswith("FAIL")]
            errs = [l for l in oc.splitlines() if l.startswith("ANALYSIS-ERROR")]
            if rcc != 0:
                det[pid] = {"rc": rcc, "rules": sorted({l.split(": ", 1)[1].split(" ")[0] for l in fails}), "first": (fails or errs)[0][:300] if (fails or errs) else ""}
    finally:
        shutil.rmtree(d, ignore_errors=True)
    r = meta.setdefault("result", {})
    r["checks_reporting"] = det
    r["detected_by_owning_check"] = prop in det and det[prop]["rc"] == 1
    r["detected_by_any_check"] = any(v["rc"] == 1 for v in det.values())
    r["analysis_error_only"] = sorted(k for k, v in det.items() if v["rc"] == 2)
    json.dump(meta, open(f"{dest}/meta.json", "w"), indent=1)
    return name, prop, det, None


def main():
    names = sys.argv[1:] or sorted(n for n in os.listdir(SEEDED) if os.path.isfile(f"{SEEDED}/{n}/patch.diff"))
    with ThreadPoolExecutor(4) as ex:
        res = list(ex.map(one, names))
    lines = ["| seeded change | breaks | owning check reports (rules) | other checks reporting | exit-2 only |", "|---|---|---|---|---|"]
    bad = 0
    for name, prop, det, err in res:
        if err:
            print(name, "ERROR", err)
            bad += 1
            continue
        own = det.get(prop)
        status = json.load(open(f"{SEEDED}/{name}/meta.json")).get("status", "breaking")
        if status == "benign-after-fix":
            viol = sorted(k for k, v in det.items() if v["rc"] == 1)
            lines.append(f"| {name} | {prop} (harmless since a later fix) | {'**FALSE ALARM** ' + ', '.join(viol) if viol else 'silent (expected)'} | | |")
            print(f"{name:8s} {prop} now benign: {'FALSE ALARM ' + str(viol) if viol else 'silent'}")
            bad += 1 if viol else 0
            continue
        own_s = ", ".join(own["rules"]) if own and own["rc"] == 1 else "**MISSED**"
        if not (own and own["rc"] == 1):
            bad += 1
        others = ", ".join(f"{k}" for k, v in sorted(det.items()) if k != prop and v["rc"] == 1)
        e2 = ", ".join(k for k, v in sorted(det.items()) if v["rc"] == 2)
        lines.append(f"| {name} | {prop} | {own_s} | {others} | {e2} |")
        print(f"{name:8s} {prop} own={'yes' if own and own['rc']==1 else 'NO '} rules={own['rules'] if own else []} others={[k for k in det if k != prop]}")
    open(f"{SEEDED}/MATRIX.md", "w").write("\n".join(lines) + "\n")
    return 1 if bad else 0


if __name__ == "__main__":
    sys.exit(main())
