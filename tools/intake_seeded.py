#!/venv/bin/python
"""Intake of a sub-agent's seeded change:  tools/intake_seeded.py <PROP> [<name>]

1. takes `git diff` of /tmp/wt/<PROP> as patch.diff, the demo and meta into /verif/seeded/<name>/
2. confirms in a FRESH scratch worktree (outside /repo and /verif): patch applies; demo PASSes without the
   change and FAILs with it; the existing suite passes with the change
3. runs every claimed check on a scratch copy of /repo's tree with the patch applied (same analyser,
   --root) and records which rules report it
4. removes the scratch worktree.
"""
import json
import os
import shutil
import subprocess
import sys
import tempfile

PY = "/venv/bin/python"


def sh(cmd, cwd=None, env=None, timeout=1800):
    e = dict(os.environ)
    if env:
        e.update(env)
    r = subprocess.run(cmd, shell=True, cwd=cwd, env=e, capture_output=True, text=True, timeout=timeout)
    return r.returncode, (r.stdout + r.stderr)


def main():
    prop = sys.argv[1]
    name = sys.argv[2] if len(sys.argv) > 2 else prop + "-a"
    wt = sys.argv[3] if len(sys.argv) > 3 else f"/tmp/wt/{prop}"
    dest = f"/verif/seeded/{name}"
    os.makedirs(dest, exist_ok=True)
    rc, diff = sh("git diff", cwd=wt)
    if not diff.strip():
        print("no diff in", wt)
        return 1
    open(f"{dest}/patch.diff", "w").write(diff)
    demo = f"{wt}/demo_{prop}.py"
    shutil.copy(demo, f"{dest}/demo.py")
    agent_meta = {}
    if os.path.exists(f"{wt}/meta_{prop}.json"):
        try:
            agent_meta = json.load(open(f"{wt}/meta_{prop}.json"))
        except Exception:
            agent_meta = {"raw": open(f"{wt}/meta_{prop}.json").read()}
    # fresh scratch worktree
    scratch = tempfile.mkdtemp(prefix="seed_", dir="/dev/shm")
    os.rmdir(scratch)
    sh(f"git -C /repo worktree add -q --detach {scratch} HEAD")
    out = {"property": prop, "name": name}
    try:
        rc0, o0 = sh(f"PYTHONPATH={scratch} {PY} {dest}/demo.py", cwd=scratch, timeout=600)
        out["demo_without_change"] = {"rc": rc0, "tail": o0.strip().splitlines()[-3:]}
        rc, o = sh(f"git apply {dest}/patch.diff", cwd=scratch)
        out["patch_applies"] = rc == 0
        rc1, o1 = sh(f"PYTHONPATH={scratch} {PY} {dest}/demo.py", cwd=scratch, timeout=600)
        out["demo_with_change"] = {"rc": rc1, "tail": o1.strip().splitlines()[-3:]}
        rct, ot = sh(f"PYTHONPATH={scratch} {PY} -m pytest -q -p no:cacheprovider -n 8", cwd=scratch, timeout=1800)
        out["suite_with_change"] = {"rc": rct, "tail": ot.strip().splitlines()[-1:]}
        # run the checks on the patched tree
        det = {}
        man = json.load(open("/verif/MANIFEST.json"))
        only = os.environ.get("INTAKE_CHECKS")  # "owning": only the check of the property the change is written against
        for c in man["checks"]:
            pid = c["property_id"]
            if only == "owning" and pid != prop:
                continue
            rcc, oc = sh(f"{PY} -m xoverif.check {pid} --no-evidence --root {scratch}", cwd="/verif", timeout=600)
            fails = [l for l in oc.splitlines() if l.startswith("FAIL")]
            errs = [l for l in oc.splitlines() if l.startswith("ANALYSIS-ERROR")]
            if rcc != 0:
                det[pid] = {"rc": rcc, "rules": sorted({l.split(": ", 1)[1].split(" ")[0] for l in fails}), "first": (fails or errs)[0][:300] if (fails or errs) else ""}
        out["checks_reporting"] = det
        out["detected_by_owning_check"] = prop in det and det[prop]["rc"] == 1
        out["detected_by_any_check"] = any(v["rc"] == 1 for v in det.values())
    finally:
        sh(f"git -C /repo worktree remove --force {scratch}")
        shutil.rmtree(scratch, ignore_errors=True)
    confirmed = out.get("patch_applies") and out["demo_without_change"]["rc"] == 0 and out["demo_with_change"]["rc"] != 0 and out["suite_with_change"]["rc"] == 0
    out["confirmed"] = bool(confirmed)
    meta = {
        "breaks_property": prop,
        "what_changed": agent_meta.get("what_changed"),
        "needs_to_manifest": agent_meta.get("needs_to_manifest"),
        "files": agent_meta.get("files"),
        "what_i_ran": [
            "fresh scratch worktree of /repo HEAD under /dev/shm (removed afterwards)",
            "demo.py without the change (expect PASS/exit 0), with the change (expect FAIL/exit 1)",
            "existing suite with the change: pytest -q -p no:cacheprovider -n 8 (expect all passed)",
            "every claimed check: python -m xoverif.check <id> --root <patched scratch tree>",
        ],
        "result": out,
    }
    json.dump(meta, open(f"{dest}/meta.json", "w"), indent=1)
    print(json.dumps({k: out[k] for k in ("confirmed", "detected_by_owning_check", "detected_by_any_check")}))
    print({k: (v["rc"], v["rules"]) for k, v in out["checks_reporting"].items()})
    print("demo:", out["demo_without_change"], out["demo_with_change"], out["suite_with_change"])
    return 0


if __name__ == "__main__":
    sys.exit(main())
