"""Which claimed checks can see a patch: a check reads only the modules recorded as `files_consulted` in its evidence
(plus the documents the layout oracle is transcribed from).  A check that consults none of the files a patch touches
gives the verdict it gives on the unchanged tree, so it need not be re-run.  Anything unusual (a new file, a document,
__init__.py, missing evidence) -> None = run every check."""
import json
import os
import re


def affected(patch_path, verif="/verif"):
    touched = set()
    for l in open(patch_path, encoding="utf8", errors="replace"):
        m = re.match(r"^(?:\+\+\+|---) [ab]/(\S+)", l)
        if m:
            touched.add(m.group(1))
    mods = set()
    for t in touched:
        m = re.fullmatch(r"xobjects/(\w+)\.py", t)
        if not m or m.group(1) == "__init__" or not os.path.isfile(f"/repo/{t}"):
            return None
        mods.add(m.group(1))
    out = set()
    for i in range(1, 21):
        p = f"{verif}/evidence/C{i:02d}.json"
        if not os.path.isfile(p):
            return None
        cons = json.load(open(p))["coverage"].get("files_consulted")
        if not cons:
            return None
        if mods & set(cons):
            out.add(f"C{i:02d}")
    return out
