#!/venv/bin/python
"""Re-resolves the commit hashes of the `fixed` entries of known_findings.json from the subjects of
/repo's fix: commits (hashes change when fix commits are amended during this session)."""
import json, subprocess, re
K = '/verif/known_findings.json'
log = subprocess.check_output(['git', '-C', '/repo', 'log', '--format=%h|%s', 'b6bc203..HEAD']).decode().splitlines()
subj = {l.split('|', 1)[1]: l.split('|', 1)[0] for l in log}
SUBJECT = {
 'PF1': ['fix: C accessor offset'], 'PF2': ['fix: XBuffer.free on a completely'], 'PF3': ['fix: Struct.__setstate__'],
 'PF4': ['fix: XContext.__getstate__'], 'PF5': ['fix: topological_sort'], 'PF6': ['fix: bound-check indices'],
 'PF7': ['fix: item offset table'], 'PF8': ['fix: item offset table'], 'PF9': ['fix: initialising a non-C-ordered'],
 'PF10': ['fix: to_nplike/to_nparray must apply'], 'PF11': ['fix: Array._to_buffer must not byte-copy'], 'PF12': ['fix: Struct._update must not byte-copy'],
 'PF13': ['fix: writing a UnionRef'], 'PF14': ['fix: refuse assigning a string', 'fix: refuse array item'], 'PF15': ['fix: pass xobject arrays'],
 'PF16': ['fix: keep dynamically sized array items'], 'PF17': ['fix: refuse a cross-buffer'], 'PF18': ['fix: to_dict must look up'],
 'PF19': ['fix: Array._to_buffer must refuse'],
 'PF20': ['fix: Struct._update must refresh'], 'PF21': ['fix: Struct._update must not edit'], 'PF22': ['fix: a nested hybrid object'], 'PF23': ['fix: a dressed object kept for a reference'], 'PF24': ['fix: from_dict lost the renamed fields of nested'], 'PF25': ['fix: update_from_buffer must count'], 'PF26': ['fix: BufferNumpy.update_from_nplike refused'], 'PF27': ['fix: a reference field set to None'], 'PF28': ['fix: a raw struct assigned to a nested'], 'PF29': ['fix: to_dict compared array fields'], 'PF30': ['fix: an array of references built from a list'], 'PF31': ['fix: an N-d xobject array used as the value'], 'PF32': ['fix: update_from_buffer must take the byte count of any'], 'PF33': ['fix: BufferByteArray.update_from_native could not'], 'PF34': ['fix: BufferByteArray.update_from_nplike raised for 0-d'], 'PF35': ['fix: an xobject array living in a BufferByteArray'], 'PF36': ['fix: numpy arrays in non-native byte order'], 'PF37': ['fix: a 0-d numpy array was passed'], 'PF38': ['fix: a UnionRef could not be constructed'], 'PF39': ['fix: XBuffer.allocate recursed once'], 'PF40': ['fix: a context restored from a pickle'], 'PF41': ['fix: objects of an OpenMP context'], 'PF42': ['fix: to_dict stored a string field'], 'PF43': ['fix: a sequence written into a scalar slot'], 'PF44': ['fix: a String created from a capacity'], 'PF45': ['fix: the C length of an array'], 'PF46': ['fix: to_nplike/to_nparray raised AssertionError', 'fix: to_nparray raised AssertionError'], 'PF47': ['fix: a static array could not be built'], 'PF48': ['fix: an N-d array field or item'], 'PF49': ['fix: N-d arrays of dynamically sized items'], 'PF50': ['fix: static-shape arrays of dynamically'],
 'PF51': ['fix: a String object assigned to a string field'], 'PF52': ['fix: a refused whole-value update'], 'PF53': ['fix: arrays of dynamically sized items with spare room'],
 'PF54': ['fix: array classes with a dynamic shape declared by a class statement'], 'PF55': ['fix: a hybrid object given to the constructor under the struct name'],
 'PF56': ['fix: from_dict lost the renamed fields of a hybrid object held'], 'PF57': ['fix: a class reusing the xo.Field objects'], 'PF58': ['fix: C accessors dropped a field offset that is a numpy integer'], 'PF59': ['fix: an index with more entries than the array has axes'], 'PF60': ['fix: to_dict raised NotImplementedError for a hybrid class with an array of structs'], 'PF61': ['fix: a fixed-shape array of dynamically sized items built without arguments'], 'PF62': ['fix: a buffer accepted grow_step <= 0'], 'PF63': ['fix: the JSON form of an array with more than one axis'],
}
k = json.load(open(K))
for e in k['fixed']:
    pre = SUBJECT.get(e['id'])
    if not pre:
        continue
    hs = []
    for p in pre:
        hit = [h for s, h in subj.items() if s.startswith(p)]
        assert len(hit) == 1, (p, hit)
        hs.append(hit[0])
    new = ','.join(hs)
    e['line'] = e['line'].replace(' ' + e['commit'] + ' ', ' ' + new + ' ')
    e['commit'] = new
json.dump(k, open(K, 'w'), indent=1)
print('refreshed', len(k['fixed']))
