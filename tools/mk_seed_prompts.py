#!/venv/bin/python
"""Prompts and scratch worktrees for a round of independently written breaking changes:
    tools/mk_seed_prompts.py [C03 C07 ...]        (default: all twenty properties)
writes /tmp/prompts/<PROP>.txt and adds a detached worktree of /repo's HEAD at /tmp/wt/<PROP>.  A sub-agent is then
told only: "Read the file /tmp/prompts/<PROP>.txt and carry out exactly the task it describes".  The prompt holds the
property's text, the worktree, the deliverables (demo_<PROP>.py, meta_<PROP>.json, uncommitted diff) and one line per
mechanism earlier rounds used for that property (from seeded/*/meta.json) -- nothing of what /verif can detect.
Intake: INTAKE_CHECKS=owning tools/intake_seeded.py <PROP> <PROP>-<letter>; afterwards
`git -C /repo worktree remove --force /tmp/wt/<PROP>`."""
import glob
import json
import os
import subprocess
import sys


def main():
    want = set(sys.argv[1:])
    props = [json.loads(l) for l in open("/verif/properties.jsonl")]
    used = {}
    for d in sorted(glob.glob("/verif/seeded/C*-*")):
        try:
            m = json.load(open(d + "/meta.json"))
        except Exception:
            continue
        p = m.get("breaks_property") or os.path.basename(d)[:3]
        files = m.get("files") or []
        used.setdefault(p, []).append((", ".join(files) if isinstance(files, list) else str(files), (m.get("what_changed") or "")[:220].replace("\n", " ")))
    os.makedirs("/tmp/prompts", exist_ok=True)
    os.makedirs("/tmp/wt", exist_ok=True)
    for p in props:
        pid = p["id"]
        if want and pid not in want:
            continue
        wt = f"/tmp/wt/{pid}"
        if not os.path.exists(wt):
            subprocess.run(["git", "-C", "/repo", "worktree", "add", "-q", "--detach", wt, "HEAD"], check=True)
        prev = "\n".join(f"  - ({f}) {w}" for f, w in used.get(pid, []))
        txt = f"""You are helping to evaluate a verification framework for the Python library xsuite/xobjects (binary in-buffer layouts: struct/array/string/ref/unionref; a first-fit buffer allocator; a C accessor-API generator for CPU/OpenCL/CUDA kernels).

Your own scratch git worktree of the library is at {wt} (a detached checkout). Work ONLY inside {wt}. Never touch /repo or /verif, and do not read anything under /verif. Use `/venv/bin/python` with `PYTHONPATH={wt}` so that your worktree shadows the installed package. There is no network.

THE PROPERTY (id {pid}): {p['title']}

Statement: {p['statement']}

Quantified over: {p['quantifier']['text']}

YOUR TASK: make ONE realistic change to the library source in {wt}/xobjects (an optimisation, a refactoring, a "simplification", an edge-case handler; prefer a SUBTLE change inside existing logic: a boundary, an operand, a condition, an order of two statements, a helper reused where its precondition does not hold, a value reused after it went stale) that BREAKS this property, while
 (a) the package still imports and the existing test suite still passes unedited: `cd {wt} && PYTHONPATH={wt} /venv/bin/python -m pytest -q -p no:cacheprovider -n 8` (163 passed), and
 (b) the breakage needs something SPECIFIC to manifest (a multi-step sequence, an unusual but legal input, a particular history of allocations and frees, an error path followed by further use, state that outlives a call, two cooperating sites), NOT something ordinary use exposes at once.
Do not add comments that announce the bug. Do not edit tests. One to three sites.

Earlier rounds already used the following mechanisms for this property; do something DIFFERENT in kind:
{prev}

DELIVERABLES (all inside {wt}):
 1. the change itself, left UNCOMMITTED in the working tree (so `git diff` shows it; `git add -N` any new file);
 2. `{wt}/demo_{pid}.py`: self-contained, public behaviour of xobjects only, prints PASS and exits 0 on the unchanged library, prints what went wrong and exits 1 with your change; deterministic; no GPU / pyopencl / cupy;
 3. `{wt}/meta_{pid}.json`: {{"breaks_property": "{pid}", "what_changed": "<files, functions, before/after, why it breaks the property>", "needs_to_manifest": "<what is needed>", "files": ["xobjects/..."]}}.

Verify before finishing: `git diff > /tmp/{pid}.diff && git checkout -- xobjects` -> demo PASSes; `git apply /tmp/{pid}.diff` -> demo FAILs (exit 1); the suite passes with the change. Leave the change applied. Report in a few lines.
"""
        open(f"/tmp/prompts/{pid}.txt", "w").write(txt)
        print(pid, wt)


if __name__ == "__main__":
    main()
