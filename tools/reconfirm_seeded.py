#!/venv/bin/python
"""Re-confirm every kept seeded change against /repo's CURRENT HEAD (fix: commits made after a change was taken
in can make it harmless):  tools/reconfirm_seeded.py [name ...]

For each /verif/seeded/<name>: scratch copy of /repo's tree under /dev/shm; demo must PASS without the patch and
FAIL with it.  Records meta["status"]:
   "breaking"            demo passes without / fails with the patch on the current tree
   "benign-after-fix"    patch applies but the demo now passes with it (a later fix: commit made it harmless);
                         such a change is kept as a BENIGN variant: the checks must stay silent on it
   "stale"               patch no longer applies
The existing suite is not re-run here (tools/intake_seeded.py did that when the change was taken in)."""
import json
import os
import shutil
import subprocess
import sys
import tempfile
from concurrent.futures import ThreadPoolExecutor

PY = "/venv/bin/python"
SEEDED = "/verif/seeded"


def sh(cmd, cwd=None, env=None, timeout=900):
    e = dict(os.environ)
    if env:
        e.update(env)
    r = subprocess.run(cmd, shell=True, cwd=cwd, env=e, capture_output=True, text=True, timeout=timeout)
    return r.returncode, r.stdout + r.stderr


def one(name):
    dest = f"{SEEDED}/{name}"
    meta = json.load(open(f"{dest}/meta.json"))
    d = tempfile.mkdtemp(prefix="reconf_", dir="/dev/shm")
    try:
        sh(f"git -C /repo archive HEAD | tar -x -C {d}")
        rc0, o0 = sh(f"{PY} {dest}/demo.py", cwd=d, env={"PYTHONPATH": d})
        rcp, op = sh(f"patch -p1 -s < {dest}/patch.diff", cwd=d)
        if rcp != 0:
            status = "stale"
            rc1 = None
        else:
            rc1, o1 = sh(f"{PY} {dest}/demo.py", cwd=d, env={"PYTHONPATH": d})
            if rc0 == 0 and rc1 != 0:
                status = "breaking"
            elif rc0 == 0 and rc1 == 0:
                status = "benign-after-fix"
            else:
                status = f"demo-fails-on-clean-tree(rc={rc0})"
    finally:
        shutil.rmtree(d, ignore_errors=True)
    head = subprocess.check_output(["git", "-C", "/repo", "rev-parse", "--short", "HEAD"]).decode().strip()
    meta["status"] = status
    meta["reconfirmed_at_repo_head"] = head
    json.dump(meta, open(f"{dest}/meta.json", "w"), indent=1)
    return name, status, rc0, rc1


def main():
    names = sys.argv[1:] or sorted(n for n in os.listdir(SEEDED) if os.path.isfile(f"{SEEDED}/{n}/patch.diff"))
    with ThreadPoolExecutor(8) as ex:
        for name, status, rc0, rc1 in ex.map(one, names):
            print(f"{name:8s} {status:20s} demo clean rc={rc0} patched rc={rc1}")


if __name__ == "__main__":
    main()
