#!/venv/bin/python
"""Quick catch matrix: every kept seeded change against its OWNING check only (scratch copies under /dev/shm,
8 at a time).  tools/recheck_owning.py [name ...]  -> seeded/OWNING.md ; exit 1 if a verdict is not the expected one."""
import json
import os
import shutil
import subprocess
import sys
import tempfile
from concurrent.futures import ThreadPoolExecutor

PY = "/venv/bin/python"
SEEDED = "/verif/seeded"


def one(name):
    meta = json.load(open(f"{SEEDED}/{name}/meta.json"))
    prop = meta["breaks_property"]
    d = tempfile.mkdtemp(prefix="own_", dir="/dev/shm")
    try:
        shutil.copytree("/repo/xobjects", d + "/xobjects", ignore=shutil.ignore_patterns("__pycache__", "*.so"))
        shutil.copytree("/repo/docs", d + "/docs")
        shutil.copy("/repo/Architecture.md", d + "/Architecture.md")
        r = subprocess.run(f"patch -p1 -s < {SEEDED}/{name}/patch.diff", shell=True, cwd=d, capture_output=True, text=True)
        if r.returncode != 0:
            return name, prop, "stale", [], meta.get("status")
        env = dict(os.environ, XOVERIF_JOBS="2")
        r = subprocess.run(f"{PY} -m xoverif.check {prop} --no-evidence --root {d}", shell=True, cwd="/verif", capture_output=True, text=True, env=env, timeout=1800)
        out = r.stdout + r.stderr
        rules = sorted({l.split(": ", 1)[1].split(" ")[0] for l in out.splitlines() if l.startswith("FAIL")})
        return name, prop, r.returncode, rules, meta.get("status")
    finally:
        shutil.rmtree(d, ignore_errors=True)


def main():
    names = sys.argv[1:] or sorted(n for n in os.listdir(SEEDED) if os.path.isfile(f"{SEEDED}/{n}/meta.json"))
    with ThreadPoolExecutor(max_workers=8) as ex:
        res = list(ex.map(one, names))
    bad = 0
    lines = ["| change | owning check | verdict | rules |", "|---|---|---|---|"]
    for name, prop, rc, rules, status in res:
        benign = status == "benign-after-fix"
        ok = (rc == 0) if benign else (rc == 1)
        verdict = {0: "silent", 1: "reported", 2: "not decided (exit 2)", "stale": "patch does not apply"}.get(rc, str(rc))
        if benign:
            verdict += " (harmless since a later fix: expected)"
        if not ok:
            bad += 1
            print(f"UNEXPECTED {name}: {verdict} {rules}")
        lines.append(f"| {name} | {prop} | {verdict} | {', '.join(rules[:6])} |")
    open(f"{SEEDED}/OWNING.md", "w").write("\n".join(lines) + "\n")
    print(f"{len(res)} changes, {bad} unexpected")
    return 1 if bad else 0


if __name__ == "__main__":
    sys.exit(main())
