#!/venv/bin/python
"""Focused false-alarm run: the rules named on the command line (PROP:RULE[,RULE] ...) against every refactoring of the
benign corpus (scratch copies under /dev/shm, 16 at a time).  Used after a rule was added or changed, when the full
corpus x every check (tools/run_benign.py, hours) is out of reach.
    tools/run_benign_rules.py C13:B3 C02:T3z,T8 C16:S1 ...
Exit 1 if any refactoring draws a VIOLATION."""
import glob
import os
import shutil
import subprocess
import sys
import tempfile
from concurrent.futures import ThreadPoolExecutor

PY = "/venv/bin/python"
SPECS = [a.split(":") for a in sys.argv[1:]]


def one(patch):
    d = tempfile.mkdtemp(prefix="bnr_", dir="/dev/shm")
    try:
        shutil.copytree("/repo/xobjects", d + "/xobjects", ignore=shutil.ignore_patterns("__pycache__", "*.so"))
        shutil.copytree("/repo/docs", d + "/docs")
        shutil.copy("/repo/Architecture.md", d + "/Architecture.md")
        r = subprocess.run(f"patch -p1 -s < {patch}", shell=True, cwd=d, capture_output=True, text=True)
        if r.returncode != 0:
            return patch, "stale", []
        out = []
        env = dict(os.environ, XOVERIF_JOBS="1")
        for prop, rules in SPECS:
            r = subprocess.run(f"{PY} -m xoverif.check {prop} --no-evidence --rules {rules} --root {d}", shell=True, cwd="/verif", capture_output=True, text=True, env=env, timeout=900)
            if r.returncode != 0:
                first = [l for l in (r.stdout + r.stderr).splitlines() if l.startswith(("FAIL", "ANALYSIS-ERROR"))][:1]
                out.append((prop, rules, r.returncode, first[0][:260] if first else ""))
        return patch, "ok", out
    finally:
        shutil.rmtree(d, ignore_errors=True)


def main():
    patches = sorted(glob.glob("/verif/benign/*/refactor_*.diff"))
    fa = e2 = stale = 0
    with ThreadPoolExecutor(16) as ex:
        for patch, st, out in ex.map(one, patches):
            if st == "stale":
                stale += 1
                continue
            for prop, rules, rc, first in out:
                name = patch.replace("/verif/benign/", "")
                if rc == 1:
                    fa += 1
                    print(f"FALSE ALARM {name} {prop}:{rules}: {first}", flush=True)
                else:
                    e2 += 1
                    print(f"exit2 {name} {prop}:{rules}: {first}", flush=True)
    print(f"{len(patches)} refactorings ({stale} no longer apply), {len(SPECS)} rule groups: {fa} false alarms, {e2} not decided")
    return 1 if fa else 0


if __name__ == "__main__":
    sys.exit(main())
