#!/venv/bin/python
"""Run every claimed check against every behaviour-preserving refactoring of the benign corpus (/verif/benign/<area>/
refactor_k.diff, written by sub-agents that never saw /verif; each passed the unedited suite and a differential
comparison against HEAD when it was written).  A VIOLATION on any of them is a false alarm of the rule that reports it.
    tools/run_benign.py [area ...]
Writes benign/RESULTS.md; exit 1 if any refactoring draws a VIOLATION."""
import glob
import os
import sys
from concurrent.futures import ThreadPoolExecutor

sys.path.insert(0, os.path.dirname(os.path.abspath(__file__)))
from run_on_patch import run  # noqa: E402


def main():
    areas = sys.argv[1:] or sorted(d for d in os.listdir("/verif/benign") if os.path.isdir(f"/verif/benign/{d}"))
    patches = [p for a in areas for p in sorted(glob.glob(f"/verif/benign/{a}/refactor_*.diff"))]
    res = []
    with ThreadPoolExecutor(8) as ex:
        for p_, r_ in zip(patches, ex.map(run, patches)):  # (progress on stderr: a long run can be read while it goes)
            res.append(r_)
            det_, err_ = r_
            print(f"[{len(res)}/{len(patches)}] {p_.replace('/verif/benign/', '')}: " + ("does not apply" if err_ else ("FALSE ALARM " + ",".join(k for k, x in det_.items() if x["rc"] == 1)) if any(x["rc"] == 1 for x in det_.values()) else "silent" + (" [exit2: " + ",".join(k for k, x in det_.items() if x["rc"] == 2) + "]" if any(x["rc"] == 2 for x in det_.values()) else "")), file=sys.stderr, flush=True)
    lines = ["| refactoring | violations (false alarms) | exit 2 (shape not recognised) |", "|---|---|---|"]
    fa = 0
    for p, (det, err) in zip(patches, res):
        name = p.replace("/verif/benign/", "")
        if err:
            print(f"{name}: {err[:100]}")
            lines.append(f"| {name} | (patch does not apply to the current tree) | |")
            continue
        v = {k: x for k, x in det.items() if x["rc"] == 1}
        e = {k: x for k, x in det.items() if x["rc"] == 2}
        if v:
            fa += 1
        print(f"{name}: " + ("FALSE ALARM " + "; ".join(f"{k}:{','.join(x['rules'])}" for k, x in sorted(v.items())) if v else "silent") + (f"   [exit2: {','.join(sorted(e))}]" if e else ""))
        for k, x in sorted(e.items()):
            print("        ", k, x["lines"][0][:200] if x["lines"] else "")
        lines.append(f"| {name} | {'; '.join(k + ':' + ','.join(x['rules']) for k, x in sorted(v.items())) or '-'} | {', '.join(sorted(e)) or '-'} |")
    open("/verif/benign/RESULTS.md", "w").write("\n".join(lines) + "\n")
    print(f"{len(patches)} refactorings, {fa} with a false alarm")
    return 1 if fa else 0


if __name__ == "__main__":
    sys.exit(main())
