#!/venv/bin/python
"""Regenerates /verif/MANIFEST.json from the table below (run by hand, result committed)."""
import json
import os
import sys

sys.path.insert(0, os.path.dirname(os.path.dirname(os.path.abspath(__file__))))
from xoverif import core  # noqa: E402
from xoverif.check import load_rules  # noqa: E402

load_rules()

PY = "/venv/bin/python"

# property -> (technique, decided, undecided, design section)
CLAIMS = {
    "C04": (
        "linear normal forms + dominance over XBuffer.allocate/grow/free (local obligations of an inductive free-list invariant)",
        "Decides the local obligations A0-A8, G-1..G-5, F-0..F-5 on the source of context.py: round-up idiom of _align, returned offset = round-up(chunk.start, alignment), fit guard implies offset+size<=chunk.end for a chunk of the free list, served bytes leave the list before returning, growth copies every old byte at offset 0 before swapping storage, the new free range is exactly [old,new), freed range is [offset,offset+size), sorted insertion, merge pass; _new_buffer yields `capacity` bytes in every buffer kind; copy_to_native slice extents (rule B1).",
        "The inductive invariant (pairwise disjoint free chunks inside [0,capacity) disjoint from live regions) is a paper argument in DESIGN.md 4.C04 that uses exactly these obligations; histories, concrete byte images and the power-of-two precondition on default_alignment are not decided.",
        "4.C04",
    ),
    "C12": (
        "linear normal forms, guard equivalence, may-be-empty typestate of the free list, structural first-fit scan rules",
        "Decides on the source of context.py: the fit guard is equivalent (not merely sufficient) to offset+size<=chunk.end, the scan iterates self.chunks in list order and returns at the first fit, no growth before/inside the scan, every retry is preceded by growth with the same request, capacity is only ever increased, free cannot raise (no fixed-position index of a possibly empty list, no raise/assert/remove), touching chunks merge (non-strict overlaps, min/max merge), served bytes leave the free list exactly, only empty chunks are removed, get_free sums end-start over the list.",
        "Step-by-step agreement with an executable first-fit model over histories, maximality of coalescing after arbitrary histories and recursion depth of the retry are not decided.",
        "4.C12",
    ),
}

PENDING = "check not implemented yet in this session (design in DESIGN.md section 4); not claimed until its rules run clean"


def main():
    props = [json.loads(l) for l in open(os.path.join(core.VERIF, "properties.jsonl"))]
    checks, na = [], []
    for p in props:
        pid = p["id"]
        if pid in CLAIMS and core.rules_for(pid):
            tech, decided, undecided, ref = CLAIMS[pid]
            checks.append(
                {
                    "property_id": pid,
                    "quick_cmd": f"{PY} -m xoverif.check {pid} --tier quick",
                    "thorough_cmd": f"{PY} -m xoverif.check {pid} --tier thorough",
                    "evidence_file": f"/verif/evidence/{pid}.json",
                    "replay_cmd_template": f"{PY} -m xoverif.check --replay {{path}}",
                    "engine": "xoverif",
                    "level_claimed": {
                        "category": "other",
                        "text": "Static analysis (partial decision): " + decided + " NOT decided: " + undecided,
                        "design_ref": "DESIGN.md " + ref,
                    },
                    "level_note": "Trusted base: CPython's ast parser, the checker's own flow/linear/partial-evaluation engines (validated both ways by /verif/selftest variants), callee resolution by name inside the package, the documented layout transcribed in xoverif/spec. Only necessary structural clauses are decided; the behaviour itself (values, byte images, histories) is not.",
                    "technique": "static analysis: " + tech,
                }
            )
        else:
            na.append({"property_id": pid, "reason": PENDING})
    man = {
        "version": 1,
        "setup_cmd": f"{PY} -m compileall -q /verif/xoverif",
        "hooks": {
            "guard": "XOBJECTS_VERIF",
            "enable": "none needed: static analysis reads /repo's working tree, no instrumentation is added",
            "baseline_off_cmd": "cd /repo && /venv/bin/python -m pytest -ra -q -p no:cacheprovider --timeout=900 --continue-on-collection-errors",
            "source_commits": [l.split()[0] for l in os.popen("git -C /repo log --format=%h b6bc203..HEAD").read().splitlines()],
            "add_only": True,
        },
        "engines": [
            {
                "name": "xoverif",
                "path": "/verif/xoverif",
                "serves_properties": [c["property_id"] for c in checks],
                "kind_free_text": "repository-specific static analyser over stdlib ast: source model, structured flow/dominance, polynomial normal forms, idiom tables, partial evaluation over class descriptors, emitted-C template analysis",
            }
        ],
        "checks": checks,
        "not_applicable": na,
        "notes": "hooks.source_commits lists only 'fix:' commits (repairs of genuine defects, see /verif/known_findings.json and DESIGN.md section 5); no guarded hook code exists.",
    }
    with open(os.path.join(core.VERIF, "MANIFEST.json"), "w") as fh:
        json.dump(man, fh, indent=1)
    print(f"claimed {len(checks)}; not applicable {len(na)}")


if __name__ == "__main__":
    main()
