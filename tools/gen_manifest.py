#!/venv/bin/python
"""Regenerates /verif/MANIFEST.json from the table below (run by hand, result committed)."""
import json
import os
import sys

sys.path.insert(0, os.path.dirname(os.path.dirname(os.path.abspath(__file__))))
from xoverif import core  # noqa: E402
from xoverif.check import load_rules  # noqa: E402

load_rules()

PY = "/venv/bin/python"

# property -> (technique, decided, undecided, design section)
CLAIMS_C04 = (
        "linear normal forms + dominance over XBuffer.allocate/grow/free (local obligations of an inductive free-list invariant)",
        "Decides the local obligations A0-A8, G-1..G-5, F-0..F-5 on the source of context.py: round-up idiom of _align, returned offset = round-up(chunk.start, alignment), fit guard implies offset+size<=chunk.end for a chunk of the free list, served bytes leave the list before returning, growth copies every old byte at offset 0 before swapping storage, the new free range is exactly [old,new), freed range is [offset,offset+size), sorted insertion, merge pass; _new_buffer yields `capacity` bytes in every buffer kind; copy_to_native slice extents (rule B1). free() is evaluated on every order type of free list and freed region (FM, lists of up to 4/6 chunks): the result is the sorted, fully coalesced list with exactly the freed bytes added. allocate() together with the real grow() is evaluated on every abstract allocator state (AM: up to 2/3 free chunks x {does not fit, fits exactly, fits} per chunk x alignment on/off x last chunk at the end or not x growth policy {request > capacity, grow_step one step suffices / does not suffice, doubling} x refused enlargement) and compared, as polynomials, with a first-fit reference model: returned offset, free list, capacity, number and extent of growth copies; a refused enlargement leaves the allocator unchanged. The shape-specific obligations A1-A7 are kept as diagnostics.",
        "The inductive invariant (pairwise disjoint free chunks inside [0,capacity) disjoint from live regions) is a paper argument in DESIGN.md 4.C04 that uses exactly these obligations plus FM for free(); histories, concrete byte images and the power-of-two precondition on default_alignment are not decided.",
        "4.C04",
    )
CLAIMS_C12 = (
        "linear normal forms, guard equivalence, may-be-empty typestate of the free list, structural first-fit scan rules",
        "Decides on the source of context.py: the fit guard is equivalent (not merely sufficient) to offset+size<=chunk.end, the scan iterates self.chunks in list order and returns at the first fit, no growth before/inside the scan, every retry is preceded by growth with the same request, capacity is only ever increased, free cannot raise (no fixed-position index of a possibly empty list, no raise/assert/remove), touching chunks merge (non-strict overlaps, min/max merge), served bytes leave the free list exactly, only empty chunks are removed, get_free sums end-start over the list. free() is evaluated on every order type (FM): sorted, fully coalesced, leak-free, never raising, get_free accounting - i.e. step agreement of free with the first-fit/coalescing specification for every list of up to 4 (quick) / 6 (thorough) chunks. allocate()+grow() agree with a first-fit reference model on every abstract allocator state (AM, see C04): lowest-addressed fit, exact consumption, growth only when nothing fits, growth amount per policy, retry until served.",
        "Agreement with a first-fit model over whole HISTORIES of allocate/grow/free (each single step is evaluated on every abstract state within the list-length bound - FM for free, AM for allocate+grow - but sequences are not composed), lists longer than the bound, more than four consecutive growth steps, and comparisons the abstract states do not fix (reported as exit 2) are not decided.",
        "4.C12",
    )
CLAIMS = {
    "C01": ("agreement of planner/writer/reader sites, order-aware flat writes, scalar dtype symmetry, slot-rounding of planners",
            "Decides structural necessary conditions: scalar read/write helpers use one dtype/size/offset (SC) and the dtype<->C table (T5); planners advance by slot-rounded child sizes (L3); every flat write of an index-space quantity is brought to memory order and readers apply the inverse permutation (L4); plus the layout-agreement rules L1/L2/L6/L7 when present in the rule list of the evidence. Copy-construction of structs places every field at the documented position for constructor-made and view-made sources (L2c).",
            "That the bytes decode to the same value (dtype conversion, UTF-8, NaN payloads), placement independence on concrete buffers.", "4.C01"),
    "C02": ("emitted-C template analysis (partial evaluation of capi emitters over class descriptors) + linear normal forms",
            "Decides over every statement template the generator can emit: offset statements are additive (T1), loads are base-relative (T2), constants equal the Python locators and the documented layout (T3), path parts are handled exhaustively (T4), scalar<->C types agree (T5).",
            "Numeric equality of addresses on concrete objects; the cffi call path.", "4.C02"),
    "C03": ("guards by dominance, planner rounding, round-up idiom table, leaf write extents",
            "Decides: a size comparison dominates every in-place rewrite whose extent derives from the new value (G2), whole-object byte copies only for reference-free types and equal sizes (G1), planners slot-round child sizes (L3, A0), leaf writer extents are inside the planned size where the layout rules are present. Assignment through a field/an item is evaluated per kind of part (R12: leaves and references are rewritten at their own slot, dynamically sized leaves with the reserved size, compounds updated in place); array-like values of another shape or rank are refused before anything is written (R13).",
            "Byte-for-byte invariance of the rest of a concrete buffer; the nplike bulk path's extent depends on the run-time shape of the value.", "4.C03"),
    "C04": CLAIMS_C04,
    "C05": ("documented-layout oracle vs planner/writer sites, reference encoding normal forms, memory-order rule for flat tables",
            "Decides: slot rounding of parts (L3, A0), item offset table and bulk data are written in memory order (L4), relative reference encoding with the reserved null and [offset, typeid] word order (R08), plus header/field sequences against the documented table when L1/L2/L6 are present in the rule list.",
            "That an independent decoder recovers concrete values.", "4.C05"),
    "C06": ("abstract interpretation of struct/array objects over bounded operation histories (kept handle vs fresh view), attribute census / must-assign dataflow over materialisers, abstract rank inference, locator parity",
            "Decides by evaluation of the current source (SV): for S{a: Float64[:], b: Float64[:], c}, S[:] and String[3] objects, after every history of length <= 2 (quick) / 3 (thorough) over 16 operations (_update from an equal-size object of the same / another buffer, partial update, field and item assignment, copy then update of the copy, copy to another buffer, item assignment from an item / a struct, string item shrink / fit / too long, refused assignments) every kept handle locates every field and item exactly where a view made afresh from (buffer, offset) locates it, with the same shapes, and reads the values the history dictates. Also: every materialiser (__init__, _from_buffer, __setstate__) establishes the caches the view materialiser establishes, under the same class conditions (M1); every producer of the item-offset cache has rank nd (M2); get/set/offset-of share one locator (R10). A handle restored through the class's pickle state methods equals a view for every descriptor (PS); handles keep (buffer, offset, structure caches) only - no memoised child view or value (M4); shared caches are never edited in place (M3).",
            "Histories longer than the bound, other type shapes than the evaluated zoo (N-d arrays of dynamic items, unions, references inside the rewritten objects); a second handle to an object that was restructured through another handle is outside the property (no handle can refresh another).", "4.C06, 10.14"),
    "C07": ("get/set twin analysis over emitted-C templates",
            "Decides: setter and getter share one address computation and one typed access (C07.R1/R2) and the shared computation obeys T1-T3, T5.",
            "Sanitizer-clean execution; 'changes nothing else' on a concrete image.", "4.C07"),
    "C08": ("linear normal forms of the reference encoding, may-alias typestate of the stored object, null constants, no-native-storage-cache census",
            "Decides: stored word = target offset - own slot and the readers apply the inverse (R08); an aliasing offset is stored only for an object of the same buffer or one constructed in it (G4); None arm writes the reserved constants and readers test them before arithmetic; recorded member index and constructed member derive from one key; growth preserves offsets (GR) and nobody caches native storage (NC). The reference writers and readers are evaluated for every documented value kind (R14: alias only inside the holder's buffer, new object otherwise, relative encoding, reserved null, member id, refusal of non-members); plain data assigned to a reference never writes through to the old referent (R12).",
            "Liveness of targets over histories; type-name based aliasing against same-named foreign classes.", "4.C08"),
    "C09": ("dominance of the _has_refs guard over every whole-object byte copy, propagation of _has_refs, fresh-allocation rule",
            "Decides: a raw byte copy is reachable only for reference-free types (G1) and _has_refs is True for both reference kinds and the OR over inner types in both container metaclasses (G1b); reference writers alias only same-buffer objects (G4); each constructor (struct, struct from an object elsewhere, array by value / by length, string, union) is evaluated: one allocation of the planned size before any write, every write inside it, the new object views it (R09); cross-context dispatch of update_from_xbuffer (B3). Field-wise struct copies are placed per the documented layout (L2c); shared handle caches are never edited in place (M3); bulk copies of python attributes between hybrid handles are re-validated against the destination's storage (H6); _has_refs propagation is evaluated on the metaclasses (G1b).",
            "Value equality and storage disjointness of concrete copies.", "4.C09"),
    "C10": ("abstract interpretation over operation histories with a frame condition on the abstract memory; locator agreement by evaluation; dispatch exhaustiveness, capacity guards",
            "Decides by evaluation (SV, see C06): an assignment / update changes no known word of the abstract memory outside the element or object it is applied to, every other leaf reads what the history dictates, a value that does not fit is refused with nothing changed. Also: for every in-range index of 1-D/2-D arrays (C/F order, static/dynamic shape, leaf/compound/dynamic items) offset-of = read position = write position = the place where construction stored that item (R10e, evaluated), fields go through one locator (R10, L2); cached part offsets are re-read after a rewrite that can move parts (R10r); compounds are updated through their own _update and leaves are written at the located offset; only fitting values can be written (G2); byte copies only without references (G1). Assignment dispatch per kind of part (R12), partial struct updates write exactly the named fields (R15), string write extents (L6), no memoised views (M4), shared caches not edited in place (M3).",
            "That all other elements keep their values over a history.", "4.C10"),
    "C11": ("raising guard dominates the effect, per misuse class; refusal-precedes-mutation by may-follow analysis",
            "Decides for each misuse class of the statement that a raising guard with the stated condition dominates the effect (R11: index bound, update length and shape, construction shape, union membership; allocate_on_buffer is evaluated on recording contexts/buffers for 18 argument combinations: offset without buffer and foreign-context buffer refused before a buffer is created / anything allocated, placement modes, explicit offsets used as given), every Array accessor refuses an out-of-range index before any read or write (G3e, evaluated), the bound check dominates every locator (G3), capacity comparison precedes every in-place rewrite (G2), and no refusal is reachable after a mutation in functions that rewrite existing objects (G5). Shape/rank/arity refusals are evaluated for every array descriptor (R13), union non-members by evaluation of the writer (R14), string capacity from encoded bytes (L6).",
            "'Every existing object unchanged' on concrete buffers; misuse classes not enumerated by the statement.", "4.C11"),
    "C12": CLAIMS_C12,
    "C13": ("abstract interpretation of the CPU buffer primitives on an abstract native storage (bytearray / ndarray semantics) for every documented kind of source; slice extent normal forms for all buffer classes, copy-vs-view table, context dispatch, sibling signatures",
            "Decides by evaluation of the current source (B1e): for both CPU buffer classes and each of the seven copy primitives, with sources that are n bytes, typed memoryviews (len = items, nbytes = items*itemsize), regions of another storage and numpy arrays of C / Fortran / last-axis-strided layout with and without dtype conversion: no exception, exactly one store of exactly the data's byte length at [offset, offset+nbytes) (a store of another length would resize a bytearray / raise on an ndarray), data taken from the requested place; extracting primitives return independent copies, viewing primitives views at the requested offset and count. Also: every slice of a copy primitive is [lo : lo+n] with the documented offset parameter and one common length (B1, incl. the never-executed BufferCupy), dtype conversion precedes the byte transfer, extracting primitives copy and viewing primitives alias (B2), update_from_xbuffer evaluated on recording buffers of the same / of another context (B3), sibling signature agreement (B4), the four scalar helpers of each of the 10 scalar types evaluated against a recording model of np.dtype/np.frombuffer (SC), _new_buffer size (NB). Copy/view classification of every extracting/viewing primitive by an abstract alias domain over the native storage (B2).",
            "Byte images on concrete buffers; the numeric result of a dtype conversion; numpy behaviour outside the modelled fragment (reported as analysis error, never as a verdict).", "4.C13, 10.14"),
    "C14": ("flag-consumption by dominance, exhaustiveness of dependency collection, uniqueness analysis of the Kahn frontier, order-of-use",
            "Decides: the cycle flag reaches a raise before any return (D1); dependency collection covers every container kind and closes transitively (D2); the two frontier sources of topological_sort are disjoint and the Kahn bookkeeping emits a node exactly when its last dependency was emitted (D4); the sorted list is used in order for API sources and cdefs, headers precede class sources precede user sources in all three contexts (D5); include guards when the template rules are present. No generator memoises its result on the class through an inheritance-following lookup (D6); the zoo's API has each accessor exactly once (T4.once). sort_classes is evaluated on every dependency graph of up to 3 (quick) / 4 (thorough) classes and on 120 cases of a class given again under the same name (DG): each class once, the last object given for a name, after all of its own dependencies; cycles refused.",
            "That Kahn's loop yields a topological order for every graph (algorithmic); that the emitted source compiles.", "4.C14"),
    "C15": ("abstract evaluation of the specialiser per target, substitution tables, qualifier placeholders in emitted templates",
            "Decides: target substitution only touches qualifier placeholders (S8), every pointer type of every emitted template carries the global-memory placeholder (T6), function qualifier (T7), target integer typedef widths (S10).",
            "Acceptance by a host C compiler.", "4.C15"),
    "C16": ("abstract evaluation of the specialiser per target and line class, ceil-division idiom table for the launch geometry",
            "Decides: launch geometry by evaluation of both launchers with recording device functions (K6: CUDA grid x block covers n with block = block_size, OpenCL global size exactly n, n given as a constant or as the name of an argument, n around multiples of the block size) and, when the specialiser rules S1-S9 are present in the rule list, the per-target loop/guard templates, brace balance, context-restricted lines, include splice and pass-through. One OpenMP predicate selects the specialisation target, omp.h, -fopenmp and omp_set_num_threads (S10.target); line classes are crossed with their origin (plain / included file).",
            "Results for concrete n on devices.", "4.C16"),
    "C17": ("abstract interpretation of the three kernel launchers and the dispatcher with recording converters and C functions; linear normal form of pointer derivation, type-derivation rules, table oracle",
            "Decides by evaluation (K4e): a well-formed call (keywords in any order) calls the C function exactly once with the converted arguments in declared order and hands its return value back, on serial and OpenMP contexts and for the CUDA/OpenCL launchers; calls with a missing, extra, misspelt or positional argument raise before the C function runs. Also: xobjects are passed as address(current storage)+current offset typed by the declared class (K1), ndarrays as a pointer to their first element typed from their own dtype, xobject arrays from offset+data offset typed from their item type (K2), dtype<->C tables (T5/K3), positional refusal, arity check before conversion, declared order, identity return, cffi signature (K4), no cached native storage (NC). The ndarray pointer is derived from the caller's array itself, never through a call that may copy (K1.ndarray.nocopy); the cffi signature is evaluated on abstract kernels (K4.cdef).",
            "Exact values through cffi; the arity check is an assert (stripped by python -O).", "4.C17"),
    "C18": ("abstract interpretation of the dressing layer (metaclass, descriptors, xoinitialize, _reinit_from_xobject, move, copy, struct/ref writers) on an abstract memory over every bounded history of {set, nested assignment, reference assignment, construct, copy, move, state round trip, buffer growth}; refusal predicate as a truth table; name-space typing of rename maps",
            "Decides by evaluation of the current source (HV): after every step of every history of length <= 2 (quick) / <= 4 (thorough) over 22 operations on a class zoo with nested, renamed, reference and array fields, every nested dressed object views exactly the bytes of its field, every reference attribute views the referent the stored word points to, every scalar attribute reads its field's slot, every array attribute is a view of the array data in the current storage; a by-value assignment copies exactly the object's bytes to the field and leaves the value where it was; copy/move allocate the object's size and copy its bytes; references are shared inside one buffer and refused across buffers before any write; move of a nested part, of an object holding references and of a referenced object is refused before any write. Also: move refusals and their order w.r.t. reconstruction (H1), every stored dressed child is marked non-movable and views the container's field, _xobject restored after the python-side copy (H2), name-space typing xo/py of every field-name use (H4), reads go through the buffer (H5), cross-buffer reference refusal precedes the write (G5h). Bulk attribute copies between hybrid handles are re-validated (H6: nested parts rebuilt, dressed referents dropped unless they view the referent); the data copy of a by-value assignment is skipped only for the same buffer AND offset (H7).",
            "Histories longer than the bound or over other class shapes than the zoo (dynamic-size fields, N-d arrays, UnionRef fields); value equality of concrete bytes after copy/move (decided only as 'exactly the object's bytes are copied from its place'); the python-side attribute preservation.", "4.C18, 10.12"),
    "C19": ("abstract interpretation of to_dict/from_dict on nested, renamed, default and default-factory fields over value assignments {default, other}^9; evaluation of Field.get_default/value_from_args and of the JSON producers/consumers; guard polarity normalisation, key-space typing",
            "Decides by evaluation of the current source (JD): for Top{t default, u, mid: Mid{m default, renamed nested Leaf}, renamed Leaf} with Leaf{x, renamed y default 3, z default_factory} and every scalar set to its declared default or to another value (quick 20 assignments, thorough all 512) the dictionary holds exactly the scalars that differ from their declared default, to_dict leaves the object unchanged, and every scalar of from_dict(to_dict()) reads the original's value. Also: the plain-value store of to_dict is reached exactly under an inequality with the declared default (J1), defaults have a single source shared with the constructor (J2), both sides of the defaults lookup live in one name space (H4), JSON producer forms match what the constructors consume (J3). to_dict elision is decided on paths: every path that stores nothing carries the fact value == declared default (J1).",
            "Array- and string-valued hybrid fields, reference fields, classes outside the evaluated zoo; value equality is decided on the abstract words (number identity), not on numpy dtype conversion; multi-dimensional arrays.", "4.C19, 10.12"),
    "C20": ("must-assign dataflow over materialisers, alias analysis of __getstate__, protocol pairing census",
            "Decides: __setstate__ restores every cache the view materialiser establishes, no class defines half of the pickle protocol (M1); state is the buffer object itself plus offset, __getstate__ edits only a copy of the instance dict, contexts restore what they drop, buffers keep complete allocator state (P1). The state round trip of the current __getstate__/__setstate__ (or the default protocol) is evaluated for every array and struct descriptor and compared with a view (PS). Hybrid handles restored through __getstate__/__setstate__ view the same place and are fully dressed, after every history of HV (see C18); the context state methods are evaluated on an instance with registry, kernels and plain attributes (P1.P2/P3).",
            "Usability/equality of concrete unpickled objects; importability of classes.", "4.C20"),
}

REQUIRE = {"C02": "T1", "C07": "R07", "C15": "S1"}  # key rule that must exist before the property is claimed

PENDING = "check not implemented yet in this session (design in DESIGN.md section 4); not claimed until its rules run clean"


def main():
    props = [json.loads(l) for l in open(os.path.join(core.VERIF, "properties.jsonl"))]
    checks, na = [], []
    for p in props:
        pid = p["id"]
        if pid in CLAIMS and core.rules_for(pid) and REQUIRE.get(pid, core.rules_for(pid)[0]) in core.rules_for(pid):
            tech, decided, undecided, ref = CLAIMS[pid]
            checks.append(
                {
                    "property_id": pid,
                    "quick_cmd": f"{PY} -m xoverif.check {pid} --tier quick",
                    "thorough_cmd": f"{PY} -m xoverif.check {pid} --tier thorough",
                    "evidence_file": f"/verif/evidence/{pid}.json",
                    "replay_cmd_template": f"{PY} -m xoverif.check --replay {{path}}",
                    "engine": "xoverif",
                    "level_claimed": {
                        "category": "other",
                        "text": "Static analysis (partial decision): " + decided + " NOT decided: " + undecided,
                        "design_ref": "DESIGN.md " + ref,
                    },
                    "level_note": "Trusted base: CPython's ast parser, the checker's own flow/linear/partial-evaluation engines (validated both ways by /verif/selftest variants), callee resolution by name inside the package, the documented layout transcribed in xoverif/spec. Only necessary structural clauses are decided; the behaviour itself (values, byte images, histories) is not.",
                    "technique": "static analysis: " + tech,
                }
            )
        else:
            na.append({"property_id": pid, "reason": PENDING})
    man = {
        "version": 1,
        "setup_cmd": f"{PY} -m compileall -q /verif/xoverif",
        "hooks": {
            "guard": "XOBJECTS_VERIF",
            "enable": "none needed: static analysis reads /repo's working tree, no instrumentation is added",
            "baseline_off_cmd": "cd /repo && /venv/bin/python -m pytest -ra -q -p no:cacheprovider --timeout=900 --continue-on-collection-errors",
            "source_commits": [l.split()[0] for l in os.popen("git -C /repo log --format=%h b6bc203..HEAD").read().splitlines()],
            "add_only": True,
        },
        "engines": [
            {
                "name": "xoverif",
                "path": "/verif/xoverif",
                "serves_properties": [c["property_id"] for c in checks],
                "kind_free_text": "repository-specific static analyser over stdlib ast: source model, structured flow/dominance, polynomial normal forms, idiom tables, partial evaluation over class descriptors, emitted-C template analysis",
            }
        ],
        "checks": checks,
        "not_applicable": na,
        "notes": "hooks.source_commits lists only 'fix:' commits (repairs of genuine defects, see /verif/known_findings.json and DESIGN.md section 5); no guarded hook code exists.",
    }
    with open(os.path.join(core.VERIF, "MANIFEST.json"), "w") as fh:
        json.dump(man, fh, indent=1)
    print(f"claimed {len(checks)}; not applicable {len(na)}")


if __name__ == "__main__":
    main()
