import numpy as np, xobjects as xo
def run(name, f):
    try: print(name, '->', f())
    except Exception as e:
        import traceback; print(name, 'EXC', type(e).__name__, e)
class S(xo.Struct):
    s = xo.String
    t = xo.String
def a():
    b=xo.ContextCpu().new_buffer(4096)
    x = S(s='abcdefgh', t='cd',_buffer=b); sz=x._size
    x.s='xy'; r1=(x.s,x.t)
    x.s='abcdefgh12345'; r2=(x.s,x.t)   # fits in 16+8? 'abcdefgh' -> size 24 (8+9 ->24): capacity 16 -> 13 chars+nul fits
    try:
        x.s='a'*40; r3='accepted'
    except ValueError as e: r3='ValueError'
    return r1,r2,r3,(x.s,x.t), x._size==sz
run('field', a)
def b():
    A=xo.String[:]
    x=A(['abcdefgh','zz'])
    x[0]='q'; r1=[x[0],x[1]]
    try: x[1]='a'*20; r2='accepted'
    except ValueError: r2='ValueError'
    return r1,r2,[x[0],x[1]]
run('item', b)
class W(xo.Struct):
    a = xo.String[:]
    z = xo.Int64[:]
def c():
    w=W(a=['abcdefgh','zz'], z=[1,2,3])
    w.a=['a','b']; r1=[w.a[0],w.a[1]], [w.z[i] for i in range(3)]
    try: w.a=['a'*30,'b'*30]; r2='accepted'
    except ValueError: r2='ValueError'
    return r1,r2,[w.a[0],w.a[1]], [w.z[i] for i in range(3)]
run('update', c)
