"""C11 (a value whose type is not a member of the union): membership of a
UnionRef (ref.py:120-132) and the same-type test of Ref (ref.py:55-58) compare
only the class NAME.  Array class names do not encode the axis order, so a
Fortran-ordered Float64[2:1,3:0] instance is taken for the C-ordered member
Float64[2,3] ("Arr2x3Float64" both), stored by reference under the member's
type id and read back with the member's strides: no error, different values."""
import sys
import numpy as np
import xobjects as xo

C = xo.Float64[2, 3]
F = xo.Float64[2:1, 3:0]
print("member   :", C.__name__, "strides", C._strides)
print("value    :", F.__name__, "strides", F._strides, "; same class?", C is F)


class U(xo.UnionRef):
    _reftypes = [C]


class H(xo.Struct):
    u = U
    r = xo.Ref[C]


buf = xo.ContextCpu().new_buffer(4096)
data = np.arange(6.0).reshape(2, 3)
f = F(data, _buffer=buf)
h = H(_buffer=buf)
print("operation: h.u = <Float64[2:1,3:0] instance holding", data.tolist(), ">")
print("required : error (type is not a member), or at least the same values back")
bad = False
try:
    h.u = f
    back = h.u.to_nparray()
    print("observed : accepted; h.u reads", back.tolist())
    bad = not np.array_equal(back, data)
except Exception as e:
    print("observed : raised", repr(e))
try:
    h.r = f
    back = h.r.to_nparray()
    print("Ref[C]   : accepted; h.r reads", back.tolist())
    bad = bad or not np.array_equal(back, data)
except Exception as e:
    print("Ref[C]   : raised", repr(e))
print("\nMISBEHAVIOUR PRESENT" if bad else "\nok")
sys.exit(1 if bad else 0)
