"""C11 (an index outside the array's shape): bound_check (array.py:180-183) zips
the index with the shape, so an index with too many or too few components is
never refused: components beyond the rank are ignored whatever their value and
missing ones are taken as 0.  The write succeeds silently on another element."""
import sys
import numpy as np
import xobjects as xo

A = xo.Float64[2, 3]
a = A(np.zeros((2, 3)))
print("a has shape", A._shape)
bad = False
for idx in [(1, 2, 5), (1, 2, -7), (1,)]:
    print(f"operation: a[{idx}] = 77   required: IndexError   observed:", end=" ")
    try:
        a[idx] = 77
        print("accepted; a =", a.to_nparray().tolist())
        bad = True
    except Exception as e:
        print("raised", type(e).__name__)
print("control  : a[(0, 3)] ->", end=" ")
try:
    a[(0, 3)] = 1
    print("accepted")
except IndexError as e:
    print("IndexError (correct)")
print("\nMISBEHAVIOUR PRESENT" if bad else "\nok")
sys.exit(1 if bad else 0)
