"""C11: Array._update validates only the total size, then Array._to_buffer
(array.py:535-552) writes the items one by one.  If item k is refused (value not
a member of the union, nested array of the wrong shape, unparsable scalar...)
items 0..k-1 have already been overwritten."""
import sys
import xobjects as xo


class M1(xo.Struct):
    x = xo.Int64


class M2(xo.Struct):
    y = xo.Int64


class Other(xo.Struct):
    w = xo.Int64


class U(xo.UnionRef):
    _reftypes = [M1, M2]


bad = False
buf = xo.ContextCpu().new_buffer(4096)
m1 = M1(x=1, _buffer=buf)
m2 = M2(y=2, _buffer=buf)
o = Other(w=3, _buffer=buf)
ua = U[3]([m1, m1, m1], _buffer=buf)
names = lambda: [type(ua[i]).__name__ for i in range(3)]
print("U[3] holds", names())
print("operation: ua._update([m2, m2, <Other: not a member of the union>])")
print("required : error, and ua unchanged")
raised = None
try:
    ua._update([m2, m2, o])
except Exception as e:
    raised = e
print("observed : raised =", repr(raised), "; ua now holds", names())
if raised is not None and names() != ["M1", "M1", "M1"]:
    bad = True


class Q(xo.Struct):
    v = xo.Float64[2]


class H(xo.Struct):
    qa = Q[3]
    fl = xo.Float64[3]


h = H(qa=[dict(v=[1, 2])] * 3, fl=[1, 2, 3], _buffer=buf)
raised = None
try:
    h.qa = [dict(v=[9, 9]), dict(v=[9, 9]), dict(v=[1, 2, 3])]  # last has wrong shape
except Exception as e:
    raised = e
vals = [list(map(float, h.qa[i].v.to_nparray())) for i in range(3)]
print("\noperation: h.qa = [ok, ok, item with wrong inner shape]; raised =", repr(raised))
print("observed : h.qa now", vals, "(was [[1,2]]*3)")
if raised is not None and vals != [[1.0, 2.0]] * 3:
    bad = True

raised = None
try:
    h.fl = [7.0, 8.0, "not a number"]
except Exception as e:
    raised = e
vals = list(map(float, h.fl.to_nparray()))
print("\noperation: h.fl = [7.0, 8.0, 'not a number']; raised =", repr(raised))
print("observed : h.fl now", vals, "(was [1,2,3])")
if raised is not None and vals != [1.0, 2.0, 3.0]:
    bad = True
print("\nMISBEHAVIOUR PRESENT" if bad else "\nok")
sys.exit(1 if bad else 0)
