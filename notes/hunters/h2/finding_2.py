"""C11: a dict assigned to a nested struct is applied field by field
(Struct._update, struct.py:357-360).  When a later field is refused, the
earlier fields have already been overwritten: the refusal has side effects."""
import sys
import xobjects as xo


class Child(xo.Struct):
    a = xo.Int64
    s = xo.String
    z = xo.Int64


class Parent(xo.Struct):
    k = xo.Int64
    c = Child


buf = xo.ContextCpu().new_buffer(1024)
p = Parent(k=1, c=dict(a=5, s="abc", z=9), _buffer=buf)
other = Child(a=1, s="n", z=2, _buffer=buf)  # live neighbour
before = bytes(buf.to_bytearray(0, 1024))
print("p.c =", dict(a=p.c.a, s=p.c.s, z=p.c.z))
print("operation: p.c = dict(a=77, s=<34-char string, does not fit>, z=88)")
print("required : error AND every existing object unchanged")
raised = None
try:
    p.c = dict(a=77, s="this string is far too long to fit", z=88)
except Exception as e:
    raised = e
after = bytes(buf.to_bytearray(0, 1024))
changed = [i for i in range(1024) if before[i] != after[i]]
print("observed : raised =", repr(raised))
print("           p.c now =", dict(a=p.c.a, s=p.c.s, z=p.c.z), "; changed bytes", changed)
bad = raised is not None and len(changed) > 0

# same through an item of an array of dynamic structs
Arr = Child[:]
arr = Arr([dict(a=1, s="abc", z=2), dict(a=3, s="abc", z=4)], _buffer=buf)
raised = None
try:
    arr[1] = dict(a=77, s="this string is far too long to fit", z=88)
except Exception as e:
    raised = e
print("\noperation: arr[1] = same dict on Child[:];  raised =", type(raised).__name__,
      "; arr[1].a now", arr[1].a, "(was 3)")
if raised is not None and arr[1].a != 3:
    bad = True
print("\nMISBEHAVIOUR PRESENT" if bad else "\nok")
sys.exit(1 if bad else 0)
