"""C11: arrays with a STATIC shape but DYNAMIC items (String[2], DynStruct[2],
...) never compare the length of the value with their shape
(Array._inspect_args, array.py:346-351 takes shape from the class and only
reads the first prod(shape) entries).  A direct update is caught by the len()
test of Array._update, but an update that arrives through an enclosing array
is accepted and silently truncated; Float64[2] (static items) refuses the
same thing."""
import sys
import xobjects as xo

A = xo.String[2]
O = A[:]
buf = xo.ContextCpu().new_buffer(4096)
o = O([["a", "b"], ["c", "d"]], _buffer=buf)
read = lambda: [[o[i][j] for j in range(2)] for i in range(2)]
print("o =", read(), " (items are String[2])")
print("direct     : o[0] = ['a','b','ZZZ'] ->", end=" ")
try:
    o[0] = ["a", "b", "ZZZ"]
    print("accepted")
except Exception as e:
    print("raised", type(e).__name__, "(correct)")
print("operation  : o._update([['a','b','ZZZ'], ['c','d']])  (item 0 has length 3, not 2)")
print("required   : error (array update of different length)")
bad = False
try:
    o._update([["a", "b", "ZZZ"], ["c", "d"]])
    print("observed   : accepted silently, 'ZZZ' dropped; o =", read())
    bad = True
except Exception as e:
    print("observed   : raised", repr(e))


class S(xo.Struct):
    name = xo.String


class H(xo.Struct):
    rows = S[2][:]


h = H(rows=[[dict(name="a"), dict(name="b")]], _buffer=buf)
try:
    h.rows = [[dict(name="a"), dict(name="b"), dict(name="lost")]]
    print("operation  : h.rows = [[3 dicts]] on S[2][:] -> accepted silently, len(h.rows[0]) =", len(h.rows[0]))
    bad = True
except Exception as e:
    print("operation  : h.rows = [[3 dicts]] -> raised", repr(e))
print("\nMISBEHAVIOUR PRESENT" if bad else "\nok")
sys.exit(1 if bad else 0)
