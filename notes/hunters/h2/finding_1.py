"""C11 / C03: a sequence assigned to (or used to initialise) a SCALAR slot is
accepted silently and written with its full length, overwriting the bytes that
follow the 8-byte (or smaller) slot."""
import sys
import numpy as np
import xobjects as xo


class S(xo.Struct):
    a = xo.Float64
    b = xo.Float64
    c = xo.Int64


bad = False
ctx = xo.ContextCpu()
buf = ctx.new_buffer(1024)
s = S(a=1, b=2, c=3, _buffer=buf)  # bytes [0,24)
t = S(a=10, b=20, c=30, _buffer=buf)  # live neighbour at [24,48)
print("s at", s._offset, "size", s._size, "; neighbour t at", t._offset)
print("operation: s.c = [7, 8, 9]   (s.c is one Int64 slot: the value does not fit)")
print("required : an error, nothing modified (C11); never write beyond the target")
before = bytes(buf.to_bytearray(0, 1024))
try:
    s.c = [7, 8, 9]
    print("observed : accepted silently")
    accepted = True
except Exception as e:
    print("observed : raised", repr(e))
    accepted = False
after = bytes(buf.to_bytearray(0, 1024))
changed = [i for i in range(1024) if before[i] != after[i]]
print("changed bytes:", changed, " neighbour now: a=%r b=%r c=%r" % (t.a, t.b, t.c))
if accepted or any(i >= s._offset + s._size for i in changed):
    bad = True

# same through an array item, with a numpy value
A = xo.Float64[3]
arr = A([1, 2, 3], _buffer=buf)
n = S(a=1, b=2, c=3, _buffer=buf)
print("\noperation: arr[2] = np.array([5., 6., 7.]) on Float64[3] at", arr._offset,
      "neighbour struct at", n._offset)
try:
    arr[2] = np.array([5.0, 6.0, 7.0])
    print("observed : accepted silently; neighbour a=%r b=%r (were 1.0, 2.0)" % (n.a, n.b))
    if n.a != 1.0 or n.b != 2.0:
        bad = True
except Exception as e:
    print("observed : raised", repr(e))

# construction (C03): last item is a sequence -> bytes after the new object are written
buf2 = ctx.new_buffer(1024)
buf2.buffer[:] = 0x5A
print("\noperation: Float64[3]([1, 2, [3, 4, 5]]) in a poisoned buffer")
try:
    x = A([1, 2, [3, 4, 5]], _buffer=buf2)
    tail = bytes(buf2.to_bytearray(x._offset + A._size, 16))
    print("observed : accepted; 16 bytes after the 24-byte object:", tail.hex())
    if tail != b"\x5a" * 16:
        bad = True
except Exception as e:
    print("observed : raised", repr(e))

print("\nMISBEHAVIOUR PRESENT" if bad else "\nok")
sys.exit(1 if bad else 0)
