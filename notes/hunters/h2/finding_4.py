"""C11 (+C03 consequence): Array._update of an array of dynamic arrays checks
only the TOTAL size (array.py:633-646).  A same-length list whose inner items
have other lengths is accepted when the total still fits: the nested instances
change length/size after creation and are moved.  The item-level route
(o[0] = [1,2,3]) refuses the very same change.  Handles obtained earlier keep
pointing at the old place; a fitting assignment through them lands in the
header of a moved sibling, after which that sibling claims an extent beyond
its parent and a fitting assignment to it writes into a neighbour object."""
import sys
import xobjects as xo

In = xo.Int64[:]
Out = In[:]
buf = xo.ContextCpu().new_buffer(4096)
o = Out([[1, 2], [3, 4]], _buffer=buf)
nb = xo.Int64[8]([11] * 8, _buffer=buf)  # live neighbour right after o
print("o at", o._offset, "size", o._size, "; neighbour at", nb._offset)
h1 = o[1]  # handle to the 2nd nested array (length 2)
print("item route : o[0] = [1, 2, 3]  ->", end=" ")
try:
    o[0] = [1, 2, 3]
    print("accepted")
except Exception as e:
    print("raised", type(e).__name__, "(correct: a nested array cannot change length)")

print("operation  : o._update([[1, 2, 3], [4]])   (inner lengths 2,2 -> 3,1)")
print("required   : error, nothing modified")
bad = False
try:
    o._update([[1, 2, 3], [4]])
    print("observed   : accepted; o =", [list(map(int, o[i].to_nparray())) for i in range(2)],
          "; len(o[0]) changed 2 ->", len(o[0]), ", o[1] moved", h1._offset, "->", o[1]._offset)
    bad = True
except Exception as e:
    print("observed   : raised", repr(e))

if bad:
    print("\nconsequence (C03): h1[0] = 1000 through the handle taken before (a fitting value)")
    h1[0] = 1000
    x = o[1]
    print("  o[1] now claims shape", list(map(int, x._shape)), "inside a parent of", o._size, "bytes")
    before = list(map(int, nb.to_nparray()))
    x[3] = 777  # index 3 is inside the shape o[1] reports
    after = list(map(int, nb.to_nparray()))
    print("  o[1][3] = 777 -> neighbour array", before, "->", after)

# smallest variant: slack from slot rounding is enough
class S(xo.Struct):
    f = xo.Int16[:][:]
s = S(f=[[5]], _buffer=buf)
try:
    s.f = [[5, 6]]
    print("\nvariant    : s.f=[[5]] then s.f=[[5,6]] accepted; inner length now", len(s.f[0]))
    bad = True
except Exception as e:
    print("\nvariant    : raised", repr(e))
print("\nMISBEHAVIOUR PRESENT" if bad else "\nok")
sys.exit(1 if bad else 0)
