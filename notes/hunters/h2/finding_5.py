"""C11 (+C03 consequence): assigning an INSTANCE of a dynamic struct to a nested
struct field is a binary copy whenever the total sizes are equal
(Struct._update, struct.py:340-356).  The inner arrays of the target thereby
change length after creation, although the same change given as a dict is
(correctly) refused.  Handles taken before keep the old offsets/shapes."""
import sys
import xobjects as xo


class D(xo.Struct):
    a = xo.Int64[:]
    b = xo.Int64[:]


class P(xo.Struct):
    d = D
    tail = xo.Int64


buf = xo.ContextCpu().new_buffer(4096)
p = P(d=dict(a=[1, 2], b=[3, 4]), tail=5, _buffer=buf)
nb = xo.Int64[8]([11] * 8, _buffer=buf)
other = D(a=[1, 2, 3], b=[4], _buffer=buf)  # same total size, other inner lengths
hb = p.d.b
print("p.d.a, p.d.b lengths:", len(p.d.a), len(p.d.b), "; p size", p._size)
print("dict route : p.d = dict(a=[1,2,3], b=[4]) ->", end=" ")
try:
    p.d = dict(a=[1, 2, 3], b=[4])
    print("accepted")
except Exception as e:
    print("raised", type(e).__name__, "(correct)")
print("operation  : p.d = D(a=[1,2,3], b=[4])")
print("required   : error (array update of different length), nothing modified")
bad = False
try:
    p.d = other
    print("observed   : accepted; lengths now", len(p.d.a), len(p.d.b))
    bad = (len(p.d.a), len(p.d.b)) != (2, 2)
except Exception as e:
    print("observed   : raised", repr(e))
if bad:
    hb[0] = 1000  # fitting assignment through the handle taken before
    x = p.d.b
    print("consequence: hb[0] = 1000 -> p.d.b claims shape", list(map(int, x._shape)),
          "in a parent of", p._size, "bytes")
    x[6] = 777
    print("             p.d.b[6] = 777 -> p.tail =", int(p.tail), "(was 5), neighbour =",
          list(map(int, nb.to_nparray())))
print("\nMISBEHAVIOUR PRESENT" if bad else "\nok")
sys.exit(1 if bad else 0)
