"""C03 (size reported == extent occupied; size cannot change): assigning a
String INSTANCE to a string field / item copies the instance including its own
size word over the size word of the slot (String._to_buffer, string.py:69-72,
called from Field.__set__ / Array.__setitem__ with info.size = reserved).
The slot afterwards reports a smaller size than the extent reserved for it in
the parent, and a value that fitted at creation is refused."""
import sys
import xobjects as xo


class T(xo.Struct):
    s = xo.String
    n = xo.Int64


buf = xo.ContextCpu().new_buffer(4096)
t = T(s="abcdefghijklmnopqrstuvwxyz", n=4, _buffer=buf)
soff = t._get_offset("s")
size0 = int(xo.Int64._from_buffer(buf, soff))
print("string slot at", soff, "reports size", size0, "; struct size", t._size)
small = xo.String("ab", _buffer=buf)
print("operation: t.s = xo.String('ab')   (fits)")
print("required : slot keeps its size (an instance cannot change size after creation)")
t.s = small
size1 = int(xo.Int64._from_buffer(buf, soff))
print("observed : slot now reports size", size1, "but still occupies", size0, "bytes of the struct")
try:
    t.s = "abcdefghijklmnopqrstuvwxyz"
    print("           original 26-char value still accepted")
    refused = False
except Exception as e:
    print("           original 26-char value now refused:", repr(e))
    refused = True
A = xo.String[:]
a = A(["abcdefghijklmnopqrstuvwxyz", "x"], _buffer=buf)
ioff = a._get_offset(0)
a[0] = small
size2 = int(xo.Int64._from_buffer(buf, ioff))
print("same via array item: a[0] slot size 40 ->", size2)
bad = size1 != size0 or refused or size2 != 40
print("\nMISBEHAVIOUR PRESENT" if bad else "\nok")
sys.exit(1 if bad else 0)
