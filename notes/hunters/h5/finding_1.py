"""C09 - copy-construction of an N-dimensional (>= 2 axes) array whose items
hold references.

Array._to_buffer (array.py, last `else` branch, ~l.535-552) handles a source
that is an xobject array with references item by item.  It first converts the
source with _object_array(value, shape) (array.py l.77-87), which indexes the
source ONE AXIS AT A TIME (item = item[i]; item = item[j]).  An xobject array
indexed with a partial index silently returns element (i, 0, ..), so the second
index is applied to the *referent*:
  * referent is an Int64[:] array  -> a[i,0][j] is an integer n, and
    Ref._to_buffer(n) builds a NEW, zero-filled Int64[:] of length n:
    the copy is silently wrong;
  * referent is a Struct           -> Struct.__getitem__(j) raises KeyError:
    the copy cannot be made at all (same for UnionRef items and for arrays
    of structs that contain references, static or dynamic shape, any order).
"""
import sys
import numpy as np
import xobjects as xo

ctx = xo.ContextCpu()
bad = False


def read(a):
    return [
        [None if a[i, j] is None else [int(v) for v in a[i, j]] for j in range(2)]
        for i in range(2)
    ]


print("case A: Ref[Int64[:]][2,2], copy in the same buffer")
buf = ctx.new_buffer(1024)
I = xo.Int64[:]
A = xo.Ref[I][2, 2]
t = [I(v, _buffer=buf) for v in ([2, 3], [1, 4], [5, 2], [7, 1])]
a = A([[t[0], t[1]], [t[2], t[3]]], _buffer=buf)
print("  source      :", read(a))
try:
    b = A(a, _buffer=buf)
    print("  copy        :", read(b))
    print("  required    : equal value, same referents (same buffer)")
    same_ref = all(
        b[i, j]._offset == a[i, j]._offset for i in range(2) for j in range(2)
    )
    print("  same referents:", same_ref)
    if read(a) != read(b) or not same_ref:
        print("  VIOLATION: copy differs from the source")
        bad = True
except Exception as e:  # noqa
    print("  VIOLATION: copy raised", type(e).__name__, e)
    bad = True

print("case B: Ref[Struct][2,2], copy into another buffer")


class S(xo.Struct):
    x = xo.Int64


buf = ctx.new_buffer(1024)
B = xo.Ref[S][2, 2]
s = [S(x=i, _buffer=buf) for i in range(4)]
a = B([[s[0], s[1]], [s[2], None]], _buffer=buf)
try:
    b = B(a, _buffer=ctx.new_buffer(64))
    got = [[None if b[i, j] is None else int(b[i, j].x) for j in range(2)] for i in range(2)]
    print("  copy:", got)
    if got != [[0, 1], [2, None]]:
        print("  VIOLATION: wrong values")
        bad = True
except Exception as e:  # noqa
    print("  required : an equal array whose references resolve in the new buffer")
    print("  VIOLATION: copy raised", type(e).__name__, e)
    bad = True

sys.exit(1 if bad else 0)
