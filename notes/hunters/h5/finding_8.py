"""C08 (lower confidence: depends on whether a whole-array write through the
original counts as "write-through-original") - a reference bound to an item of
an array of dynamically sized structs dangles after the array is rewritten
through its owner.

Binding `h.r = h.ds[1]` stores an alias to the item (ref.py l.53-57, documented
in test_ref_nested for sub-objects).  `h.ds = [...]` with items of other sizes
(same length, fits the reserved size) goes to Array._update (array.py
l.628-646), which re-lays the items out ("items may have moved") - the
reference still holds the old relative offset and now resolves into the middle
of item 0: not a live object of the recorded type.
"""
import sys
import xobjects as xo

ctx = xo.ContextCpu()


class D(xo.Struct):
    n = xo.Int64
    v = xo.Float64[:]


class H(xo.Struct):
    ds = D[:]
    r = xo.Ref[D]


buf = ctx.new_buffer(1024)
h = H(ds=[dict(n=1, v=[1]), dict(n=2, v=[1, 2, 3])], _buffer=buf)
h.r = h.ds[1]
print("bound h.r = h.ds[1]: ref target offset", h.r._offset, "item offset", h.ds[1]._offset,
      "n =", h.r.n)
h.ds = [dict(n=10, v=[1, 2, 3]), dict(n=20, v=[7])]
print("after h.ds = [...] : ref target offset", h.r._offset,
      "items now at", [h.ds[i]._offset for i in range(2)])
live = {int(h.ds[i]._offset): int(h.ds[i].n) for i in range(2)}
print("required: the reference resolves to a live D object; live D objects (offset: n):", live)
n = int(h.r.n)
print("observed: h.r.n =", n, " h.r._size =", int(h.r._size))
bad = int(h.r._offset) not in live or live[int(h.r._offset)] != n
if bad:
    print("VIOLATION: the reference points into the middle of another item")
sys.exit(1 if bad else 0)
