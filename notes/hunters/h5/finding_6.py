"""C08 - HybridClass with a UnionRef field: once a dressed (HybridClass) object
has been bound to the field, binding null or an object of another member type
is not reflected when the field is read.

_FieldOfDressed.__set__ (hybrid_class.py l.71-87) caches a dressed wrapper in
`_dressed_<name>` for every non-Ref field, UnionRef fields included.  On a later
non-dressed assignment (l.88-101) the cache is dropped only `isinstance(ftype,
Ref)`; for a UnionRef field the stale wrapper is re-initialised with whatever
the field now resolves to (None, or a struct of another member type) and
__get__ (l.34-35) keeps returning it.
Required: null reads back as None; a non-null reference resolves to an object
of the recorded member type.
"""
import sys
import xobjects as xo

ctx = xo.ContextCpu()


class A(xo.HybridClass):
    _xofields = {"x": xo.Int64}


class B(xo.HybridClass):
    _xofields = {"y": xo.Float64}


class U(xo.UnionRef):
    _reftypes = (A._XoStruct, B._XoStruct)


class H(xo.HybridClass):
    _xofields = {"u": U, "k": xo.Int64}


bad = False
buf = ctx.new_buffer(256)
a = A(x=3, _buffer=buf)
b = B(y=1.5, _buffer=buf)

h = H(k=1, _buffer=buf)
h.u = a
print("h.u = a     ->", type(h.u).__name__, "x =", h.u.x)
h.u = None
print("h.u = None  -> struct level:", h._xobject.u, "| hybrid level:", type(h.u).__name__)
print("   required: h.u is None")
if h.u is not None:
    print("   VIOLATION: reads back a stale", type(h.u).__name__, "whose _xobject is", h.u._xobject)
    bad = True

h = H(k=2, _buffer=buf)
h.u = a
h.u = b._xobject  # bind an existing object of the other member type
got = h.u
print("h.u = b (BData) -> struct level:", h._xobject.u, "| hybrid level:", type(got).__name__,
      "wrapping", type(getattr(got, "_xobject", got)).__name__)
print("   required: resolves to the B object (y = 1.5)")
try:
    ok = got.y == 1.5 and not isinstance(got, A)
except Exception as e:  # noqa
    ok = False
if not ok:
    print("   VIOLATION: the reference reads back as an", type(got).__name__, "object")
    bad = True
sys.exit(1 if bad else 0)
