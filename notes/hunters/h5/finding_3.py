"""C09 - a UnionRef object cannot be copy-constructed from a UnionRef object
of the same type.

UnionRef.__init__ (ref.py l.229-242) hands the positional arguments to
MetaUnionRef._to_buffer as a TUPLE.  The branch that knows how to copy a
UnionRef (`isinstance(value, cls)`, ref.py l.178-181) therefore never sees the
object; the tuple branch (l.189-195) treats it as a member candidate and
_typeid_from_type raises TypeError "<unionref U> is not member of <unionref U>".
"""
import sys
import xobjects as xo

ctx = xo.ContextCpu()


class S(xo.Struct):
    x = xo.Int64


class T(xo.Struct):
    y = xo.Float64


class U(xo.UnionRef):
    _reftypes = (S, T)


bad = False
buf = ctx.new_buffer(256)
s = S(x=3, _buffer=buf)
u = U(s, _buffer=buf)
print("source: U ->", u.get(), "at", u.get()._offset)
for label, kw in [("same buffer", dict(_buffer=buf)), ("other buffer", dict(_buffer=ctx.new_buffer(64))), ("null source", None)]:
    try:
        if kw is None:
            src, kw = U(_buffer=buf), dict(_buffer=buf)
        else:
            src = u
        u2 = U(src, **kw)
        tgt = u2.get()
        print(label, ": copy ->", tgt)
        exp = src.get()
        if (exp is None) != (tgt is None) or (exp is not None and tgt.x != exp.x):
            bad = True
    except Exception as e:  # noqa
        print(label, ": required an equal UnionRef (same referent / duplicate / null)")
        print("   VIOLATION: raised", type(e).__name__, e)
        bad = True
sys.exit(1 if bad else 0)
