"""C08 - binding an N-dimensional array that lives in ANOTHER buffer to a
reference fails when the reference's array type was created by a separate
(but identical) type expression, e.g. the usual inline `xo.Ref[xo.Float64[:, :]]`.

Every evaluation of xo.Float64[:, :] makes a new class (array.py mk_arrayclass),
so in Ref._to_buffer (ref.py l.59-61) `self._reftype(value, _buffer=buffer)`
receives an xobject array that is not an instance of the reftype.
Array._to_buffer then goes through _object_array (array.py l.77-87, 536-537),
which indexes the xobject array one axis at a time; a[i] silently yields the
scalar a[i,0] and the next index raises "invalid index to scalar variable".
The property requires a new independent object in the holder's buffer.
(With a 1-D array, or the very same class object, the copy is made.)
"""
import sys
import numpy as np
import xobjects as xo


class H(xo.Struct):
    r = xo.Ref[xo.Float64[:, :]]


bad = False
data = np.arange(6.0).reshape(2, 3)
foreign = xo.Float64[:, :](data)  # lives in its own buffer
print("foreign object:", foreign.to_nparray().tolist())
for label, make in [
    ("construct H(r=foreign)", lambda: H(r=foreign)),
    ("assign   h.r = foreign", lambda: setattr(h0, "r", foreign) or h0),
]:
    h0 = H()
    try:
        h = make()
        got = h.r.to_nparray().tolist()
        print(label, "->", got, "in holder's buffer:", h.r._buffer is h._buffer)
        if got != data.tolist() or h.r._buffer is not h._buffer:
            bad = True
    except Exception as e:  # noqa
        print(label, ": required a new independent equal object in the holder's buffer")
        print("   VIOLATION: raised", type(e).__name__, e)
        bad = True
sys.exit(1 if bad else 0)
