"""C09 - an array of strings cannot be copy-constructed once an item has spare
capacity (e.g. after a shorter string was written into it).

Array._inspect_args (array.py l.408-418) sizes a copy from the *current text*
of each item (String._inspect_args(value[idx]) with value[idx] a Python str ->
minimal size), whereas the source keeps the capacity it was created with.
Array._to_buffer (array.py l.475-480) then finds value._size != info.size and
raises "not compatible size".  The same happens for a String[:] field of a
struct that contains references (field-wise rebuild, struct.py l.329-336).
"""
import sys
import xobjects as xo

bad = False
A = xo.String[:]
a = A(["a rather long first string", "b"])
print("source before write:", [a[0], a[1]])
c0 = A(a)
print("copy before write  :", [c0[0], c0[1]], "(works)")
a[0] = "x"  # a legal write: shorter text in the same slot
print("source after a[0]='x':", [a[0], a[1]])
print("required: A(a) is an equal, storage-disjoint array")
try:
    c = A(a)
    print("copy:", [c[0], c[1]])
    if [c[0], c[1]] != ["x", "b"]:
        bad = True
except Exception as e:  # noqa
    print("VIOLATION: copy raised", type(e).__name__, e)
    bad = True

print("same thing for items created by capacity: String[:]([10, 20])")
try:
    a2 = A([10, 20])
    c2 = A(a2)
    print("copy:", [c2[0], c2[1]])
except Exception as e:  # noqa
    print("VIOLATION: copy raised", type(e).__name__, e)
    bad = True


class S(xo.Struct):
    x = xo.Int64


class W(xo.Struct):
    r = xo.Ref[S]
    names = xo.String[:]


print("struct with a reference and a String[:] field")
w = W(r={"x": 1}, names=["a rather long first string", "b"])
w.names[0] = "x"
try:
    w2 = W(w)
    print("copy:", [w2.names[0], w2.names[1]], w2.r.x)
except Exception as e:  # noqa
    print("VIOLATION: copy raised", type(e).__name__, e)
    bad = True

sys.exit(1 if bad else 0)
