"""C08 (minor) - a Ref field whose declared default is plain struct data (a
dict) cannot be constructed.

Field.get_default (struct.py l.134-141) does dispatch_arg(self.ftype, default);
for a dict this calls ftype(**default) (typeutils.py l.49-55), but
Ref.__call__(self, *args) (ref.py l.64-69) takes no keywords -> TypeError.
The same data given explicitly, through default_factory, or a list default for
a Ref to an array, create the new independent object the property requires.
"""
import sys
import xobjects as xo


class S(xo.Struct):
    x = xo.Int64


class Hf(xo.Struct):
    r = xo.Field(xo.Ref[S], default_factory=lambda: {"x": 3})


class Hd(xo.Struct):
    r = xo.Field(xo.Ref[S], default={"x": 3})


h = Hf()
print("default_factory dict:", h.r, "in holder's buffer:", h.r._buffer is h._buffer)
print("explicit dict       :", Hd(r={"x": 3}).r)
print("required for default={'x': 3}: Hd() has r -> new S(x=3) in its own buffer")
try:
    h = Hd()
    print("default dict        :", h.r)
    bad = not (h.r is not None and h.r.x == 3 and h.r._buffer is h._buffer)
except Exception as e:  # noqa
    print("VIOLATION: Hd() raised", type(e).__name__, e)
    bad = True
sys.exit(1 if bad else 0)
