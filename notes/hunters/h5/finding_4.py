"""C08 - whether a reference aliases or copies is decided by the NAME of the
value's class (ref.py l.53-57 for Ref, l.120-132 for UnionRef), and array class
names do not encode the axis order: xo.Float64[2,3] (C order) and
xo.Float64[2:1,3:0] (Fortran order) are both called "Arr2x3Float64"
(array.py get_suffix / mk_arrayclass l.282-304).

Binding a Fortran-ordered array that lives in the holder's buffer to a
Ref[Float64[2,3]] therefore takes the "same type, same buffer" branch and
stores an alias; the reference then decodes the Fortran bytes with C strides.
Required: the reference denotes the assigned object (reads back the assigned
values) - or, the types being different, a new independent object equal to the
data.  Observed: it reads back permuted values, and a write through the
reference lands in a different element of the original.
"""
import sys
import xobjects as xo

ctx = xo.ContextCpu()
C = xo.Float64[2, 3]
F = xo.Float64[2:1, 3:0]
print("class names:", C.__name__, F.__name__, " strides:", C._strides, F._strides)


class H(xo.Struct):
    r = xo.Ref[C]


class U(xo.UnionRef):
    _reftypes = (C,)


class HU(xo.Struct):
    u = U


buf = ctx.new_buffer(1024)
f = F([[1, 2, 3], [4, 5, 6]], _buffer=buf)
orig = [[float(f[i, j]) for j in range(3)] for i in range(2)]
bad = False
for label, h, get in [
    ("Ref", H(r=f, _buffer=buf), lambda h: h.r),
    ("UnionRef", HU(u=f, _buffer=buf), lambda h: h.u),
]:
    t = get(h)
    seen = [[float(t[i, j]) for j in range(3)] for i in range(2)]
    print(label, ": assigned object :", orig)
    print(label, ": through the ref :", seen, "(target offset", t._offset, ", object offset", f._offset, ")")
    if seen != orig:
        print("   VIOLATION: the reference does not read back the object that was assigned")
        bad = True
t = H(r=f, _buffer=buf).r
t[0, 1] = 99.0
print("after ref[0,1]=99 the original has 99 at",
      [(i, j) for i in range(2) for j in range(3) if f[i, j] == 99.0], "(required: (0, 1))")
if f[0, 1] != 99.0:
    bad = True
sys.exit(1 if bad else 0)
