"""C12 (a request always terminates with a result) -- allocate() recurses once per
grow_step and dies with RecursionError when the missing space is > ~1000 grow steps.

XBuffer.allocate (xobjects/context.py:427-437): when no chunk fits and
size+alignment-1 <= capacity, it grows by `grow_step` (one step only) and then calls
itself recursively.  The number of nested calls is ceil(missing_bytes / grow_step); every
level also re-allocates and copies the whole buffer.  With a small grow step the
request never returns: RecursionError, although the request is perfectly servable.
"""
import sys
import xobjects as xo
from xobjects.context_cpu import BufferNumpy, BufferByteArray

assert xo.__file__.startswith("/tmp/wh/h3"), xo.__file__

bad = 0
print("python recursion limit:", sys.getrecursionlimit())
for cls in (BufferNumpy, BufferByteArray):
    cap = 1 << 20  # the library's default capacity
    step = 512
    buf = cls(capacity=cap, default_alignment=1, grow_step=step)
    first = buf.allocate(cap)  # fills the buffer exactly
    buf.update_from_buffer(first, b"\x07" * cap)
    print(f"{cls.__name__}: capacity={cap}, grow_step={step}; region [0,{cap}) is live,"
          f" free={buf.get_free()}")
    print(f"  request: allocate({cap})  (needs {cap // step} grow steps)")
    print("  property requires: the request terminates with an offset "
          f"(first-fit spec: offset {cap}, capacity {2 * cap})")
    try:
        off = buf.allocate(cap)
        print(f"  observed: offset {off}, capacity {buf.capacity}  -> OK")
    except RecursionError as e:
        bad += 1
        print(f"  observed: RecursionError ({e}); no region handed out, capacity was "
              f"nevertheless enlarged to {buf.capacity}, chunks={buf.chunks}")

sys.exit(1 if bad else 0)
