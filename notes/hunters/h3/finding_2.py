"""C04/C12 -- a size given as a NumPy fixed-width integer poisons the free list.

XBuffer.allocate (xobjects/context.py:418-425) stores `offset + size` straight into
chunk.start, so the free list inherits the NumPy type of the *size argument*.  The
library treats np.integer as an integer everywhere (typeutils.is_integer), so such
sizes are ordinary input.

 A) unsigned size (np.uint32(16)): the first request succeeds, but chunk.start is now
    np.uint32 and every later request -- even with a plain int -- dies in
    _align(): `(offset + a - 1) & (-a)`  -> OverflowError.  The buffer can never
    allocate again although 1008 bytes are free ("a request always terminates with a
    result", "served from the lowest-addressed free space that can hold it").
 B) small signed size (np.int16(20000)) on a buffer larger than the type's range: the
    chunk is consumed (chunk.start = newend) BEFORE `chunk.size` overflows and raises.
    The request is refused but 20000 bytes have left the free list without being
    handed out (leak on the error path); get_free() and all later requests raise too.
 C) the same small signed type when the capacity still fits the type: `offset + size`
    wraps around silently (NumPy scalar overflow is only a RuntimeWarning), the
    comparison `chunk.end >= newend` is then true, and allocate() hands out a region
    that ends beyond the capacity, then regions with NEGATIVE offsets, without growing.
    Writing one of them overwrites another live region.  (np.int32 sizes do the same on
    buffers that reach 2 GiB.)
"""
import sys
import numpy as np
import xobjects as xo
from xobjects.context_cpu import BufferNumpy, BufferByteArray

assert xo.__file__.startswith("/tmp/wh/h3"), xo.__file__
print("numpy", np.__version__)
bad = 0

for cls in (BufferNumpy, BufferByteArray):
    print(f"--- A) {cls.__name__}(capacity=1024, default_alignment=8)")
    buf = cls(capacity=1024, default_alignment=8)
    o1 = buf.allocate(np.uint32(16))
    print(f"  allocate(np.uint32(16)) -> {o1}; chunks={buf.chunks} "
          f"(type of chunk.start: {type(buf.chunks[0].start).__name__})")
    print("  then allocate(16) with a plain int; required: offset 16 (1008 bytes are free)")
    try:
        o2 = buf.allocate(16)
        print(f"  observed: {o2}")
        if o2 != 16:
            bad += 1
    except Exception as e:
        bad += 1
        print(f"  observed: {type(e).__name__}: {e}")

    print(f"--- B) {cls.__name__}(capacity=131072, default_alignment=1)")
    buf = cls(capacity=1 << 17, default_alignment=1)
    before = buf.get_free()
    print(f"  free before = {before}; request allocate(np.int16(20000)); "
          "required: offset 0, or a refusal that leaves the free list untouched")
    try:
        o = buf.allocate(np.int16(20000))
        print(f"  observed: offset {o}")
    except Exception as e:
        print(f"  observed: {type(e).__name__}: {e}")
        print(f"  free list after the refused request: {buf.chunks}")
        ch = buf.chunks[0]
        if int(ch.start) != 0:
            bad += 1
            print(f"  -> bytes [0,{int(ch.start)}) are neither live nor free")
        try:
            print("  get_free() ->", buf.get_free())
        except Exception as e2:
            bad += 1
            print(f"  get_free() -> {type(e2).__name__}: {e2}")
        try:
            print("  allocate(100) ->", buf.allocate(100))
        except Exception as e3:
            bad += 1
            print(f"  allocate(100) (plain int) -> {type(e3).__name__}: {e3}")

import warnings

warnings.simplefilter("ignore")
for cls in (BufferNumpy, BufferByteArray):
    print(f"--- C) {cls.__name__}(capacity=30000, default_alignment=1), three times allocate(np.int16(20000))")
    print("  required: each region inside [0, capacity), pairwise disjoint, earlier data preserved")
    buf = cls(capacity=30000, default_alignment=1)
    n = 20000
    regs = []
    for i in range(3):
        o = int(buf.allocate(np.int16(n)))
        regs.append(o)
        inb = 0 <= o and o + n <= buf.capacity
        print(f"  region {i}: offset {o}, end {o + n}, capacity {buf.capacity}"
              f" -> {'in bounds' if inb else 'OUT OF BOUNDS'}")
        if not inb:
            bad += 1
        if i == 0:
            buf.update_from_buffer(o, b"\x11" * n)
    # write into the third region, look at the first
    try:
        buf.update_from_buffer(regs[2], b"\x33" * n)
        data0 = bytes(buf.to_bytearray(regs[0], n))
        kept = data0 == b"\x11" * n
        print(f"  after writing region 2: region 0 data preserved = {kept}"
              f" ({data0.count(0x33)} of its bytes overwritten)")
        if not kept:
            bad += 1
    except Exception as e:
        print(f"  writing region 2 -> {type(e).__name__}: {e}")

sys.exit(1 if bad else 0)
