"""C12 (leak-free / "enlarged only when no free space can") -- BORDERLINE, depends on how
"lost to alignment padding" is read.

XBuffer.allocate (xobjects/context.py:419-422) does `chunk.start = newend`, i.e. the
bytes [chunk.start, aligned offset) skipped for alignment are dropped from the free list
instead of staying in it as a small free chunk.  free(offset, size) cannot give them
back.  The loss therefore outlives the region that caused it: it is permanent and
cumulative.  After the history below NOTHING is live, yet only 15 of 64 bytes are
reported free, they are split in 1-byte islands that can never coalesce, and a 16-byte
request enlarges a completely unused 64-byte buffer.

If the property's "bytes lost to alignment padding" means padding of *live* regions,
this violates the accounting clause, the coalescing clause ("neighbouring freed regions
can serve one larger request") and "enlarged only when no free space can".  If it also
covers padding of regions freed long ago, the library conforms.
"""
import sys
import xobjects as xo
from xobjects.context_cpu import BufferNumpy, BufferByteArray

assert xo.__file__.startswith("/tmp/wh/h3"), xo.__file__
bad = 0
for cls in (BufferNumpy, BufferByteArray):
    buf = cls(capacity=64, default_alignment=8)
    print(f"--- {cls.__name__}(capacity=64, default_alignment=8)")
    packed = []
    for i in range(7):
        p = buf.allocate(1, align=False)
        a = buf.allocate(8, align=True)
        buf.free(a, 8)
        packed.append(p)
    print("  7 x [p=allocate(1,packed); a=allocate(8,aligned); free(a)] -> packed offsets", packed)
    for p in packed:
        buf.free(p, 1)
    print("  freed every region: live bytes = 0, capacity =", buf.capacity)
    print("  required (padding of dead regions is not 'lost'): get_free()==64, one chunk, "
          "allocate(16) -> 0 without growth")
    print(f"  observed: get_free()={buf.get_free()}, chunks={buf.chunks}")
    off = buf.allocate(16)
    print(f"  allocate(16) -> offset {off}, capacity now {buf.capacity}")
    if buf.capacity != 64 or off != 0:
        bad += 1
sys.exit(1 if bad else 0)
