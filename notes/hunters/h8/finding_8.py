"""C20 - the context of an unpickled object is not a fully usable context:
its kernel container comes back as a plain dict.

ContextCpu.__getstate__ (context_cpu.py lines 647-651) replaces the
KernelDict by `{}` (a builtin dict) and __setstate__ (653-655) only restores
`_buffers`.  XContext.__init__ builds `self._kernels = KernelDict()`, whose
__getattr__ gives the documented call syntax `ctx.kernels.<name>(...)`
(docstring of add_kernels).  After unpickling, kernels can be compiled again
on the object's context (add_kernels succeeds), but calling them the
documented way raises AttributeError: 'dict' object has no attribute ...
The same sequence on the original object works.
"""
import pickle, sys
import numpy as np
import xobjects as xo


class S(xo.Struct):
    a = xo.Float64[:]
    c = xo.Int8


SRC = """
/*gpukern*/ void k(const int n, /*gpuglmem*/ double* x){
  for(int ii=0; ii<n; ii++){ //vectorize_over ii n
     x[ii] = 2*x[ii];
  }//end_vectorize
}
"""


def descr():
    return {"k": xo.Kernel(args=[xo.Arg(xo.Int32, name="n"),
                                 xo.Arg(xo.Float64, pointer=True, name="x")],
                           n_threads="n")}


def use(obj):
    ctx = obj._buffer.context
    ctx._compile_kernels_info = False
    ctx.add_kernels(sources=[SRC], kernels=descr())
    ctx.kernels.k(n=len(obj.a), x=obj.a)  # documented call syntax
    return obj.a.to_nparray()


print("Required (C20): the unpickled object is fully usable, like the original.")
s = S(a=[1, 2, 3], c=3, _context=xo.ContextCpu())
s2 = pickle.loads(pickle.dumps(s))
print("  original : type(ctx.kernels) =", type(s._buffer.context.kernels).__name__,
      "-> kernel on its array gives", use(s))
print("  unpickled: type(ctx.kernels) =", type(s2._buffer.context.kernels).__name__)
try:
    print("  unpickled: kernel on its array gives", use(s2))
except AttributeError as err:
    print("  unpickled: add_kernels ok, then ctx.kernels.k(...) raised "
          f"AttributeError: {err}")
    print("OBSERVED: the context restored with the object has a plain dict as "
          "kernel container; kernels built on it cannot be called by name.")
    sys.exit(1)
print("OK")
sys.exit(0)
