"""C16 - the OpenCL expansion drops the limit of the vectorised block.

`//vectorize_over jj m` becomes
   CPU    : for (int jj=0; jj<m; jj++){ body }
   CUDA   : jj = global thread id; if (jj<m){ body }
   OpenCL : jj = get_global_id(0);  body            <- `m` is not used at all
(specialize_source.py lines 54-58).  The launch size is the single
`n_threads` argument of the kernel description (context_pyopencl.py: global
size (n_threads,), context_cupy.py: grid=ceil(n_threads/block)).  As soon as a
block's limit is not the launch size (second block over another length, limit
n-1, limit taken from a struct, ...) the targets disagree: on OpenCL the body
runs for indices >= m (out-of-bounds writes) or misses indices n..m-1; on CUDA
indices beyond the launched grid are missed; the CPU runs exactly 0..m-1.

GPU expansions are compiled on the host and driven by a simulated launch with
the geometry the contexts use (n_threads = "n", CUDA block 4).
"""
import os, subprocess, sys, tempfile
from xobjects.specialize_source import specialize_source

SRC = """
/*gpukern*/ void k(const int n, const int m, /*gpuglmem*/ double* x, /*gpuglmem*/ double* y){
  for(int ii=0; ii<n; ii++){ //vectorize_over ii n
     x[ii] = x[ii] + 1;
  }//end_vectorize
  for(int jj=0; jj<m; jj++){ //vectorize_over jj m
     y[jj] = y[jj] + 1;
  }//end_vectorize
}
"""
SHIM = {
    "cpu_serial": "#include <stdio.h>\n#include <stdint.h>\n",
    "cpu_openmp": "#include <stdio.h>\n#include <stdint.h>\n",
    "opencl": "#include <stdio.h>\n#include <stdint.h>\n#include <stddef.h>\n"
    "static size_t gid_;\n#define get_global_id(d) (gid_)\n#define __kernel\n#define __global\n",
    "cuda": "#include <stdio.h>\n#include <stdint.h>\n"
    "typedef struct {unsigned x,y,z;} dim3_;\nstatic dim3_ blockDim, blockIdx, threadIdx;\n"
    "#define __global__\n#define __device__ static inline\n",
}
BLOCK = 4


def run(target, n, m):
    sp = specialize_source(SRC, specialize_for=target)
    decl = f"int n={n}, m={m}; double x[8]={{0}}, y[8]={{0}};"
    call = "k(n,m,x,y);"
    if target == "opencl":  # global size = n_threads (context_pyopencl.py)
        launch = f"for(size_t g=0; g<(size_t)n; g++){{ gid_=g; {call} }}"
    elif target == "cuda":  # grid = ceil(n/block) (context_cupy.py)
        launch = (
            f"blockDim.x={BLOCK}; for(long b=0;b<(n+{BLOCK}-1)/{BLOCK};b++)"
            f" for(long t=0;t<{BLOCK};t++){{ blockIdx.x=b; threadIdx.x=t; {call} }}"
        )
    else:
        launch = call
    code = (
        SHIM[target] + sp + f"\nint main(){{ {decl}\n {launch}\n"
        ' for(int i=0;i<8;i++) printf("%g,%g ", x[i], y[i]);\n return 0;}\n'
    )
    d = tempfile.mkdtemp()
    cf, ex = os.path.join(d, "a.c"), os.path.join(d, "a.out")
    with open(cf, "w") as fid:
        fid.write(code)
    r = subprocess.run(
        ["gcc", "-std=gnu99", "-w", cf, "-o", ex], capture_output=True, text=True
    )
    if r.returncode != 0:
        err = [l for l in r.stderr.splitlines() if "error" in l]
        return "COMPILE ERROR: " + (err[0].split("error:")[-1].strip() if err else "?")
    return subprocess.run([ex], capture_output=True, text=True).stdout.strip()


print("Kernel k(n, m, x, y), n_threads='n': block 1 does x[ii]+=1 for ii<n,")
print("block 2 does y[jj]+=1 for jj<m.  Output: x[i],y[i] for i=0..7.")
print("Required (C16): every target runs each block once per index and all")
print("targets compute the same result for every n.")
bad = False
for n, m in ((5, 2), (3, 0), (2, 7), (0, 3)):
    res = {t: run(t, n, m) for t in ("cpu_serial", "cpu_openmp", "opencl", "cuda")}
    for t, r in res.items():
        print(f"  n={n} m={m} {t:11s}: {r}")
    if len(set(res.values())) != 1:
        bad = True
if bad:
    print("OBSERVED: OpenCL runs block 2 for exactly n work-items whatever m is "
          "(writes y[m..n-1], or misses y[n..m-1]); CUDA misses indices beyond "
          "the launched grid; only the CPU targets run 0..m-1.")
    sys.exit(1)
print("OK: all targets agree")
sys.exit(0)
