"""C16 (borderline, by construction of the CPU expansion) - an early exit in
the body of a vectorised block.

`if (cond) return;` is the standard way to retire one work-item in a GPU
kernel.  OpenCL/CUDA: only that work-item stops, all other indices run.
CPU: the block is a plain `for` loop inside the kernel function
(specialize_source.py line 51), so the first index that returns ends the
kernel call for ALL later indices: the body is not executed once per index
0..n-1 and the targets compute different results.  (`continue`, the
CPU-correct spelling, does not compile in the GPU expansions, so there is no
spelling of "skip this index" that is valid on every target.)

GPU expansions are compiled on the host and driven by a simulated launch.
"""
import os, subprocess, sys, tempfile
from xobjects.specialize_source import specialize_source

SRC = """
/*gpukern*/ void k(const int n, /*gpuglmem*/ double* x, /*gpuglmem*/ double* y){
  for(int ii=0; ii<n; ii++){ //vectorize_over ii n
     if (x[ii] < 0) return;
     y[ii] = 2*x[ii];
  }//end_vectorize
}
"""
SHIM = {
    "cpu_serial": "#include <stdio.h>\n#include <stdint.h>\n",
    "cpu_openmp": "#include <stdio.h>\n#include <stdint.h>\n",
    "opencl": "#include <stdio.h>\n#include <stdint.h>\n#include <stddef.h>\n"
    "static size_t gid_;\n#define get_global_id(d) (gid_)\n#define __kernel\n#define __global\n",
    "cuda": "#include <stdio.h>\n#include <stdint.h>\n"
    "typedef struct {unsigned x,y,z;} dim3_;\nstatic dim3_ blockDim, blockIdx, threadIdx;\n"
    "#define __global__\n#define __device__ static inline\n",
}
BLOCK = 4


def run(target, n):
    sp = specialize_source(SRC, specialize_for=target)
    decl = f"int n={n}; double x[8]={{1,-1,2,3,4,5,6,7}}, y[8]={{0}};"
    call = "k(n,x,y);"
    if target == "opencl":  # global size = n_threads (context_pyopencl.py)
        launch = f"for(size_t g=0; g<(size_t)n; g++){{ gid_=g; {call} }}"
    elif target == "cuda":  # grid = ceil(n/block) (context_cupy.py)
        launch = (
            f"blockDim.x={BLOCK}; for(long b=0;b<(n+{BLOCK}-1)/{BLOCK};b++)"
            f" for(long t=0;t<{BLOCK};t++){{ blockIdx.x=b; threadIdx.x=t; {call} }}"
        )
    else:
        launch = call
    code = (
        SHIM[target] + sp + f"\nint main(){{ {decl}\n {launch}\n"
        ' for(int i=0;i<8;i++) printf("%g,%g ", x[i], y[i]);\n return 0;}\n'
    )
    d = tempfile.mkdtemp()
    cf, ex = os.path.join(d, "a.c"), os.path.join(d, "a.out")
    with open(cf, "w") as fid:
        fid.write(code)
    r = subprocess.run(
        ["gcc", "-std=gnu99", "-w", cf, "-o", ex], capture_output=True, text=True
    )
    if r.returncode != 0:
        err = [l for l in r.stderr.splitlines() if "error" in l]
        return "COMPILE ERROR: " + (err[0].split("error:")[-1].strip() if err else "?")
    return subprocess.run([ex], capture_output=True, text=True).stdout.strip()


print("Body: `if (x[ii] < 0) return; y[ii] = 2*x[ii];` with x = 1,-1,2,3,4,...")
print("Required (C16): every target runs each block once per index and all")
print("targets compute the same result for every n.")
bad = False
for n in (0, 5):
    res = {t: run(t, n) for t in ("cpu_serial", "cpu_openmp", "opencl", "cuda")}
    for t, r in res.items():
        print(f"  n={n} {t:11s}: {r}")
    if len(set(res.values())) != 1:
        bad = True
if bad:
    print("OBSERVED: on the CPU targets the return at index 1 ends the whole "
          "loop (y[2..n-1] not computed); on the GPU targets only index 1 is skipped.")
    sys.exit(1)
print("OK: all targets agree")
sys.exit(0)
