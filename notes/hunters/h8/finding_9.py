"""C20 - a hybrid object with a reference field does not come back with the
same value at that field, and the referenced object loses its move guard.

HybridClass.__getstate__ (hybrid_class.py lines 417-418) keeps only
(buffer, offset); __setstate__ (420-424) rebuilds the python side with
_reinit_from_xobject, which dresses nested hybrid fields but not Ref fields
(for those the dressed target lives only in `_dressed_<name>`, set by
_FieldOfDressed.__set__, lines 66-70, together with `value._movable=False`).
After a round trip of (parent, target) pickled together:
  * parent.r is a raw `ChildData` struct instead of the `Child` hybrid, so the
    python-side (renamed) field `xx` that worked before raises AttributeError;
  * target._movable is True again: target.move(...) succeeds and silently
    detaches the target from the parent that refers to it (on the original the
    same call is refused with MemoryError), so the two no longer share data.
"""
import pickle, sys
import xobjects as xo


class Child(xo.HybridClass):
    _xofields = {"x": xo.Float64, "v": xo.Float64[:]}
    _rename = {"x": "xx"}


class Parent(xo.HybridClass):
    _xofields = {"n": xo.Int32, "r": xo.Ref[Child]}


buf = xo.ContextCpu().new_buffer(1024)
t = Child(xx=9, v=[7, 8], _buffer=buf)
p = Parent(n=2, r=t, _buffer=buf)
p2, t2 = pickle.loads(pickle.dumps((p, t)))

print("Required (C20): same value at every field, fully usable, objects "
      "pickled together still share what they shared.")
bad = False
print(f"  original : type(p.r)  = {type(p.r).__name__},  p.r.xx  = {p.r.xx}")
try:
    print(f"  unpickled: type(p2.r) = {type(p2.r).__name__}, p2.r.xx = {p2.r.xx}")
except AttributeError as err:
    bad = True
    print(f"  unpickled: type(p2.r) = {type(p2.r).__name__}, p2.r.xx raised "
          f"AttributeError: {err}")
if type(p2.r) is not type(p.r):
    bad = True

print(f"  original : t._movable  = {t._movable}")
print(f"  unpickled: t2._movable = {t2._movable}")
try:
    t.move(_buffer=buf)
    print("  original : t.move() accepted")
except MemoryError as err:
    print("  original : t.move() refused (MemoryError)")
try:
    t2.move(_buffer=p2._buffer)
    t2.xx = 100.0
    seen = p2._xobject.r.x
    print(f"  unpickled: t2.move() accepted; after t2.xx=100 the parent sees "
          f"r.x = {seen}")
    if seen != 100.0:
        bad = True
except MemoryError:
    print("  unpickled: t2.move() refused (MemoryError)")
if bad:
    print("OBSERVED: the reference field changes type (python-side field names "
          "gone) and the shared target can be moved away from its parent.")
    sys.exit(1)
print("OK")
sys.exit(0)
