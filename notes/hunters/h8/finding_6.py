"""C16 - unannotated source text does not pass through unchanged when it
contains a character that str.splitlines() treats as a line boundary.

specialize_source() cuts the source with `source.splitlines()` (line 12) and
re-joins with "\n".  splitlines() also splits at form feed (\x0c), vertical
tab (\x0b), \x1c-\x1e, NEL (\x85), U+2028 and U+2029, all of which are legal
inside C comments (form feed / vertical tab are plain C white space).  The
tail of a `//` comment that follows such a character becomes a new line of
CODE, so a source that compiles as it is stops compiling after
specialisation - with no annotation anywhere near.
"""
import os, subprocess, sys, tempfile
from xobjects.specialize_source import specialize_source


def compiles(text):
    d = tempfile.mkdtemp()
    cf = os.path.join(d, "a.c")
    with open(cf, "w", encoding="utf-8") as fid:
        fid.write(text)
    r = subprocess.run(
        ["gcc", "-std=gnu99", "-w", "-fsyntax-only", cf],
        capture_output=True, text=True,
    )
    return r.returncode == 0


print("Required (C16): all unannotated source text passes through unchanged.")
bad = False
for name, ch in (("form feed \\x0c", "\x0c"), ("vertical tab \\x0b", "\x0b"),
                 ("U+2028", "\u2028"), ("NEL \\x85", "\x85")):
    src = f"int a = 1; // first part{ch}second part of the same comment\nint b = 2;\n"
    for target in ("cpu_serial", "cpu_openmp", "opencl", "cuda"):
        out = specialize_source(src, specialize_for=target)
        same = out.rstrip("\n") == src.rstrip("\n")
        if not same:
            bad = True
    print(f"  comment containing {name}: input compiles={compiles(src)}, "
          f"specialised (cpu_serial) compiles="
          f"{compiles(specialize_source(src, 'cpu_serial'))}")
    print("     in : " + repr(src))
    print("     out: " + repr(specialize_source(src, "cpu_serial")))
if bad:
    print("OBSERVED: the character is replaced by a newline; the rest of the "
          "comment becomes code.")
    sys.exit(1)
print("OK")
sys.exit(0)
