"""C20 - objects living in an OpenMP CPU context cannot be pickled once any
kernel has been built on that context.

ContextCpu._load_kernel_module (context_cpu.py lines 515-517) stores two cffi
functions on the CONTEXT instance (`self.omp_set_num_threads`,
`self.omp_get_max_threads`) when `openmp_enabled`.  ContextCpu.__getstate__
(lines 647-651) empties `_kernels` and drops `_buffers` but keeps these two
attributes, which are not picklable.  Every struct / array / hybrid object
reaches its context through its buffer, so pickle.dumps(obj) raises.
Before the first kernel is built, and on a serial context, the same object
pickles fine.
"""
import pickle, sys
import xobjects as xo


class S(xo.Struct):
    a = xo.Float64[:]
    c = xo.Int8


SRC = """
/*gpukern*/ void k(const int n, /*gpuglmem*/ double* x){
  for(int ii=0; ii<n; ii++){ //vectorize_over ii n
     x[ii] = 2*x[ii];
  }//end_vectorize
}
"""


def descr():
    return {"k": xo.Kernel(args=[xo.Arg(xo.Int32, name="n"),
                                 xo.Arg(xo.Float64, pointer=True, name="x")],
                           n_threads="n")}


print("Required (C20): pickle round trip of an object of an importable struct "
      "class gives an equal, usable, independent object.")
bad = False
for omp in (0, 2, "auto"):
    ctx = xo.ContextCpu(omp_num_threads=omp)
    ctx._compile_kernels_info = False
    s = S(a=[1, 2, 3], c=3, _context=ctx)
    s2 = pickle.loads(pickle.dumps(s))
    print(f"  omp_num_threads={omp!r}: before any kernel: round trip ok,"
          f" a={s2.a.to_nparray()}")
    ctx.add_kernels(sources=[SRC], kernels=descr())
    ctx.kernels.k(n=3, x=s.a)
    try:
        s2 = pickle.loads(pickle.dumps(s))
        print(f"  omp_num_threads={omp!r}: after add_kernels:  round trip ok,"
              f" a={s2.a.to_nparray()}")
    except Exception as err:
        bad = True
        print(f"  omp_num_threads={omp!r}: after add_kernels:  pickle.dumps "
              f"raised {type(err).__name__}: {err}")
if bad:
    print("OBSERVED: objects of an OpenMP context become unpicklable after a "
          "kernel build.")
    sys.exit(1)
print("OK")
sys.exit(0)
