"""C16 (borderline: text outside the block) - a kernel that also contains an
unannotated statement next to its vectorised block does not compute the same
result on all targets, most visibly for n = 0.

CPU: the kernel function is called once; the unannotated statement runs once,
the block runs n times (0 times for n=0).
GPU: the whole function is the work-item program.  The launch geometry is
n_threads work-items on OpenCL and ceil(n_threads/block)*block threads on CUDA
(context_pyopencl.py 505-524, context_cupy.py 673-697) and only the block is
guarded by `if (ii<n)` on CUDA (specialize_source.py 60-65).  The unannotated
statement therefore runs n times (OpenCL) / a multiple of the block size
(CUDA) and, for n = 0, not at all (0 work-items are launched), while the CPU
still executes it once.  Even an idempotent statement (`flag[0] = 1;`)
gives a different result for n = 0; a counting one differs for every n.

GPU expansions are compiled on the host and driven by a simulated launch.
"""
import os, subprocess, sys, tempfile
from xobjects.specialize_source import specialize_source

SRC = """
/*gpukern*/ void k(const int n, /*gpuglmem*/ double* x, /*gpuglmem*/ double* y){
  y[0] = 1;          /* idempotent "kernel was here" flag  */
  y[1] = y[1] + 1;   /* counts executions of the unannotated text */
  for(int ii=0; ii<n; ii++){ //vectorize_over ii n
     x[ii] = x[ii] + 1;
  }//end_vectorize
}
"""
SHIM = {
    "cpu_serial": "#include <stdio.h>\n#include <stdint.h>\n",
    "cpu_openmp": "#include <stdio.h>\n#include <stdint.h>\n",
    "opencl": "#include <stdio.h>\n#include <stdint.h>\n#include <stddef.h>\n"
    "static size_t gid_;\n#define get_global_id(d) (gid_)\n#define __kernel\n#define __global\n",
    "cuda": "#include <stdio.h>\n#include <stdint.h>\n"
    "typedef struct {unsigned x,y,z;} dim3_;\nstatic dim3_ blockDim, blockIdx, threadIdx;\n"
    "#define __global__\n#define __device__ static inline\n",
}
BLOCK = 4


def run(target, n):
    sp = specialize_source(SRC, specialize_for=target)
    decl = f"int n={n}; double x[8]={{0,1,2,3,4,5,6,7}}, y[8]={{0}};"
    call = "k(n,x,y);"
    if target == "opencl":  # global size = n_threads (context_pyopencl.py)
        launch = f"for(size_t g=0; g<(size_t)n; g++){{ gid_=g; {call} }}"
    elif target == "cuda":  # grid = ceil(n/block) (context_cupy.py)
        launch = (
            f"blockDim.x={BLOCK}; for(long b=0;b<(n+{BLOCK}-1)/{BLOCK};b++)"
            f" for(long t=0;t<{BLOCK};t++){{ blockIdx.x=b; threadIdx.x=t; {call} }}"
        )
    else:
        launch = call
    code = (
        SHIM[target] + sp + f"\nint main(){{ {decl}\n {launch}\n"
        ' for(int i=0;i<8;i++) printf("%g,%g ", x[i], y[i]);\n return 0;}\n'
    )
    d = tempfile.mkdtemp()
    cf, ex = os.path.join(d, "a.c"), os.path.join(d, "a.out")
    with open(cf, "w") as fid:
        fid.write(code)
    r = subprocess.run(
        ["gcc", "-std=gnu99", "-w", cf, "-o", ex], capture_output=True, text=True
    )
    if r.returncode != 0:
        err = [l for l in r.stderr.splitlines() if "error" in l]
        return "COMPILE ERROR: " + (err[0].split("error:")[-1].strip() if err else "?")
    return subprocess.run([ex], capture_output=True, text=True).stdout.strip()


print("Kernel: `y[0]=1; y[1]+=1;` (unannotated) followed by one block x[ii]+=1.")
print("Required (C16): every target runs each block once per index and all")
print("targets compute the same result for every n.")
bad = False
for n in (0, 5):
    res = {t: run(t, n) for t in ("cpu_serial", "cpu_openmp", "opencl", "cuda")}
    for t, r in res.items():
        print(f"  n={n} {t:11s}: {r}")
    if len(set(res.values())) != 1:
        bad = True
if bad:
    print("OBSERVED: for n=0 the flag y[0] is set on CPU only; the count y[1] "
          "is 1 on CPU, n on OpenCL, ceil(n/4)*4 on CUDA (block 4).")
    sys.exit(1)
print("OK: all targets agree")
sys.exit(0)
