"""C16 - the loop index of a vectorised block is always a 32-bit `int`.

`//vectorize_over ii n` is expanded to `for (int ii=0; ii<n; ii++){` on the
CPU targets and to `int ii; ii=get_global_id(0)` / `int ii; ii=blockDim.x*...`
on the GPU targets (specialize_source.py lines 50-62), whatever the type of
the limit is (the text the user wrote before the annotation, here
`for(int64_t ii=0; ...`, the idiom of tests/test_ref.py, is discarded).
With an Int64 limit n > 2**31-1 the CPU loop never reaches n: the index
overflows, the body runs with NEGATIVE indices and more than n times (without
the safety net below the call does not return at all).

Real run on ContextCpu (default compile flags); takes ~2 s.
The body only counts, it does not index memory, so nothing is corrupted here.
"""
import sys
import numpy as np
import xobjects as xo

SRC = """
/*gpukern*/ void k(const int64_t n, /*gpuglmem*/ int64_t* out){
  for(int64_t ii=0; ii<n; ii++){ //vectorize_over ii n
     out[0] += 1;                       // executions of the body
     if (ii < 0) { out[1] += 1; }       // executions with a negative index
     if (out[0] > n + 100) return;      // safety net: the loop would not end
  }//end_vectorize
}
"""
kd = {
    "k": xo.Kernel(
        args=[
            xo.Arg(xo.Int64, name="n"),
            xo.Arg(xo.Int64, pointer=True, name="out"),
        ],
        n_threads="n",
    )
}
ctx = xo.ContextCpu()
ctx._compile_kernels_info = False
ctx.add_kernels(sources=[SRC], kernels=kd)
print("Kernel counts the executions of a vectorised body; limit is an Int64 n.")
print("Required (C16): the body runs exactly once for each index 0..n-1, "
      "for every n >= 0.")
bad = False
for n in (0, 1000, 2**31 - 8, 2**31 + 8):
    out = np.zeros(2, dtype=np.int64)
    ctx.kernels.k(n=n, out=out)
    print(f"  n={n}: body executions={out[0]}, with negative index={out[1]}")
    if out[0] != n or out[1] != 0:
        bad = True
if bad:
    print("OBSERVED: for n > 2**31-1 the `int` index wraps: negative indices "
          "are visited and the loop does not stop at n.")
    sys.exit(1)
print("OK")
sys.exit(0)
