"""C17 - a 0-dimensional NumPy array given to a pointer-to-scalar argument is
delivered as a pointer to a temporary.

KernelCpu.to_function_arg takes `value[tuple(value.ndim*[slice(0,1)])]` to get
"the first element"; for ndim == 0 this is `value[()]`, which is a NumPy
*scalar copy*, not a view.  `.data` of that temporary is what the kernel gets:
the address differs from the array's element and results written by the kernel
never reach the array (they go to released memory).
"""
import sys

import numpy as np
import xobjects as xo

src = "int64_t addr_of(double* p){ return (int64_t) p; }"
ctx = xo.ContextCpu()
ctx.add_kernels(
    sources=[src],
    kernels={
        "addr_of": xo.Kernel(
            args=[xo.Arg(xo.Float64, pointer=True, name="p")], ret=xo.Arg(xo.Int64)
        )
    },
)
print("Property C17: a numeric NumPy array given to a pointer argument arrives as a")
print("pointer to its first element.\n")
bad = False
for label, arr in [("1-d array of one element", np.array([5.0])),
                   ("2-d 1x1 array", np.array([[5.0]])),
                   ("0-d array", np.array(5.0))]:
    expected = arr.ctypes.data
    got = ctx.kernels.addr_of(p=arr)
    print(f"{label}: element at {expected:#x}, kernel received {got:#x}")
    if got != expected:
        print("   -> MISBEHAVIOUR: pointer to a temporary copy, kernel output is lost")
        bad = True
sys.exit(1 if bad else 0)
