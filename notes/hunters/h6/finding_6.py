"""C13 (minor) - update_from_nplike with a 0-dimensional NumPy array.

BufferNumpy flattens the value and copies its itemsize bytes.  BufferByteArray
goes through update_from_native(offset, value.data, 0, value.nbytes), which
slices the memoryview `value.data[0:nbytes]`; a 0-dim memoryview cannot be
sliced -> TypeError, with and without dtype conversion.  (The slice also counts
items, not bytes, which only works by accident for >=1-d arrays.)
"""
import sys

import numpy as np
import xobjects as xo
from xobjects.context_cpu import BufferByteArray, BufferNumpy

print("Property C13: copying from a NumPy array (any layout, with or without dtype")
print("conversion) transfers exactly its bytes, for both CPU buffer kinds.\n")
bad = False
for Buf in (BufferNumpy, BufferByteArray):
    for src_dtype in ("int16", "float64"):
        value = np.array(7, dtype=src_dtype)  # 0-d
        buf = Buf(capacity=16)
        buf.update_from_buffer(0, bytes(range(1, 17)))
        expected = bytearray(range(1, 17))
        expected[5:7] = np.int16(7).tobytes()
        label = f"{Buf.__name__}.update_from_nplike(5, int16, np.array(7, dtype='{src_dtype}'))"
        try:
            buf.update_from_nplike(5, np.dtype("int16"), value)
            got = bytes(buf.to_bytearray(0, 16))
            ok = got == bytes(expected)
            print(f"{label}: {'ok' if ok else 'WRONG BYTES ' + got.hex()}")
        except Exception as exc:
            ok = False
            print(f"{label}: raised {type(exc).__name__}: {exc}")
        bad |= not ok
sys.exit(1 if bad else 0)
