"""C17 - NumPy arrays whose element type is NOT the declared C type are accepted
when only the byte order differs: the element-type check is made on
`value.dtype.name` (dtype2ctype, context_cpu.py), and '>f8' / '>i4' ... have the
same name ('float64', 'int32') as the native types.  The kernel then reads
byte-swapped garbage instead of the call being refused.
"""
import sys

import numpy as np
import xobjects as xo

src = """
double  first_f64(double*  p){ return p[0]; }
int32_t first_i32(int32_t* p){ return p[0]; }
"""
ctx = xo.ContextCpu()
ctx.add_kernels(
    sources=[src],
    kernels={
        "first_f64": xo.Kernel(
            args=[xo.Arg(xo.Float64, pointer=True, name="p")], ret=xo.Arg(xo.Float64)
        ),
        "first_i32": xo.Kernel(
            args=[xo.Arg(xo.Int32, pointer=True, name="p")], ret=xo.Arg(xo.Int32)
        ),
    },
)
print("Property C17: calls with arrays of the wrong element type are refused instead")
print("of passing garbage (a float32 array for a double* argument is refused).\n")
try:
    ctx.kernels.first_f64(p=np.array([1.0, 2.0], dtype="float32"))
    print("float32 array for double*: accepted (unexpected)")
except TypeError as exc:
    print("float32 array for double*: refused, as required")

swapped = ">" if sys.byteorder == "little" else "<"
bad = False
for kname, dt, val in [("first_f64", "f8", 1.0), ("first_i32", "i4", 1)]:
    a = np.array([val, 2], dtype=swapped + dt)
    print(f"{kname}(p=np.array([{val}, 2], dtype='{swapped}{dt}'))  dtype.name={a.dtype.name!r}")
    try:
        got = getattr(ctx.kernels, kname)(p=a)
    except Exception as exc:
        print(f"   refused: {type(exc).__name__}: {exc}")
        continue
    print(f"   expected: refusal (or the value {val}); kernel saw p[0] = {got!r}")
    if got != val:
        print("   -> MISBEHAVIOUR: wrong element type accepted, garbage delivered")
        bad = True
sys.exit(1 if bad else 0)
