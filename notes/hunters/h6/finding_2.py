"""C13 - update_from_xbuffer between the two CPU buffer kinds of ONE context.

XBuffer.update_from_xbuffer (context.py) dispatches on context identity only:
same context -> self.update_from_native(offset, source.buffer, ...).
When the destination is a BufferByteArray and the source a BufferNumpy that
share a context, the numpy int8 storage is handed to a bytearray slice
assignment, which rejects numpy arrays -> TypeError for EVERY (offset, length),
even length 0.  The reverse direction and the different-context route work.
"""
import sys

import xobjects as xo
from xobjects.context_cpu import BufferByteArray, BufferNumpy

ctx = xo.ContextCpu()
CAP = 16


def fresh(Buf, base):
    b = Buf(capacity=CAP, context=ctx)
    b.update_from_buffer(0, bytes((base + i) % 256 for i in range(CAP)))
    return b


print("Property C13: copying nbytes from another buffer of the same context moves")
print("exactly those bytes to the requested offset, for both CPU buffer kinds.\n")

fails = total = 0
first = None
for Dst, Src in [(BufferByteArray, BufferNumpy), (BufferNumpy, BufferByteArray),
                 (BufferByteArray, BufferByteArray), (BufferNumpy, BufferNumpy)]:
    nfail = 0
    for off in range(CAP + 1):
        for soff in range(CAP + 1):
            for n in range(CAP + 1):
                if off + n > CAP or soff + n > CAP:
                    continue
                d, s = fresh(Dst, 1), fresh(Src, 130)
                exp = bytearray(d.to_bytearray(0, CAP))
                exp[off : off + n] = s.to_bytearray(soff, n)
                total += 1
                try:
                    d.update_from_xbuffer(off, s, soff, n)
                    ok = bytes(d.to_bytearray(0, CAP)) == bytes(exp)
                    err = "wrong bytes"
                except Exception as exc:
                    ok, err = False, f"{type(exc).__name__}: {exc}"
                if not ok:
                    nfail += 1
                    if first is None:
                        first = (Dst.__name__, Src.__name__, off, soff, n, err)
    print(f"dest {Dst.__name__:16s} <- source {Src.__name__:16s} same context: {nfail} failing (offset, source_offset, nbytes) triples")
    fails += nfail

if first:
    print("\nfirst failure: dest=%s source=%s offset=%d source_offset=%d nbytes=%d -> %s" % first)
    print("expected: bytes copied (as they are when the two buffers have different contexts)")
sys.exit(1 if fails else 0)
