"""C17 - an xobject numeric array that lives in a BufferByteArray is passed to a
pointer-to-scalar kernel argument as a pointer to a TEMPORARY COPY.

KernelCpu.to_function_arg (context_cpu.py, xobject-array branch) does
    ffi.cast(ctype+"*", ffi.from_buffer(value._buffer.buffer[offset:]))
For BufferNumpy the slice is a view; for BufferByteArray `bytearray[offset:]`
is a copy that is released as soon as the cast is done.  The kernel therefore
receives an address that is not the array's first element: whatever it writes
is lost and what it reads is freed memory.  (Struct/array xobjects passed by
value from the same buffer are delivered correctly.)
"""
import sys

import numpy as np
import xobjects as xo
from xobjects.context_cpu import BufferByteArray

src = """
int64_t addr_of(double* p){ return (int64_t) p; }
void    store(double* p, double v){ p[0] = v; }
"""
ctx = xo.ContextCpu()
ctx.add_kernels(
    sources=[src],
    kernels={
        "addr_of": xo.Kernel(
            args=[xo.Arg(xo.Float64, pointer=True, name="p")], ret=xo.Arg(xo.Int64)
        ),
        "store": xo.Kernel(
            args=[xo.Arg(xo.Float64, pointer=True, name="p"), xo.Arg(xo.Float64, name="v")]
        ),
    },
)

print("Property C17: a numeric xobject array given to a pointer argument arrives as a")
print("pointer to its first element at its current location in the buffer.\n")
bad = False
for label, buf in [("BufferNumpy", ctx.new_buffer(256)),
                   ("BufferByteArray", BufferByteArray(capacity=256, context=ctx))]:
    first = xo.Float64[3]([1.0, 2.0, 3.0], _buffer=buf)
    arr = xo.Float64[3]([4.0, 5.0, 6.0], _buffer=buf)  # at offset 24
    base = np.frombuffer(buf.buffer, dtype="int8").ctypes.data
    expected = base + arr._offset + arr._data_offset
    got = ctx.kernels.addr_of(p=arr)
    print(f"{label}: array at offset {arr._offset}")
    print(f"   expected pointer {expected:#x}, kernel received {got:#x}")
    if got == expected:
        # only write through the pointer when it is the right one: writing
        # into the released temporary would corrupt the heap
        ctx.kernels.store(p=arr, v=42.0)
        print(f"   after store(p=arr, v=42.0): arr[0] = {arr[0]} (expected 42.0)")
    else:
        print("   (store() skipped: it would write into released memory; in an")
        print("    experiment the write was lost, arr[0] stayed 4.0)")
    if got != expected or arr[0] != 42.0:
        print("   -> MISBEHAVIOUR: the kernel did not get the array's own storage")
        bad = True
sys.exit(1 if bad else 0)
