"""C13 - update_from_buffer counts ITEMS instead of BYTES for bytes-like sources
that have no `nbytes` attribute (array.array, ctypes arrays).

BufferByteArray: the 16 source bytes are spliced into a 2-byte slot, so the
bytearray GROWS by 14 bytes and every byte after the slot is shifted
(len(buffer) != capacity afterwards).
BufferNumpy: the same valid bytes-like source is refused (ValueError).
"""
import array
import ctypes
import sys

import xobjects as xo
from xobjects.context_cpu import BufferByteArray, BufferNumpy

CAP, OFF = 64, 8
bad = False
print("Property C13: copying bytes-like data into a CPU buffer transfers exactly")
print("the source bytes at the requested offset and leaves all other bytes untouched.\n")

sources = [
    ("array.array('d', [1.0, 2.0])", array.array("d", [1.0, 2.0])),
    ("(ctypes.c_double * 2)(1.0, 2.0)", (ctypes.c_double * 2)(1.0, 2.0)),
]
for Buf in (BufferByteArray, BufferNumpy):
    for label, src in sources:
        payload = bytes(memoryview(src).cast("B"))  # the 16 raw bytes
        buf = Buf(capacity=CAP)
        pattern = bytes(range(1, CAP + 1))
        buf.update_from_buffer(0, pattern)
        expected = bytearray(pattern)
        expected[OFF : OFF + len(payload)] = payload
        print(f"{Buf.__name__}.update_from_buffer({OFF}, {label})  [{len(payload)} bytes]")
        try:
            buf.update_from_buffer(OFF, src)
        except Exception as exc:  # refusal of valid bytes-like data
            print(f"   observed: raised {type(exc).__name__}: {exc}")
            bad = True
            continue
        got = bytes(buf.to_bytearray(0, len(buf.buffer)))
        print(f"   expected len {CAP}: {bytes(expected).hex()}")
        print(f"   observed len {len(buf.buffer)}: {got.hex()}")
        if got != bytes(expected) or len(buf.buffer) != buf.capacity:
            print("   -> MISBEHAVIOUR: buffer resized / bytes after the slot shifted")
            bad = True

sys.exit(1 if bad else 0)
