"""C01 (and C05): a String constructed from a capacity does not read back as ""
when it lands on memory that is not zero (freed-and-reused space, or an explicit
offset): String._to_buffer writes only the size word for an integer argument
(string.py: `elif is_integer(value): pass`), it never writes the NUL terminator
nor clears the data area."""
import sys
import numpy as np
import xobjects as xo

ctx = xo.ContextCpu()
bad = []

print("Property C01: a String built from a capacity reads back as the empty string,")
print("wherever it lands (any prior allocations and frees).")
print("Property C05: strings are size-prefixed NUL-terminated UTF-8.\n")

# 1. top-level String(capacity) on reused memory
buf = ctx.new_buffer(64)
old = xo.String("previous occupant", _buffer=buf)
off, size = old._offset, old._size
buf.free(off, size)
s = xo.String(10, _buffer=buf)
raw = bytes(buf.buffer[s._offset + 8 : s._offset + s._size].tobytes())
print(f"1. String('previous occupant') at {off} freed, then String(10) allocated at {s._offset}")
print(f"   expected to_str() == ''   observed: {s.to_str()!r}")
print(f"   data bytes: {raw!r}  (NUL terminated: {b'\\x00' in raw})")
if s.to_str() != "":
    bad.append("top-level String(capacity) in reused memory")


# 2. a struct field / array item given as a capacity, object placed in reused memory
class Rec(xo.Struct):
    n = xo.Int64
    name = xo.String
    tags = xo.String[:]


buf = ctx.new_buffer(256)
junk = xo.UInt8[128](np.full(128, ord("Z"), dtype="u1"), _buffer=buf)
buf.free(junk._offset, 128)
r = Rec(n=1, name=12, tags=[5, "ok", 9], _buffer=buf)
print(f"2. Rec(n=1, name=12, tags=[5,'ok',9]) at {r._offset} in a freed block that held 'Z' bytes")
print(f"   expected name == '' and tags == ['', 'ok', '']")
print(f"   observed name == {r.name!r}, tags == {[r.tags[i] for i in range(3)]!r}")
if r.name != "" or [r.tags[i] for i in range(3)] != ["", "ok", ""]:
    bad.append("String capacity inside struct/array in reused memory")

# 3. garbage that is not valid UTF-8 makes the accessor raise
buf = ctx.new_buffer(64)
junk = xo.UInt8[32](np.full(32, 0xA5, dtype="u1"), _buffer=buf)
buf.free(junk._offset, 32)
s = xo.String(10, _buffer=buf)
try:
    v = s.to_str()
    print(f"3. String(10) over 0xA5 bytes: to_str() == {v!r}")
    if v != "":
        bad.append("String(capacity) over 0xA5 bytes")
except UnicodeDecodeError as e:
    print(f"3. String(10) over 0xA5 bytes: to_str() raises {type(e).__name__}: {e}")
    bad.append("String(capacity) unreadable")

if bad:
    print("\nVIOLATION:", "; ".join(bad))
    sys.exit(1)
print("\nno misbehaviour observed")
sys.exit(0)
