"""C01 / C05 (borderline: value domain): a Python str containing U+0000 is accepted
silently by String (string.py:52-55 encodes it verbatim) although the format is
NUL-terminated.  The library's reader strips only TRAILING NULs (string.py:92), so
'ab\\x00' reads back as 'ab' (C01), and for 'a\\x00b' the stored bytes are
b'a\\x00b\\x00..': a decoder that follows the documented format (NUL-terminated
UTF-8) recovers 'a' while the library returns 'a\\x00b' (C05).  Nothing is refused."""
import sys
import xobjects as xo

bad = []
print("Property C01: the value written is read back exactly; C05: a decoder written from")
print("the format description (size-prefixed NUL-terminated UTF-8) recovers the value.\n")

s = xo.String("ab\x00")
print(f"String('ab\\x00').to_str() == {s.to_str()!r}   (required 'ab\\x00', or a refusal)")
if s.to_str() != "ab\x00":
    bad.append("trailing NUL lost")


class R(xo.Struct):
    name = xo.String


r = R(name="a\x00b")
raw = bytes(r._buffer.buffer[r._offset:r._offset + r._size].tobytes())
size = int.from_bytes(raw[8:16], "little")
data = raw[16:8 + size]
dec = data[: data.index(b"\x00")].decode("utf8")
print(f"R(name='a\\x00b'): library reads {r.name!r}; bytes {data!r}; format decoder reads {dec!r}")
if dec != "a\x00b":
    bad.append("embedded NUL: independent decoder recovers a different string")

if bad:
    print("\nVIOLATION:", "; ".join(bad))
    sys.exit(1)
print("\nno misbehaviour observed")
sys.exit(0)
