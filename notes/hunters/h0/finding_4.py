"""C01: an N-dimensional array whose items are dynamically sized (String, dynamic
array, dynamic struct) cannot be constructed from plain nested Python lists:
Array._inspect_args indexes the raw value with an index TUPLE
(`cls._itemtype._inspect_args(value[idx])`, array.py:412-413) before the value has
been turned into an object array (that only happens later, in _to_buffer via
_object_array).  The same nested lists work for statically sized items, and the
same data works when wrapped in a numpy object array."""
import sys
import numpy as np
import xobjects as xo

print("Property C01: every type of the grammar (N-D arrays of Strings / dynamic items")
print("included) built from plain Python data reads back exactly that data.\n")
bad = []
data = [["a", "bc"], ["def", "héllo"]]


class D(xo.Struct):
    s = xo.String


cases = [
    ("String[:, :]", xo.String[:, :], data, lambda a, i, j: a[i, j]),
    ("String[2, 2]", xo.String[2, 2], data, lambda a, i, j: a[i, j]),
    ("Float64[:][:, :]", xo.Float64[:][:, :], [[[1.0], [2.0, 3.0]], [[], [4.0]]],
     lambda a, i, j: a[i, j].to_nparray().tolist()),
    ("D[:, :] (dynamic struct)", D[:, :], [[{"s": "a"}, {"s": "bc"}], [{"s": "def"}, {"s": "g"}]],
     lambda a, i, j: {"s": a[i, j].s}),
]
for name, cls, val, get in cases:
    try:
        a = cls(val)
        got = [[get(a, i, j) for j in range(2)] for i in range(2)]
        print(f"{name}({val}) reads {got}")
        if got != val:
            bad.append(f"{name}: wrong read-back")
    except Exception as e:
        print(f"{name}({val}) raises {type(e).__name__}: {e}")
        bad.append(f"{name}: nested list refused")

# control: same data as object ndarray, and static items from nested lists, both fine
ob = np.empty((2, 2), dtype=object)
for i in range(2):
    for j in range(2):
        ob[i, j] = data[i][j]
a = xo.String[:, :](ob)
print("control  String[:, :](object ndarray) reads", [[a[i, j] for j in range(2)] for i in range(2)])
a = xo.Int64[2][:, :]([[[1, 2], [3, 4]], [[5, 6], [7, 8]]])
print("control  Int64[2][:, :](nested lists) reads", [[a[i, j].to_nparray().tolist() for j in range(2)] for i in range(2)])

if bad:
    print("\nVIOLATION:", "; ".join(bad))
    sys.exit(1)
print("\nno misbehaviour observed")
sys.exit(0)
