"""C01: valid xobjects are refused as initial values.
(a) An array of dynamically sized items is copied by first RE-PLANNING its layout
    from the item values read back (array.py:410-416: _inspect_args(value[idx]),
    a String item comes back as a Python str -> minimal size) and then comparing the
    planned size with the source size (array.py:475-480).  A source whose strings
    have spare capacity (built from a capacity, or from a String xobject with
    capacity) is a different size -> ValueError; the same happens to a struct copy
    S(src) that has to take the field-by-field path (struct with a reference).
(b) A statically shaped array class compares get_shape_from_array(value) with its
    tuple _shape (array.py:327-329); a handle obtained through _from_buffer of a
    dynamic array keeps _shape as a LIST (array.py:438-445), so list != tuple and a
    dynamic xobject array of exactly the right shape is refused."""
import sys
import xobjects as xo

print("Property C01: construction from another xobject returns exactly that value.\n")
bad = []

SA = xo.String[:]
src = SA([10, "abc", xo.String(20)])  # items with spare capacity ('' , 'abc', '')
print("a1. src = String[:]([10, 'abc', String(20)]) reads", [src[i] for i in range(3)])
try:
    cp = SA(src)
    got = [cp[i] for i in range(3)]
    print("    String[:](src) reads", got)
    if got != ["", "abc", ""]:
        bad.append("copy of string array wrong")
except ValueError as e:
    print("    String[:](src) raises ValueError:", e)
    bad.append("copy of string array with spare capacity refused")


class T(xo.Struct):
    x = xo.Int64


class S(xo.Struct):
    r = xo.Ref[T]
    names = xo.String[:]


s = S(r={"x": 1}, names=[12, "b"])
print("a2. s = S(r={'x':1}, names=[12,'b']) reads", s.r.x, [s.names[i] for i in range(2)])
try:
    cp = S(s)
    got = (int(cp.r.x), [cp.names[i] for i in range(2)])
    print("    S(s) reads", got)
    if got != (1, ["", "b"]):
        bad.append("struct copy wrong")
except ValueError as e:
    print("    S(s) raises ValueError:", e)
    bad.append("struct copy refused")


class H(xo.Struct):
    v = xo.Float64[:]


h = H(v=[1.0, 2.0, 3.0])
dyn = h.v  # handle from _from_buffer: _shape is a list
print("b.  dyn = H(v=[1,2,3]).v ; type(dyn._shape) =", type(dyn._shape).__name__)
try:
    st = xo.Float64[3](dyn)
    print("    Float64[3](dyn) reads", st.to_nparray().tolist())
    if st.to_nparray().tolist() != [1.0, 2.0, 3.0]:
        bad.append("static from dynamic xobject wrong")
except ValueError as e:
    print("    Float64[3](dyn) raises ValueError:", str(e).strip())
    print("    (control: Float64[3](Float64[:]([1,2,3])) ->", xo.Float64[3](xo.Float64[:]([1.0, 2.0, 3.0])).to_nparray().tolist(), ")")
    bad.append("static array class refuses a dynamic xobject array of the right shape")

if bad:
    print("\nVIOLATION:", "; ".join(bad))
    sys.exit(1)
print("\nno misbehaviour observed")
sys.exit(0)
