"""C01: a reference (Ref / UnionRef) decides "the value already has my target type"
by comparing CLASS NAMES (ref.py:53-57, 120-132).  The generated array class name
(array.py:295-297, Arr<shape><item>) does not contain the axis order, so a
Fortran-ordered xobject array living in the same buffer is taken, without copy or
conversion, as the target of a reference to the C-ordered array type: the items
read back permuted."""
import sys
import numpy as np
import xobjects as xo

print("Property C01: an object constructed from another xobject returns exactly that value")
print("from every field, item and nested accessor.\n")
bad = []

ArrC = xo.Float64[2, 3]  # C order
ArrF = xo.Float64[2:1, 3:0]  # same shape, Fortran order
print("class names:", ArrC.__name__, ArrF.__name__, " strides:", ArrC._strides, ArrF._strides)


class Holder(xo.Struct):
    r = xo.Ref[ArrC]


class U(xo.UnionRef):
    _reftypes = [ArrC, xo.Float64[3]]


class HolderU(xo.Struct):
    u = U


m = np.arange(6.0).reshape(2, 3)
buf = xo.ContextCpu().new_buffer(0)
f = ArrF(m, _buffer=buf)
assert np.array_equal(f.to_nparray(), m)
print("value: ArrF xobject holding\n", f.to_nparray())

h = Holder(r=f, _buffer=buf)
got = np.array([[h.r[i, j] for j in range(3)] for i in range(2)])
print("1. Holder(r=<that xobject>) in the same buffer; h.r[i,j] reads\n", got)
if not np.array_equal(got, m):
    bad.append("Ref[C-order array] initialised from F-order xobject reads permuted")

hu = HolderU(u=f, _buffer=buf)
got = np.array([[hu.u[i, j] for j in range(3)] for i in range(2)])
print("2. HolderU(u=<that xobject>) (UnionRef member ArrC); hu.u[i,j] reads\n", got)
if not np.array_equal(got, m):
    bad.append("UnionRef member initialised from F-order xobject reads permuted")


class U2(xo.UnionRef):
    _reftypes = [ArrC, ArrF]  # two distinct member types, same generated name


class HolderU2(xo.Struct):
    u = U2


f_other = ArrF(m)  # lives in another buffer: it is copied, but tagged as member 0
hu2 = HolderU2(u=f_other)
got = np.array([[hu2.u[i, j] for j in range(3)] for i in range(2)])
tid = int(np.frombuffer(hu2._buffer.buffer, dtype="i8", count=2, offset=hu2._offset)[1])
print(f"3. UnionRef[ArrC|ArrF] given the ArrF xobject (other buffer): stored member index {tid}"
      f" (required 1), hu2.u[i,j] reads\n", got)
if not np.array_equal(got, m):
    bad.append("UnionRef[ArrC|ArrF] tags an ArrF value as ArrC")

if bad:
    print("\nVIOLATION:", "; ".join(bad))
    sys.exit(1)
print("\nno misbehaviour observed")
sys.exit(0)
