"""C01: an array class with a dynamic shape that is declared with a class statement
keeps `_order` as the string "C"/"F" (the default is "C"; MetaArray.__new__ only
normalises it for static shapes, array.py:212-225).  _inspect_args and the ndarray
writer normalise it on the fly, but Array.to_nplike/to_nparray (array.py:676-696)
and the list writer (iter_index(info.shape, cls._order), array.py:540,546) use the
raw string: the object is constructed correctly and then cannot be read through
to_nparray(), and cannot be constructed from nested lists.  tests/test_array.py
declares such classes (ArrayB/ArrayC/ArrayD) but never reads them."""
import sys
import numpy as np
import xobjects as xo

print("Property C01: any axis order, any accepted input form, read through items and")
print("Array.to_nplike()/to_nparray().\n")
bad = []


class Vec(xo.Array):  # exactly tests/test_array.py::ArrayC
    _itemtype = xo.Float64
    _shape = (None,)
    _order = "C"


class MatF(xo.Array):  # Architecture.md: 'array' 'i64' d1 ':' d3 'F'
    _itemtype = xo.Float64
    _shape = (None, 3)
    _order = "F"


class MatDefault(xo.Array):  # no _order at all -> default "C"
    _itemtype = xo.Float64
    _shape = (None, 3)


m = np.arange(6.0).reshape(2, 3)
for name, cls, val in [("Vec", Vec, np.array([1.0, 2.0, 3.0])), ("MatF", MatF, m), ("MatDefault", MatDefault, m)]:
    a = cls(val)
    items = [a[i] for i in range(3)] if val.ndim == 1 else [[a[i, j] for j in range(3)] for i in range(2)]
    print(f"{name}(ndarray): items read {np.array(items).tolist()} (correct)")
    try:
        out = a.to_nparray()
        print(f"   to_nparray() -> {out.tolist()}")
        if not np.array_equal(out, val):
            bad.append(f"{name}.to_nparray wrong")
    except Exception as e:
        print(f"   to_nparray() raises {type(e).__name__}: {e}")
        bad.append(f"{name}.to_nparray raises")
    if val.ndim > 1:
        try:
            b = cls(val.tolist())
            got = [[b[i, j] for j in range(3)] for i in range(2)]
            print(f"   {name}(nested list) reads {np.array(got).tolist()}")
            if not np.array_equal(np.array(got), val):
                bad.append(f"{name}(list) wrong")
        except Exception as e:
            print(f"   {name}(nested list) raises {type(e).__name__}: {e}")
            bad.append(f"{name}(nested list) raises")

if bad:
    print("\nVIOLATION:", "; ".join(bad))
    sys.exit(1)
print("\nno misbehaviour observed")
sys.exit(0)
