"""C01: an N-dimensional array constructed from ANOTHER XOBJECT array is read with
chained 1-D indexing.  Array._to_buffer sends every xobject value that cannot be
copied bytewise (the class holds references, or the value is of another array
class) through _object_array(), which does `item = value; for ii in idx: item =
item[ii]`.  For an xobject array value[i] is NOT row i: Array.__getitem__ accepts
the short index and returns element (i,0,..), and the following [j] then indexes
INTO that element (array.py:77-87, 535-537, 588-601)."""
import sys
import numpy as np
import xobjects as xo

print("Property C01: an object constructed from another xobject returns exactly that")
print("value from every item accessor.\n")
bad = []


class C(xo.Struct):
    x = xo.Int64


B = xo.Ref[C][2]  # array of 2 references
A = xo.Ref[B][2, 2]  # 2-D array of references to such arrays

# --- silent variant -----------------------------------------------------------
rows = [[[None, None], [None, None]], [[None, None], [None, None]]]
src = A(rows)
print("1. A = Ref[Ref[C][2]][2,2];  src = A(4 targets, each the array [None, None])")
print("   src[i,j] :", [[src[i, j] for j in range(2)] for i in range(2)])
cp = A(src)
got = [[cp[i, j] for j in range(2)] for i in range(2)]
print("   cp = A(src); required: every cp[i,j] is an Arr2RefC holding [None, None]")
print("   observed cp[i,j] :", got)
if any(g is None for row in got for g in row):
    bad.append("copy of 2-D array of references silently lost all targets (became null)")

# --- silent variant with real content -------------------------------------------
T = xo.Int64[:][:]
A2 = xo.Ref[T][2, 2]
data = [[[[2, 1], [3]], [[7], [8, 9]]], [[[1, 2], [1]], [[5], [6]]]]


def dump(a):
    return [[[[int(x) for x in a[i, j][k].to_nparray()] for k in range(a[i, j]._shape[0])]
             for j in range(2)] for i in range(2)]


src2 = A2(data)
cp2 = A2(src2)
print("1b. A2 = Ref[Int64[:][:]][2,2]; src2 = A2(data); cp2 = A2(src2)")
print("   src2 reads:", dump(src2))
print("   cp2  reads:", dump(cp2), " (required: same as src2)")
if dump(src2) == data and dump(cp2) != data:
    bad.append("copy of 2-D array of references to int arrays silently holds other data")

# --- same thing with real data: construction is refused -------------------------
buf = xo.ContextCpu().new_buffer(0)
src = A([[[{"x": 1}, None], [{"x": 2}, None]], [[None, {"x": 3}], [None, None]]], _buffer=buf)
try:
    cp = A(src)
    v = cp[0, 1][0].x
    print(f"2. copy of a populated array: cp[0,1][0].x == {v} (required 2)")
    if v != 2:
        bad.append("copy of populated 2-D reference array wrong")
except Exception as e:
    print(f"2. A(src) with populated targets raises {type(e).__name__}: {e}")
    bad.append("copy of populated 2-D reference array refused")

# --- no references needed: a 2-D xobject of another array class as the value ---
st = xo.Float64[2, 3](np.arange(6.0).reshape(2, 3))
try:
    dy = xo.Float64[:, :](st)
    ok = np.array_equal(dy.to_nparray(), st.to_nparray())
    print(f"3. Float64[:,:](Float64[2,3] xobject) -> {dy.to_nparray().tolist()}")
    if not ok:
        bad.append("dynamic array from static xobject array wrong")
except Exception as e:
    print(f"3. Float64[:,:](Float64[2,3] xobject) raises {type(e).__name__}: {e}")
    print("   (the 1-D analogue works: ", xo.Float64[:](xo.Float64[3]([1, 2, 3])).to_nparray().tolist(), ")")
    bad.append("N-D xobject array of another class refused as initial value")

if bad:
    print("\nVIOLATION:", "; ".join(bad))
    sys.exit(1)
print("\nno misbehaviour observed")
sys.exit(0)
