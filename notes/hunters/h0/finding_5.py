"""C01: Array.to_nparray()/to_nplike() raise AssertionError for a multi-dimensional
array with a zero-length dimension that is not the slowest one (e.g. shape (3,0),
(2,0,2), or (0,3) in Fortran order).  The library's own strides (array.py:144-153,
get_c_strides multiplies by the zero extent -> (0, 8)) are compared by
`assert arr.strides == self._strides` (array.py:683, 695) with numpy's strides of
the reshaped view ((8, 8)).  Static and dynamic shapes, constructed handle and
_from_buffer handle are all affected."""
import sys
import numpy as np
import xobjects as xo

print("Property C01: every value incl. EMPTY arrays reads back exactly through")
print("Array.to_nplike()/to_nparray().\n")
bad = []
cases = [
    ("Float64[:, :]   shape (3,0)", xo.Float64[:, :], (3, 0)),
    ("Float64[3, 0]   static", xo.Float64[3, 0], (3, 0)),
    ("Int32[:, :, :]  shape (2,0,2)", xo.Int32[:, :, :], (2, 0, 2)),
    ("Float64[:1, :0] (F order) shape (0,3)", xo.Float64[:1, :0], (0, 3)),
    ("control Float64[:, :] shape (0,3)", xo.Float64[:, :], (0, 3)),
]
for name, cls, shape in cases:
    val = np.zeros(shape)
    a = cls(val)
    for meth in ("to_nparray", "to_nplike"):
        try:
            out = getattr(a, meth)()
            ok = out.shape == shape
            print(f"{name}: {meth}() -> array of shape {out.shape}")
            if not ok:
                bad.append(f"{name} {meth} wrong shape")
        except AssertionError:
            print(f"{name}: {meth}() raises AssertionError (library strides {tuple(int(s) for s in a._strides)})")
            bad.append(f"{name}: {meth} raises")

if bad:
    print("\nVIOLATION:", "; ".join(bad))
    sys.exit(1)
print("\nno misbehaviour observed")
sys.exit(0)
