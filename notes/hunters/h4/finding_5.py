"""C10: a whole-struct assignment of equal total size that the library refuses
is applied half-way: fields before the refusing one are already overwritten."""
import sys
import xobjects as xo


class S(xo.Struct):
    a = xo.String
    b = xo.String
    k = xo.Int64


class P(xo.Struct):
    s = S
    z = xo.Int64


bad = False
print("== case a: dict value of equal total size")
p = P(s={"a": "x" * 20, "b": "y", "k": 1}, z=9)
before = (p.s.a, p.s.b, int(p.s.k), int(p.z))
new = {"a": "y", "b": "x" * 20, "k": 2}
print("before:", before, " nested struct size", p.s._size)
print("assign", new, "(same total size) to p.s")
try:
    p.s = new
    print("accepted")
except ValueError as e:
    print("refused:", e)
after = (p.s.a, p.s.b, int(p.s.k), int(p.z))
want = ("y", "x" * 20, 2, 9)
print("required: either", want, "or (if refused) unchanged", before)
print("observed:", after)
if after != want and after != before:
    bad = True


print("== case b: struct object of equal size, type containing a reference")
class R(xo.Struct):
    r = xo.Ref[xo.Float64[:]]
    a = xo.String
    b = xo.String


class Q(xo.Struct):
    s = R


q = Q(s={"r": [1, 2], "a": "x" * 20, "b": "y"})
n = R(r=[3], a="y", b="x" * 20)
print("sizes", q.s._size, n._size)
before = (q.s.r.to_nparray().tolist(), q.s.a, q.s.b)
try:
    q.s = n
    print("accepted")
except ValueError as e:
    print("refused:", e)
after = (q.s.r.to_nparray().tolist(), q.s.a, q.s.b)
want = ([3.0], "y", "x" * 20)
print("required: either", want, "or unchanged", before)
print("observed:", after)
if after != want and after != before:
    bad = True
print("MISBEHAVIOUR PRESENT" if bad else "ok")
sys.exit(1 if bad else 0)
