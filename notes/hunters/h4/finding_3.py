"""C10: a multi-dimensional array field/item cannot be assigned a whole value
of the same shape (numpy array or nested list): refused by a len() comparison."""
import sys
import numpy as np
import xobjects as xo


class S(xo.Struct):
    m = xo.Float64[2, 3]        # static shape
    n = xo.Int32[:, :]          # dynamic shape
    k = xo.Int64


s = S(m=np.zeros((2, 3)), n=np.zeros((2, 3)), k=5)
bad = False
for name, val in [("m", np.arange(6.0).reshape(2, 3)),
                  ("m", [[1, 2, 3], [4, 5, 6]]),
                  ("n", np.arange(6).reshape(2, 3))]:
    print(f"assign to field {name} (shape (2,3)) the value of shape (2,3):\n{val}")
    try:
        setattr(s, name, val)
        got = getattr(s, name).to_nparray()
        ok = (got == np.asarray(val)).all()
        print("  accepted, reads back", got.tolist())
        bad |= not ok
    except Exception as e:
        print("  required: the field equals the assigned value")
        print("  observed:", type(e).__name__, str(e).replace("\n", " "))
        bad = True

AA = xo.Float64[2, 3][4]
aa = AA()
try:
    aa[1] = np.ones((2, 3))
    print("item assignment accepted")
except Exception as e:
    print("item aa[1] = ones((2,3)) of Float64[2,3][4]:", type(e).__name__, str(e).replace("\n", " "))
    bad = True
print("MISBEHAVIOUR PRESENT" if bad else "ok")
sys.exit(1 if bad else 0)
