"""C10: assigning a whole multi-dimensional array of references (an xobject of
the very same array type) does not store the assigned value: it raises for
struct targets and silently stores garbage for array targets."""
import sys
import numpy as np
import xobjects as xo

T = xo.Int64[:]
A = xo.Ref[T][2, 2]


class P(xo.Struct):
    a = A
    z = xo.Int64


def rd(x):
    return [[x[i, j].to_nparray().tolist() for j in range(2)] for i in range(2)]


val = np.empty((2, 2), dtype=object)
val2 = np.empty((2, 2), dtype=object)
for n, idx in enumerate(np.ndindex(2, 2)):
    val[idx] = [n, n + 1, n + 2]
    val2[idx] = [2 + n, 3, 4]
p = P(a=val, z=5)
new = A(val2, _buffer=p._buffer)          # same type, same (static) size
print("p.a   =", rd(p.a))
print("value =", rd(new))
print("assign value to p.a")
try:
    p.a = new
    print("accepted without error")
except Exception as e:
    print("raised", type(e).__name__, e)
got = rd(p.a)
want = rd(new)
print("required: p.a reads", want)
print("observed: p.a reads", got, " z =", int(p.z))
bad = got != want


class K(xo.Struct):
    k = xo.Int64


B = xo.Ref[K][2, 2]
v = np.empty((2, 2), dtype=object)
for n, idx in enumerate(np.ndindex(2, 2)):
    v[idx] = {"k": n}
b = B(v)
b2 = B(v, _buffer=b._buffer)
v0 = B._from_buffer(b._buffer, b._offset)
try:
    v0._update(b2)
    print("struct targets: accepted")
except Exception as e:
    print("struct targets, B._update(B object):", type(e).__name__, e)
    bad = True
print("MISBEHAVIOUR PRESENT" if bad else "ok")
sys.exit(1 if bad else 0)
