"""C06: a UnionRef whose members are two array types that differ only in axis
order materialises the target as the wrong member: the view differs from the
handle that was stored."""
import sys
import numpy as np
import xobjects as xo

AF = xo.Float64[2:1, 3:0]      # Fortran ordered 2x3
AC = xo.Float64[2, 3]          # C ordered 2x3
print("member class names:", AF.__name__, AC.__name__)


class U(xo.UnionRef):
    _reftypes = [AF, AC]


class P(xo.Struct):
    u = U
    k = xo.Int64


p = P(u=None, k=1)
c = AC(np.arange(6.0).reshape(2, 3), _buffer=p._buffer)   # the handle
p.u = c
v = p.u                                                     # the view
hv = [[float(c[i, j]) for j in range(3)] for i in range(2)]
vv = [[float(v[i, j]) for j in range(3)] for i in range(2)]
print("handle type", type(c) is AC, "strides", c._strides, "values", hv)
print("view is AC:", type(v) is AC, " is AF:", type(v) is AF, "strides", v._strides, "values", vv)
print("required: same type, strides and values at every index")
bad = (type(v) is not AC) or hv != vv or tuple(c._strides) != tuple(v._strides)
print("MISBEHAVIOUR PRESENT" if bad else "ok")
sys.exit(1 if bad else 0)
