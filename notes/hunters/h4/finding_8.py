"""C10: a string element created with an integer capacity (documented:
String(10) = 10 bytes including the terminating NUL) refuses values that fit."""
import sys
import xobjects as xo


class S(xo.Struct):
    a = xo.String
    k = xo.Int64


s = S(a=10, k=3)      # 10 byte capacity including NUL -> up to 9 bytes of text
bad = False
for val in ["1234567", "12345678", "123456789"]:
    try:
        s.a = val
        ok = s.a == val
        print(f"assign {val!r} ({len(val)} bytes + NUL <= 10): accepted, reads {s.a!r}")
        bad |= not ok
    except ValueError as e:
        print(f"assign {val!r} ({len(val)} bytes + NUL <= 10): required accepted; observed refused: {e}")
        bad = True
print("k =", int(s.k))
print("MISBEHAVIOUR PRESENT" if bad else "ok")
sys.exit(1 if bad else 0)
