"""C06/C10: assigning a whole struct of equal size through one handle leaves
every other handle/view of the same struct with stale dynamic-field offsets."""
import sys
import xobjects as xo


class S(xo.Struct):
    a = xo.String
    b = xo.String
    k = xo.Int64


s = S(a="x" * 20, b="y", k=1)                 # constructor handle
v = S._from_buffer(s._buffer, s._offset)       # view of the same bytes
s2 = S(a="y", b="x" * 20, k=2)                 # same total size
print("sizes:", s._size, s2._size)
print("before: handle", (s.a, s.b, s.k), "view", (v.a, v.b, v.k))
print("assign S(a='y', b='x'*20, k=2) to the whole struct through the view")
v._update(s2)
exp = ("y", "x" * 20, 2)
got_v = (v.a, v.b, int(v.k))
try:
    got_h = (s.a, s.b, int(s.k))
except Exception as e:  # a stale offset may point at undecodable bytes
    got_h = f"{type(e).__name__}: {e}"
print("required: handle and view both read", exp)
print("observed view  :", got_v)
print("observed handle:", got_h)
bad = got_v != exp or got_h != exp

# consequence: a write through the stale handle lands in the wrong place
if bad:
    try:
        s.b = "QQ"
        print("after s.b='QQ' through the handle: view reads", (v.a, v.b), " handle reads", (s.a, s.b))
    except BaseException as e:
        print("write through stale handle raised", type(e).__name__, e)
print("MISBEHAVIOUR PRESENT" if bad else "ok")
sys.exit(1 if bad else 0)
