"""C06/C10: a whole-array assignment made through a view leaves the constructor
handle (and, after a buffer growth, any earlier view) with stale item offsets."""
import sys
import xobjects as xo

A = xo.String[:]
bad = False


def rd(x):
    try:
        return [x[i] for i in range(2)]
    except Exception as e:  # a stale offset may point at undecodable bytes
        return f"{type(e).__name__}: {e}"


print("== case a: handle vs view")
a = A(["x" * 20, "b"])                      # constructor handle
v = A._from_buffer(a._buffer, a._offset)     # view of the same bytes
print("handle:", [a[i] for i in range(2)], " view:", [v[i] for i in range(2)],
      " size", a._get_size())
new = ["b", "x" * 20]                        # same total size, same shape
print("assign", new, "to the whole array through the view (v._update)")
v._update(new)
ha = rd(a)
hv = rd(v)
print("required: both read", new)
print("observed: view  ", hv)
print("observed: handle", ha)
if ha != new or hv != new:
    bad = True

print("== case b: two views, buffer grown in between")
ctx = xo.ContextCpu()
buf = ctx.new_buffer(256)
a = A(["x" * 20, "b"], _buffer=buf)
v1 = A._from_buffer(buf, a._offset)
xo.Float64[:](100, _buffer=buf)              # grows the buffer
v2 = A._from_buffer(buf, a._offset)
v2._update(new)
r1 = rd(v1)
r2 = rd(v2)
print("required: both views read", new)
print("observed: view made before growth:", r1)
print("observed: view made after growth :", r2)
if r1 != new or r2 != new:
    bad = True

print("MISBEHAVIOUR PRESENT" if bad else "ok")
sys.exit(1 if bad else 0)
