"""C10: assigning a String *object* to a string field/item overwrites the
reserved capacity of that element with the (smaller) capacity of the value.
A size of the enclosing layout changes, and a later value that fitted before
is refused."""
import sys
import xobjects as xo
from xobjects.scalar import Int64


class S(xo.Struct):
    a = xo.String
    k = xo.Int64


bad = False
s = S(a="x" * 20, k=3)
off = s._get_offset("a")
cap0 = int(Int64._from_buffer(s._buffer, off))
print("field a holds 20 bytes, reserved size slot =", cap0)
print("assign xo.String('hi') (a fitting value) to s.a")
s.a = xo.String("hi")
cap1 = int(Int64._from_buffer(s._buffer, off))
print("required: value 'hi', reserved size still", cap0)
print("observed: value", repr(s.a), "reserved size", cap1)
if cap1 != cap0:
    bad = True
try:
    s.a = "y" * 20
    print("re-assigning a 20 byte string: accepted", repr(s.a))
except ValueError as e:
    print("re-assigning a 20 byte string (fitted at construction): refused:", e)
    bad = True

A = xo.String[:]
a = A(["x" * 20, "b"])
a[0] = xo.String("hi")
try:
    a[0] = "z" * 20
    print("array item: accepted")
except ValueError as e:
    print("array item a[0]: same loss of capacity:", e)
    bad = True
print("MISBEHAVIOUR PRESENT" if bad else "ok")
sys.exit(1 if bad else 0)
