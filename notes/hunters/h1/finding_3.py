"""
C02 - the generated C length accessor of an array with a dynamic axis and a
static axis of extent 0 does not return the length Python reports.

    T = Float64[0, :]               T(3): shape (0, 3), len() == 0
    T_len(obj) -> 72   (dynamic extent 3 * stride 24)
    (Float64[:, 0] in C order returns 0 only because its first stride is 0;
     the F-ordered Float64[:1, 0:0] returns 24)

Cause: capi.gen_method_len tests the static extent with `if dim_len:`
(capi.py:321-326) instead of `is not None`; a static 0 is taken for a dynamic
axis and the NEXT header word (a stride) is multiplied in.

Run:  cd /tmp/wh/h1 && PYTHONPATH=/tmp/wh/h1 /venv/bin/python finding_3.py
"""
import sys
import xobjects as xo

xo.ContextCpu._compile_kernels_info = False

bad = False
print("required: <T>_len(obj) == len(obj) (product of the extents)")
for label, T, args in (
    ("Float64[:, 0]       ", xo.Float64[:, 0], (3,)),
    ("Float64[0, :]       ", xo.Float64[0, :], (3,)),
    ("Float64[:1, 0:0] (F)", xo.Float64[:1, 0:0], (3,)),
):
    obj = T(*args)
    ctx = xo.ContextCpu()
    ctx.add_kernels(kernels=T._gen_kernels())
    clen = ctx.kernels[T.__name__ + "_len"](obj=obj)
    print(f"{label} shape={tuple(int(x) for x in obj._shape)} "
          f"python len={int(len(obj))}  C len={clen}")
    if clen != len(obj):
        bad = True

src = xo.Float64[:, 0]._gen_c_api()
print("generated source of the length accessor:")
for block in src.split("/*gpufun*/"):
    if "_len(" in block:
        print("   " + block.strip().replace("\n", "\n   "))

if bad:
    print("VIOLATION (C02): C length differs from the Python length")
    sys.exit(1)
print("no misbehaviour")
sys.exit(0)
