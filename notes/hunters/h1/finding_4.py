"""
C02 / C07 - the generated "member address" accessor of a UnionRef, called on
a NULL union element (a perfectly well-formed object: Python reports None and
the C typeid accessor reports -1), adds the NULL marker -2**63 to the object
pointer: it returns a wild non-NULL address far outside the buffer, and
forming that address is undefined behaviour (UBSan: "pointer index expression
... overflowed").  The generated union dispatcher (capi.gen_method_switch)
calls <U>_member(obj) unconditionally BEFORE it looks at the typeid, so every
union method call on a NULL union runs into the same thing.

    class S1(Struct): a = Int64
    class U(UnionRef): _reftypes = [S1]
    ua = U[:](2);  ua[0] = S1(a=3)         # ua[1] stays NULL

Cause: capi.gen_method_member (capi.py:410-437) emits
`offset += *(int64_t*)(obj+offset); return (void*)((char*)obj+offset);`
without testing for ref.NULLVALUE (ref.py:16), unlike MetaUnionRef._from_buffer
/ UnionRef.get (ref.py:155-161, 244-254) which map NULLVALUE to None.

Run:  cd /tmp/wh/h1 && PYTHONPATH=/tmp/wh/h1 /venv/bin/python finding_4.py
"""
import os
import sys
import tempfile

import cffi
import numpy as np
import xobjects as xo

xo.ContextCpu._compile_kernels_info = False
ffi = cffi.FFI()


class S1(xo.Struct):
    a = xo.Int64


class U(xo.UnionRef):
    _reftypes = [S1]


UA = U[:]
ua = UA(2)
ua[0] = S1(a=3)
print("Python view: ua[0] =", ua[0], "  ua[1] =", ua[1])

buf = ua._buffer
base = np.frombuffer(buf.buffer, dtype="int8").ctypes.data
size = len(buf.buffer)


def build(flags):
    ctx = xo.ContextCpu()
    kw = {}
    if flags:
        kw = dict(
            extra_compile_args=("-O1", "-Wno-unused-function") + flags,
            extra_link_args=flags,
        )
    ctx.add_kernels(kernels=UA._gen_kernels(), **kw)
    return ctx


ctx = build(())
print("C typeid:    ", [ctx.kernels.ArrNU_typeid(obj=ua, i0=i) for i in (0, 1)])
bad = False
print("required: member address == address of what Python reports "
      "(element 0: the S1 object; element 1: no member -> NULL), "
      "no address formed outside the buffer image")
for i in (0, 1):
    p = ctx.kernels.ArrNU_member(obj=ua, i0=i)
    addr = int(ffi.cast("size_t", p))
    inside = base <= addr < base + size
    py = ua[i]
    exp = None if py is None else base + py._offset
    print(f"  element {i}: C member = {addr:#x}  inside buffer image: {inside}"
          f"  python: {'None' if py is None else hex(exp)}")
    if py is None:
        if addr != 0:
            bad = True
    elif addr != exp:
        bad = True

# same call under the undefined behaviour sanitizer (report only)
try:
    sctx = build(("-fsanitize=undefined",))
    sys.stderr.flush()
    with tempfile.TemporaryFile() as tmp:
        saved = os.dup(2)
        os.dup2(tmp.fileno(), 2)
        try:
            sctx.kernels.ArrNU_member(obj=ua, i0=1)
        finally:
            sys.stderr.flush()
            os.dup2(saved, 2)
            os.close(saved)
        tmp.seek(0)
        msg = tmp.read().decode(errors="replace")
    lines = [ll for ll in msg.splitlines() if "runtime error" in ll]
    if lines:
        print("UBSan:", lines[0].split(": ", 1)[-1])
        bad = True
    else:
        print("UBSan: no report")
except Exception as exc:  # sanitizer runtime not available
    print("(sanitizer build not possible here:", type(exc).__name__, ")")

if bad:
    print("VIOLATION (C02 member identity / C07 undefined behaviour) for a "
          "NULL union element")
    sys.exit(1)
print("no misbehaviour")
sys.exit(0)
