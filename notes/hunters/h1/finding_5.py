"""
C07 - generated accessors perform misaligned loads/stores RELATIVE TO THE
OBJECT START when the path goes through a reference whose target was
allocated after a String created with an integer capacity.

    class R(Struct):  r = Ref[Float64[:]]
    buf = ContextCpu().new_buffer(64)
    r = R(_buffer=buf)              # offset 0, size 8
    String(3, _buffer=buf)          # documented form "String(capacity)":
                                    # offset 8, size 3+8 = 11 (not a slot multiple)
    r.r = [1.5, 2.5]                # target allocated at offset 19
    R_get_r(r, 1)   -> loads the int64 header and the double at
                       object start + 19 + 8*k : misaligned (UBSan reports it)

Cause: MetaString._inspect_args returns size = capacity + 8 without rounding
to the 8-byte slot for an integer argument (string.py:49-50; the str branch
rounds with _to_slot_size), and CPU buffers allocate with alignment 1
(context.py:214, 400-402, 413-419), so the next object - here the target the
Ref creates with `self._reftype(value, _buffer=buffer)` (ref.py:60) - lands on
an odd offset.  The accessor code (capi.py:120-122, 206-218) dereferences
typed pointers there.

Run:  cd /tmp/wh/h1 && PYTHONPATH=/tmp/wh/h1 /venv/bin/python finding_5.py
"""
import os
import sys
import tempfile

import cffi
import numpy as np
import xobjects as xo

xo.ContextCpu._compile_kernels_info = False
ffi = cffi.FFI()


class R(xo.Struct):
    r = xo.Ref[xo.Float64[:]]


ctx = xo.ContextCpu()
buf = ctx.new_buffer(64)
r = R(_buffer=buf)
s = xo.String(3, _buffer=buf)
print(f"R at offset {r._offset} (size {r._size}); String(3) at offset "
      f"{s._offset}, size {s._size}")
r.r = [1.5, 2.5]
print("reference target Float64[:] allocated at offset", r.r._offset)

ctx.add_kernels(kernels=R._gen_kernels())
base = np.frombuffer(buf.buffer, dtype="int8").ctypes.data
print("required: every typed access of an accessor is aligned relative to "
      "the start of the object it is called on")
bad = False
for i in range(2):
    p = ctx.kernels.R_getp1_r(obj=r, i0=i)
    rel = int(ffi.cast("size_t", p)) - base - r._offset
    val = ctx.kernels.R_get_r(obj=r, i0=i)
    print(f"  R_getp1_r(r, {i}) = object start + {rel}   "
          f"(mod 8 = {rel % 8});  R_get_r -> {val}, python {r.r[i]}")
    if rel % 8:
        bad = True

# the same accessor under the undefined behaviour sanitizer (report only)
try:
    sctx = xo.ContextCpu()
    flags = ("-fsanitize=undefined",)
    sctx.add_kernels(
        kernels=R._gen_kernels(),
        extra_compile_args=("-O1", "-Wno-unused-function") + flags,
        extra_link_args=flags,
    )
    sys.stderr.flush()
    with tempfile.TemporaryFile() as tmp:
        saved = os.dup(2)
        os.dup2(tmp.fileno(), 2)
        try:
            sctx.kernels.R_set_r(obj=r, i0=1, value=2.5)
        finally:
            sys.stderr.flush()
            os.dup2(saved, 2)
            os.close(saved)
        tmp.seek(0)
        msg = tmp.read().decode(errors="replace")
    for ll in msg.splitlines():
        if "runtime error" in ll:
            print("UBSan:", ll.split(": ", 1)[-1])
            bad = True
except Exception as exc:
    print("(sanitizer build not possible here:", type(exc).__name__, ")")

if bad:
    print("VIOLATION (C07): misaligned access relative to the object start")
    sys.exit(1)
print("no misbehaviour")
sys.exit(0)
