"""
C02 / C07 - a C-ordered and a Fortran-ordered array type of the same item
type and shape get the same class name, hence the same C type name, the same
accessor names and the same "#ifndef XOBJ_TYPEDEF_<name>" guard.  As soon as
both occur in one build, ONE set of accessors serves both types: the getter
returns another element than Python reports for one of the two objects and the
setter overwrites another element than the one addressed.

    C = Float64[2, 3]         # name Arr2x3Float64, strides (24, 8)
    F = Float64[2:1, 3:0]     # name Arr2x3Float64, strides (8, 16)
    class S(Struct):  c = C ; f = F

Cause: array.get_suffix / mk_arrayclass ignore the axis order when naming the
class (array.py:63-74, 295-297); context.sort_classes and
ContextCpu.build_kernels keep one class per name (context.py:78-80,
context_cpu.py:291-295); capi.gen_code guards by name (capi.py:541-545).

Run:  cd /tmp/wh/h1 && PYTHONPATH=/tmp/wh/h1 /venv/bin/python finding_2.py
"""
import sys
import numpy as np
import xobjects as xo

xo.ContextCpu._compile_kernels_info = False

C = xo.Float64[2, 3]
F = xo.Float64[2:1, 3:0]
print("C-ordered type:", C.__name__, "strides", C._strides)
print("F-ordered type:", F.__name__, "strides", F._strides)


class S(xo.Struct):
    c = C
    f = F


val = np.arange(6.0).reshape(2, 3)
s = S(c=val, f=val)
assert all(s.c[i, j] == val[i, j] and s.f[i, j] == val[i, j]
           for i in range(2) for j in range(3))

# accessors of S and of the C-ordered array type (the type of field c)
kernels = {}
kernels.update(S._gen_kernels())
kernels.update(C._gen_kernels())
ctx = xo.ContextCpu()
ctx.add_kernels(kernels=kernels)
get = ctx.kernels.Arr2x3Float64_get
setk = ctx.kernels.Arr2x3Float64_set

print("required: Arr2x3Float64_get(obj, i0, i1) == obj[i0, i1] for every "
      "object of the type the accessor was generated for")
bad = False
for name, arr in (("s.c (C order)", s.c), ("s.f (F order)", s.f)):
    mism = []
    for i in range(2):
        for j in range(3):
            cv = get(obj=arr, i0=i, i1=j)
            if cv != arr[i, j]:
                mism.append(((i, j), cv, float(arr[i, j])))
    print(f"{name}: {len(mism)} of 6 elements differ", mism[:3])
    if mism:
        bad = True

# setter: write element [0,1] of the C-ordered field, look at everything
before = s.c.to_nparray().copy()
setk(obj=s.c, i0=0, i1=1, value=-7.0)
after = s.c.to_nparray().copy()
changed = [tuple(int(k) for k in ix) for ix in np.argwhere(before != after)]
print("Arr2x3Float64_set(s.c, 0, 1, -7.0) changed elements", changed,
      " (required: exactly [(0, 1)])")
if changed != [(0, 1)]:
    bad = True

if bad:
    print("VIOLATION (C02 getter / C07 setter): accessor addresses other "
          "bytes than the Python view of the same object")
    sys.exit(1)
print("no misbehaviour")
sys.exit(0)
