"""
C02 - two different access paths of one struct get the SAME generated C
function name, so the type has no usable accessor for one of them (and the
generated source does not even compile).

    class In(Struct):   b   = Int64
    class Col(Struct):  a   = In        # path  Col.a.b  -> Col_get_a_b
                        a_b = Int64     # path  Col.a_b  -> Col_get_a_b

Cause: capi.gen_fun_kernel builds the name as "_".join(field names)
(capi.py:186-196); gen_kernels keeps the last kernel per name in a dict
(capi.py:571-576) while gen_code emits both bodies (capi.py:547-553).

Run:  cd /tmp/wh/h1 && PYTHONPATH=/tmp/wh/h1 /venv/bin/python finding_1.py
"""
import os
import sys
import contextlib

import xobjects as xo

xo.ContextCpu._compile_kernels_info = False


@contextlib.contextmanager
def quiet_stderr():
    sys.stderr.flush()
    saved = os.dup(2)
    devnull = os.open(os.devnull, os.O_WRONLY)
    os.dup2(devnull, 2)
    try:
        yield
    finally:
        sys.stderr.flush()
        os.dup2(saved, 2)
        os.close(saved)
        os.close(devnull)


class In(xo.Struct):
    b = xo.Int64


class Col(xo.Struct):
    a = In
    a_b = xo.Int64


obj = Col(a={"b": 11}, a_b=22)
print("object: Col(a=In(b=11), a_b=22);  Python: obj.a.b =", obj.a.b,
      " obj.a_b =", obj.a_b)
print("required: one C getter per scalar path, returning 11 for path a.b "
      "and 22 for path a_b")

bad = False

# 1. path enumeration versus generated kernels
scalar_paths = [
    p for p in Col._gen_data_paths() if p[-1] is xo.Int64
]
kernels = Col._gen_kernels()
getters = sorted(k for k in kernels if k.startswith("Col_get_"))
print(f"scalar leaf paths: {len(scalar_paths)}   "
      f"generated getter kernels: {getters}")
if len(getters) < len(scalar_paths):
    print("OBSERVED: two distinct paths share the kernel name Col_get_a_b")
    bad = True

src = Col._gen_c_api().source
ndef = src.count("Col_get_a_b(")
print(f"definitions of Col_get_a_b in the generated source: {ndef}")
if ndef > 1:
    bad = True

# 2. try to build and call
ctx = xo.ContextCpu()
try:
    with quiet_stderr():
        ctx.add_kernels(kernels=kernels)
except Exception as exc:  # compilation fails: redefinition of Col_get_a_b
    print("OBSERVED: building the accessors of Col fails:",
          type(exc).__name__, str(exc).splitlines()[0][:100])
    bad = True
else:
    got = ctx.kernels.Col_get_a_b(obj=obj)
    print("Col_get_a_b(obj) ->", got)
    # whichever path it serves, the other one has no accessor
    bad = True

if bad:
    print("VIOLATION (C02): not every access path has a C accessor that "
          "returns what Python reports")
    sys.exit(1)
print("no misbehaviour")
sys.exit(0)
