"""C19: from_dict(to_dict(copy_to_cpu=False)) loses the renamed fields of a
hybrid object held in a reference field.

With copy_to_cpu=False to_dict finds the dressed object of the reference field
and emits its to_dict() form, keyed by PYTHON (renamed) names
(hybrid_class.py:363-365).  from_dict -> _dict_with_xo_names
(hybrid_class.py:326-336) translates nested dictionaries only for fields whose
type has a _DressingClass; a Ref has none, so the renamed keys reach the struct
constructor untranslated and are ignored: scalars fall back to their default,
a renamed dynamic array makes from_dict raise.
Property: rebuilding from the dictionary form reconstructs an equal object for
every field value.
"""
import sys
import xobjects as xo


class Inner(xo.HybridClass):
    _xofields = {"a": xo.Int64, "b": xo.Float64[:]}
    _rename = {"a": "aa"}


class Outer(xo.HybridClass):
    _xofields = {"r": xo.Ref(Inner), "s": xo.Float64}


buf = xo.context_default.new_buffer()
inner = Inner(aa=5, b=[1, 2], _buffer=buf)
outer = Outer(r=inner, s=3, _buffer=buf)

bad = False
for kw in ({}, {"copy_to_cpu": False}):
    d = outer.to_dict(**kw)
    print(f"to_dict({kw}) ->", d)
    try:
        back = Outer.from_dict(d)
        got = int(back._xobject.r.a)
    except Exception as e:
        got = f"raised {type(e).__name__}: {e}"
    print("   rebuilt r.a =", got, " (original 5)")
    if got != 5:
        bad = True
if bad:
    print("VIOLATION: the rebuilt object differs from the original")
sys.exit(1 if bad else 0)
