"""C18: a hybrid object passed to the constructor under the STRUCT name of a
renamed reference field (accepted by xoinitialize, hybrid_class.py:299) is not
handled as a reference assignment.

xoinitialize (hybrid_class.py:306-319) stores vv._xobject under the struct name
but then does setattr(self, kk, vv) with the struct name, which is no descriptor:
 - across buffers the assignment is NOT refused: Ref._to_buffer (ref.py:59-61)
   silently stores a copy;
 - in the same buffer the object is shared but not registered: the attribute
   returns a bare struct, and the shared object stays movable, so `move` tears
   the sharing apart.
Property: assigning a hybrid object to a reference field shares it and is
refused across buffers (also under field renaming).
"""
import sys
import xobjects as xo


class Inner(xo.HybridClass):
    _xofields = {"a": xo.Int64, "b": xo.Float64[:]}


class Outer(xo.HybridClass):
    _xofields = {"inner_to_rename": xo.Ref(Inner), "s": xo.Float64}
    _rename = {"inner_to_rename": "inner_renamed"}


bad = False
buf, other = (xo.context_default.new_buffer() for _ in range(2))

# reference behaviour with the python name, for comparison
inner = Inner(a=1, b=[2, 3], _buffer=other)
try:
    Outer(inner_renamed=inner, _buffer=buf)
    print("python name, other buffer: accepted")
except MemoryError:
    print("python name, other buffer: refused (as required)")

try:
    o = Outer(inner_to_rename=inner, _buffer=buf)
    print("struct name, other buffer: ACCEPTED, o.inner_renamed.a =",
          o.inner_renamed.a)
    inner.a = 77
    print("  inner.a = 77 -> o.inner_renamed.a =", o.inner_renamed.a,
          "(a silent copy, not shared)")
    bad = True
except MemoryError:
    print("struct name, other buffer: refused")

inner2 = Inner(a=5, b=[2, 3], _buffer=buf)
o2 = Outer(inner_to_rename=inner2, _buffer=buf)
print("struct name, same buffer: o2.inner_renamed is inner2 ->",
      o2.inner_renamed is inner2, "; type:", type(o2.inner_renamed).__name__)
try:
    inner2.move(_buffer=other)
    inner2.a = 99
    print("  inner2.move() accepted; inner2.a = 99 -> o2.inner_renamed.a =",
          int(o2.inner_renamed.a), "(sharing lost)")
    bad = True
except MemoryError:
    print("  inner2.move() refused")
if bad:
    print("VIOLATION: reference assignment via the struct name of a renamed "
          "field neither refuses other buffers nor keeps the object shared")
sys.exit(1 if bad else 0)
