"""C18 (error path): the constructor form of a cross-buffer reference
assignment, Outer(inner=<object of another buffer>, _buffer=buf), is refused
with MemoryError only AFTER the target buffer was modified.

xoinitialize (hybrid_class.py:315-319) first builds the struct with
vv._xobject - Ref._to_buffer (ref.py:59-61) allocates a copy of the foreign
object in `buf` and stores a reference to it - and only the later
setattr(self, kk, vv) performs the cross-buffer check.  Each refused call
leaks an Outer struct plus a copy of the inner object in the user's buffer.
Property: assigning a hybrid object to a reference field ... is refused across
buffers (nothing is to be modified by a refused operation).
"""
import sys
import xobjects as xo


class Inner(xo.HybridClass):
    _xofields = {"a": xo.Int64, "b": xo.Float64[:]}


class Outer(xo.HybridClass):
    _xofields = {"inner": xo.Ref(Inner), "s": xo.Float64}


buf = xo.context_default.new_buffer(1024)
other = xo.context_default.new_buffer(1024)
inner = Inner(a=1, b=[2, 3, 4], _buffer=other)
free_before = sum(c.end - c.start for c in buf.chunks)
bytes_before = bytes(buf.buffer)
try:
    Outer(inner=inner, _buffer=buf)
    print("accepted")
    refused = False
except MemoryError as e:
    refused = True
    print("Outer(inner=inner_of_other_buffer, _buffer=buf) -> MemoryError")
free_after = sum(c.end - c.start for c in buf.chunks)
print("free bytes in buf before/after:", free_before, free_after)
print("buf content unchanged:", bytes(buf.buffer) == bytes_before)
if refused and (free_after != free_before
                or bytes(buf.buffer) != bytes_before):
    print("VIOLATION: the refused assignment allocated and wrote",
          free_before - free_after, "bytes in the target buffer")
    sys.exit(1)
sys.exit(0)
