"""C18: after `big.inner = other` (dressed value) the previously dressed nested
object is replaced, not re-synchronised; every holder of the old one - in
particular a reference field of another hybrid object that shares it - reads
the nested data with stale offsets.

_FieldOfDressed.__set__ (hybrid_class.py:71-87) builds a NEW dressed object for
the field, whereas the raw-value branch (hybrid_class.py:96-101) re-initialises
the existing one in place.  The old dressed object keeps the _offsets cache of
the previous layout (binary copy of an equally sized struct with another split,
struct.py:345-356).
Property: attributes of a hybrid object always reflect the underlying buffer
data (observe: attribute access vs obj._xobject).
"""
import sys
import xobjects as xo


class In2(xo.HybridClass):
    _xofields = {"b": xo.Float64[:], "c": xo.Float64[:]}


class Big(xo.HybridClass):
    _xofields = {"inner": In2, "s": xo.Float64}


class Holder(xo.HybridClass):
    _xofields = {"r": xo.Ref(In2)}


buf = xo.context_default.new_buffer()
big = Big(inner={"b": [1, 2, 3], "c": [4, 5, 6]}, _buffer=buf)
holder = Holder(_buffer=buf)
holder.r = big.inner  # reference field: shares the nested object
print("holder.r = big.inner ; holder.r.c =", holder.r.c.tolist())

big.inner = In2(b=[1, 2], c=[3, 4, 5, 6])  # same size, other split
print("big.inner = In2(b=[1,2], c=[3,4,5,6])")

expected = holder._xobject.r.c.to_nplike().tolist()
print("holder._xobject.r.c (buffer)  :", expected)
try:
    got = holder.r.c.tolist()
except Exception as e:
    got = f"raised {type(e).__name__}: {e}"
print("holder.r.c          (attribute):", got)
if got != expected:
    print("VIOLATION: attribute of the hybrid object does not reflect the buffer")
    sys.exit(1)
sys.exit(0)
