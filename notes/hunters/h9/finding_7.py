"""C18: a scalar-array field with a zero-extent dimension that is not the first
one (shape (3, 0)) cannot be read: attribute access, to_dict() raise
AssertionError.

Array.to_nplike (array.py:676-684) asserts arr.strides == self._strides; for an
empty array numpy normalises the strides of the view, while the stored strides
are (0, 8).  Shape (0, 3) happens to pass.
Property: attributes of a hybrid object always reflect the buffer data, for
scalar arrays of any shape and all values (incl. empty ones).
"""
import sys
import numpy as np
import xobjects as xo


class H(xo.HybridClass):
    _xofields = {"n": xo.Int64, "m": xo.Float64[:, :]}


bad = False
for shape in [(0, 3), (3, 0)]:
    h = H(n=1, m=np.zeros(shape))
    print("H(m=np.zeros(%s)); buffer shape:" % (shape,),
          tuple(int(s) for s in h._xobject.m._shape))
    try:
        print("   h.m.shape =", h.m.shape)
        h.to_dict()
    except AssertionError as e:
        print("   h.m -> AssertionError (array.py to_nplike stride check)")
        bad = True
if bad:
    print("VIOLATION: the attribute of a valid object cannot be read")
sys.exit(1 if bad else 0)
