"""C18: a REFUSED nested assignment leaves the container modified, and its
dressed attributes no longer mirror the buffer.

outer.mid = other_mid is refused with ValueError (an array of other_mid does not
fit), but Struct._update (struct.py:357-360) has by then already rewritten the
fields that come first - scalars and, by binary copy, a whole nested struct with
a different internal layout.  _FieldOfDressed.__set__ (hybrid_class.py:63) lets
the exception escape before re-dressing, so the cached dressed objects keep stale
offsets: attribute access returns wrong data / raises, while the buffer says
something else.
Property: the assignment either stores an independent copy or is refused; after
a refusal the attributes must still reflect the (unchanged) buffer data.
"""
import sys
import numpy as np
import xobjects as xo


class In2(xo.HybridClass):
    _xofields = {"a": xo.Int64, "b": xo.Float64[:], "c": xo.Float64[:]}


class Mid(xo.HybridClass):
    _xofields = {"i1": In2, "i2": In2}


class Outer(xo.HybridClass):
    _xofields = {"mid": Mid, "t": xo.Int64}


outer = Outer(
    mid={"i1": {"a": 1, "b": [1, 2, 3], "c": [4, 5, 6]},
         "i2": {"a": 2, "b": [7, 8, 9], "c": [10, 11, 12]}},
    t=3,
)
# i1 has the same total size but another split (2+4), i2 cannot fit (1+1)
other = Mid(i1={"a": 100, "b": [21, 22], "c": [23, 24, 25, 26]},
            i2={"a": 200, "b": [31], "c": [32]})


def buffer_view(o):
    x = Outer._XoStruct._from_buffer(o._buffer, o._offset)
    return {
        "i1.a": int(x.mid.i1.a), "i1.b": x.mid.i1.b.to_nplike().tolist(),
        "i1.c": x.mid.i1.c.to_nplike().tolist(),
        "i2.a": int(x.mid.i2.a), "i2.b": x.mid.i2.b.to_nplike().tolist(),
    }


before = buffer_view(outer)
print("buffer before:", before)
refused = False
try:
    outer.mid = other
except ValueError as e:
    refused = True
    print("outer.mid = other  -> refused with ValueError:", e)
after = buffer_view(outer)
print("buffer after :", after)

bad = False
if refused and after != before:
    print("VIOLATION: the refused assignment modified the container")
    bad = True
try:
    attr_c = outer.mid.i1.c.tolist()
except Exception as e:  # stale offsets may even point outside the buffer
    attr_c = f"raised {type(e).__name__}: {e}"
print("outer.mid.i1.c attribute :", attr_c)
print("outer._xobject.mid.i1.c  :", after["i1.c"])
if attr_c != after["i1.c"]:
    print("VIOLATION: attribute outer.mid.i1.c does not reflect the buffer data")
    bad = True
sys.exit(1 if bad else 0)
