"""C19 (scope: reference-free struct whose field is a 2-D array): T(x._to_json())
does not reproduce x.

Array._to_json (array.py:740-750) iterates `for v in self`, i.e. the legacy
sequence protocol with indices (0,), (1,), ...; Array.__getitem__ accepts the
short index and returns element [i, 0], so the JSON form of a 2-D array is its
first column (the code carries a TODO for this).  The struct constructor then
refuses the JSON form, or - for a dynamic N-d field - would build another
object.
Property: for reference-free structs, constructing the type from an object's
JSON form reproduces the object.
"""
import sys
import numpy as np
import xobjects as xo


class S(xo.Struct):
    n = xo.Int64
    m = xo.Float64[2, 3]


s = S(n=1, m=np.arange(6.0).reshape(2, 3))
j = s._to_json()
print("S(n=1, m=[[0,1,2],[3,4,5]])._to_json() ->", j)
try:
    s2 = S(j)
    same = np.array_equal(s2.m.to_nplike(), s.m.to_nplike()) and s2.n == s.n
    print("S(json).m =", s2.m.to_nplike().tolist())
except Exception as e:
    same = False
    print("S(json) raised", type(e).__name__, ":", e)
if not same:
    print("VIOLATION: the JSON form does not rebuild the struct")
    sys.exit(1)
sys.exit(0)
