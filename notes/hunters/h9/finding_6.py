"""C18: assigning an N-dimensional xobject array (the struct-level value of the
same field of another object) to a scalar-array attribute silently stores other
values.

_FieldOfDressed.__set__ (hybrid_class.py:40-41) does `view[:] = value`; numpy
converts the xobject Array through the sequence protocol, and
Array.__getitem__ (array.py:588-601) accepts the short index (i,) on a 2-D array
(bound_check/get_offset zip over the shorter tuple) returning element [i, 0].
numpy thus sees the first column only and broadcasts it.
Property: after setting a field the attribute reflects the assigned value / the
buffer holds it (set field over scalar arrays of any shape).
"""
import sys
import numpy as np
import xobjects as xo


class M(xo.HybridClass):
    _xofields = {"m": xo.Float64[2, 2], "v": xo.Float64[:]}


src = M(m=[[1, 2], [3, 4]], v=[1, 2, 3])
dst = M(v=3)
dst.v = src._xobject.v  # 1-D: fine
dst.m = src._xobject.m  # 2-D
print("src.m =", src.m.tolist())
print("dst.m = src._xobject.m ; dst.m =", dst.m.tolist())
print("1-D control: dst.v =", dst.v.tolist())
if not np.array_equal(dst.m, src.m):
    print("VIOLATION: the stored value differs from the assigned array "
          "and no error was raised")
    sys.exit(1)
sys.exit(0)
