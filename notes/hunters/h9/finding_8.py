"""C18/C19: defining a second hybrid class that reuses the field table of the
first one (`_xofields = {"v": ..., **A._xofields}`, the usual way to extend a
class) re-targets the xo.Field objects of A: existing and new A objects then
read another place of their buffer.

MetaHybridClass (hybrid_class.py:157-159) copies the _xofields dict shallowly
and MetaStruct.__new__ (struct.py:161-211) writes index/name/offset INTO the
Field objects found in it.  Bare types get a fresh Field per class, but
explicit xo.Field(..., default=...) objects are shared, so class B overwrites
A's offsets (here field `a` moves from offset 0 to 8, on top of `b`).
Property: attributes of a hybrid object always reflect the underlying buffer
data; from_dict(to_dict(x)) == x, defaults elided.
"""
import sys
import numpy as np
import xobjects as xo


class A(xo.HybridClass):
    _xofields = {"a": xo.Field(xo.Int64, default=3), "b": xo.Float64}


a = A(b=2.5)
raw_before = bytes(a._buffer.buffer[a._offset:a._offset + 16])
print("A(b=2.5): a.a =", a.a, " a.b =", a.b, " to_dict:", a.to_dict())
before = int(a.a)


class B(xo.HybridClass):
    _xofields = {"v": xo.Float64[:], **A._xofields}


raw_after = bytes(a._buffer.buffer[a._offset:a._offset + 16])
print("... class B(_xofields={'v': Float64[:], **A._xofields}) defined ...")
print("buffer bytes of `a` unchanged:", raw_before == raw_after)
print("a.a =", a.a, " a.b =", a.b, " to_dict:", a.to_dict())
a2 = A(b=2.5)
print("new A(b=2.5).a =", a2.a, "(declared default 3)")
if int(a.a) != before or int(a2.a) != 3:
    print("VIOLATION: attribute `a` no longer reflects the data stored for it")
    sys.exit(1)
sys.exit(0)
