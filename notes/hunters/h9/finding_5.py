"""C19: a String field equal to its declared default is not omitted by to_dict.

Field.get_default (struct.py:134-141) builds the default with
dispatch_arg(String, "abc"), i.e. an xo.String OBJECT, while the attribute value
is a Python str.  _is_default (hybrid_class.py:104-112) compares
np.asarray(String-object) == np.asarray("abc"), which is False, so the field is
always written out (a default_factory returning "abc" is elided correctly).
Property: fields equal to their declared defaults are omitted from the
dictionary form.
"""
import sys
import xobjects as xo


class A(xo.HybridClass):
    _xofields = {
        "s": xo.Field(xo.String, default="abc"),
        "t": xo.Field(xo.String, default_factory=lambda: "abc"),
        "n": xo.Field(xo.Int64, default=3),
    }


a = A()
d = a.to_dict()
print("A() with every field at its default; to_dict() ->", d)
print("required: {'__class__': 'A'}")
if "s" in d:
    print("VIOLATION: field `s` equals its declared default 'abc' "
          "but is not omitted")
    sys.exit(1)
sys.exit(0)
