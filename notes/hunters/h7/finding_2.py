"""
C14: the name of an array class ignores its axis order, and sort_classes()
identifies classes by name.  A C-ordered and a Fortran-ordered static array of
the same item type and shape are two classes with different strides but the
same name ("Arr2x3Float64"); when both are dependencies only the API of the
first one met is emitted, the API of the other class is never emitted, and
its objects are read through the accessors of the wrong class.
"""
import sys

import numpy as np
import xobjects as xo
from xobjects.context import sort_classes

ArrC = xo.Float64[2, 3]  # C order, strides (24, 8)
ArrF = xo.Float64[2:1, 3:0]  # Fortran order, strides (8, 16)


class Pair(xo.Struct):
    c = ArrC
    f = ArrF


print("Types: ArrC=Float64[2,3] (C order), ArrF=Float64[2:1,3:0] (F order),")
print("       Pair{c:ArrC, f:ArrF}")
print(f"  ArrC: name={ArrC.__name__} strides={ArrC._strides}")
print(f"  ArrF: name={ArrF.__name__} strides={ArrF._strides}")
print("Required (C14): the API of every class Pair depends on is emitted")
print("  exactly once, i.e. the API of ArrC and the API of ArrF.")

classes = sort_classes([Pair])
print("Observed: sort_classes([Pair]) =", classes)
has_c = any(cc is ArrC for cc in classes)
has_f = any(cc is ArrF for cc in classes)
print(f"  API of ArrC emitted: {has_c};  API of ArrF emitted: {has_f}")

# consequence: the only `Arr2x3Float64_get` is the one of ArrC; applied to the
# field `f` (what Pair_getp_f returns, typed Arr2x3Float64) it reads elsewhere
src = """
/*gpufun*/ double via_class_api(Pair obj, int64_t i, int64_t j){
    return Arr2x3Float64_get(Pair_getp_f(obj), i, j);
}
/*gpufun*/ double via_struct_api(Pair obj, int64_t i, int64_t j){
    return Pair_get_f(obj, i, j);
}
"""
args = [
    xo.Arg(Pair, name="obj"),
    xo.Arg(xo.Int64, name="i"),
    xo.Arg(xo.Int64, name="j"),
]
ctx = xo.ContextCpu()
ctx.add_kernels(
    sources=[src],
    kernels={
        "via_class_api": xo.Kernel(args, ret=xo.Arg(xo.Float64)),
        "via_struct_api": xo.Kernel(args, ret=xo.Arg(xo.Float64)),
    },
)
val = np.arange(6.0).reshape(2, 3) + 10
p = Pair(c=np.zeros((2, 3)), f=val, _context=ctx)
wrong = []
for i in range(2):
    for j in range(3):
        py = p.f[i, j]
        a = ctx.kernels.via_class_api(obj=p, i=i, j=j)
        b = ctx.kernels.via_struct_api(obj=p, i=i, j=j)
        if a != py or b != py:
            wrong.append((i, j, py, a, b))
for i, j, py, a, b in wrong:
    print(
        f"  f[{i},{j}]: python={py}  Pair_get_f={b}  "
        f"Arr2x3Float64_get(Pair_getp_f(obj))={a}"
    )

if not (has_c and has_f) or wrong:
    print("MISBEHAVIOUR PRESENT: the API of one of the two array classes is")
    print("missing and the accessors of the other are applied to its objects")
    sys.exit(1)
print("ok")
sys.exit(0)
