"""
C14 / C15: accessor function names are built by joining the field names of a
path with "_", so two different paths of one struct can get the same C name.
The generated API then defines the same function twice and no target compiles.
"""
import os
import subprocess
import sys
import tempfile

import xobjects as xo
from xobjects.context import sort_classes, sources_from_classes
from xobjects.context import _concatenate_sources
from xobjects.specialize_source import specialize_source


class Inner(xo.Struct):
    b = xo.Float64


class Outer(xo.Struct):
    a = Inner  # path a.b   -> Outer_get_a_b / Outer_set_a_b / Outer_getp_a_b
    a_b = xo.Float64  # path a_b   -> Outer_get_a_b / Outer_set_a_b / Outer_getp_a_b


print("Types: Inner{b:Float64}; Outer{a:Inner, a_b:Float64}")
print("Required (C14): the source emitted for the classes compiles.")
print("Required (C15): every specialised form (cpu_serial, cpu_openmp, opencl,")
print("                cuda) is accepted by a host C compiler once the target")
print("                keywords are defined away.")

classes = sort_classes([Outer])
api = sources_from_classes(classes)
generic, _ = _concatenate_sources(api)
ndef = sum(
    1
    for ll in generic.splitlines()
    if " Outer_get_a_b(" in ll and ll.rstrip().endswith("{")
)
print(f"Observed: Outer_get_a_b is defined {ndef} times in the generated API")

defs = {
    "cpu_serial": "",
    "cpu_openmp": "",
    "opencl": "#define __global\n#define __kernel\n",
    "cuda": "#define __device__\n#define __global__\n",
}
bad = ndef != 1
for target, pre in defs.items():
    text = "#include <stdint.h>\n" + pre + specialize_source(generic, target)
    with tempfile.NamedTemporaryFile("w", suffix=".c", delete=False) as fid:
        fid.write(text)
    res = subprocess.run(
        ["gcc", "-std=c99", "-fsyntax-only", fid.name],
        capture_output=True,
        text=True,
    )
    os.unlink(fid.name)
    first = [ll for ll in res.stderr.splitlines() if "error" in ll][:1]
    print(f"  host compile of {target:10s}: rc={res.returncode} {first}")
    bad = bad or res.returncode != 0

try:
    xo.ContextCpu().add_kernels(kernels={}, extra_classes=[Outer])
    print("  ContextCpu.add_kernels(extra_classes=[Outer]): built")
except Exception as err:  # cffi.VerificationError
    print(
        "  ContextCpu.add_kernels(extra_classes=[Outer]) failed:",
        type(err).__name__,
    )
    bad = True

if bad:
    print("MISBEHAVIOUR PRESENT")
    sys.exit(1)
print("ok")
sys.exit(0)
