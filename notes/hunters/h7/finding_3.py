"""
C15 (also C14 "the emitted source compiles"): a UnionRef whose members are a
C-ordered and a Fortran-ordered array of the same item type and shape.  Both
member classes get the same generated name (the axis order is not part of the
name), so the union's enum has the same enumerator twice (and its switch the
same case label twice): no specialised form is accepted by a C compiler.
Same root cause as finding_2 (Array.mk_arrayclass name ignores the order).
"""
import os
import subprocess
import sys
import tempfile

import xobjects as xo
from xobjects.context import sort_classes, sources_from_classes
from xobjects.context import _concatenate_sources
from xobjects.specialize_source import specialize_source


class U(xo.UnionRef):
    _reftypes = [xo.Float64[2, 3], xo.Float64[2:1, 3:0]]


print("Type: UnionRef U{Float64[2,3] (C order), Float64[2:1,3:0] (F order)}")
print("  member names:", [tt.__name__ for tt in U._reftypes])
print("  member strides:", [tt._strides for tt in U._reftypes])
print("Required (C15): every specialised form of the accessor source is")
print("  accepted by a host C compiler once target keywords are defined away.")

classes = sort_classes([U])
print("Observed: classes emitted:", classes)
generic, _ = _concatenate_sources(sources_from_classes(classes))
print("  ", [ll for ll in generic.splitlines() if ll.startswith("enum")][0])

defs = {
    "cpu_serial": "",
    "cpu_openmp": "",
    "opencl": "#define __global\n#define __kernel\n",
    "cuda": "#define __device__\n#define __global__\n",
}
bad = False
for target, pre in defs.items():
    text = "#include <stdint.h>\n" + pre + specialize_source(generic, target)
    with tempfile.NamedTemporaryFile("w", suffix=".c", delete=False) as fid:
        fid.write(text)
    res = subprocess.run(
        ["gcc", "-std=c99", "-fsyntax-only", fid.name],
        capture_output=True,
        text=True,
    )
    os.unlink(fid.name)
    first = [ll for ll in res.stderr.splitlines() if "error" in ll][:1]
    print(f"  host compile of {target:10s}: rc={res.returncode} {first}")
    bad = bad or res.returncode != 0

if bad:
    print("MISBEHAVIOUR PRESENT")
    sys.exit(1)
print("ok")
sys.exit(0)
