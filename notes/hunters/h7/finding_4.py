"""
C14 (borderline: argument kind): a plain xo.Struct that declares a dependency
on a HybridClass (`_depends_on = [Hyb]`).  MetaHybridClass converts hybrid
classes in `_depends_on` to their `_XoStruct`, MetaStruct does not, and
sort_classes() silently drops the entry (the hybrid class itself has no
`_gen_c_api`): the API of the declared dependency is not emitted and the
struct's own C source, which uses it, does not compile.
"""
import sys

import xobjects as xo
from xobjects.context import sort_classes


class Hyb(xo.HybridClass):
    _xofields = {"x": xo.Float64}


class User(xo.Struct):
    k = xo.Float64
    _depends_on = [Hyb]
    _extra_c_sources = [
        "/*gpufun*/ double User_sum(User u, HybData h)"
        "{ return User_get_k(u) + HybData_get_x(h); }"
    ]


class UserH(xo.HybridClass):  # same declaration on a hybrid class: works
    _xofields = {"k": xo.Float64}
    _depends_on = [Hyb]


print("Types: HybridClass Hyb{x}; Struct User{k}, _depends_on=[Hyb],")
print("       User's C source calls HybData_get_x")
print("Required (C14): the API of every declared dependency is emitted once,")
print("  before its first use, and the emitted source compiles.")
ref = sort_classes([UserH._XoStruct])
got = sort_classes([User])
print("Observed: sort_classes([UserH._XoStruct]) =", ref, "(hybrid declarer)")
print("          sort_classes([User])           =", got, "(struct declarer)")
missing = Hyb._XoStruct not in got
built = True
try:
    xo.ContextCpu().add_kernels(kernels={}, extra_classes=[User])
except Exception as err:
    built = False
    print("  add_kernels(extra_classes=[User]) failed:", type(err).__name__)
if missing or not built:
    print("MISBEHAVIOUR PRESENT: declared dependency HybData silently dropped")
    sys.exit(1)
print("ok")
sys.exit(0)
