import numpy as np, xobjects as xo
def run(name, f):
    try: print(name, '->', f())
    except Exception as e:
        import traceback; print(name, 'EXC', type(e).__name__, e); traceback.print_exc(limit=-3)
def pf78():
    out=[]
    for A in (xo.String[2:1,3:0], xo.String[2,3], xo.String[:,:], xo.String[2:1,3:2,2:0]):
        shp = (2,3) if len(A._shape)==2 else (2,3,2)
        v=np.empty(shp,dtype=object)
        for idx in np.ndindex(*shp): v[idx]='s'+''.join(map(str,idx))*(1+sum(idx))
        b = xo.ContextCpu().new_buffer(capacity=8); b.allocate(8)
        x = A(v,_buffer=b)
        y = A._from_buffer(x._buffer,x._offset)
        ok = all(x[idx]==v[idx]==y[idx] for idx in np.ndindex(*shp))
        tab=np.frombuffer(bytes(x._buffer.to_bytearray(x._offset,x._size)),dtype='i8')
        out.append((A.__name__, ok, np.array_equal(x._offsets,y._offsets), tab[:10].tolist()))
    return out
run('PF7/8', pf78)
def pf9():
    out=[]
    for ctxbuf in ('np','ba'):
        for A,shp in ((xo.Float64[2:1,3:0],(2,3)),(xo.Float64[:,:],(2,3)),(xo.Int32[2:1,3:2,4:0],(2,3,4)),(xo.Float64[:1,:0],(2,3)),(xo.Float64[3],(3,))):
            v=np.arange(np.prod(shp)).reshape(shp)
            buf = xo.ContextCpu().new_buffer(64) if ctxbuf=='np' else xo.context_cpu.BufferByteArray(capacity=64)
            x=A(v,_buffer=buf)
            ok = all(x[idx if len(shp)>1 else idx[0]]==v[idx] for idx in np.ndindex(*shp))
            out.append((ctxbuf,A.__name__,ok, np.array_equal(x.to_nplike(),v)))
    return out
run('PF9', pf9)
class T(xo.Struct):
    v = xo.Float64
class U(xo.UnionRef):
    _reftypes = (T,)
class HU(xo.Struct):
    a = xo.Float64
    u = U
def pf13():
    b = xo.ContextCpu().new_buffer(capacity=4096)
    t = T(v=7., _buffer=b); u = U(t, _buffer=b); hu = HU(a=1, u=u, _buffer=b)
    t.v=9
    un = U(_buffer=b); hn = HU(a=1,u=un,_buffer=b)
    return hu.u.v, hu.u._offset==t._offset, hn.u
run('PF13', pf13)
class R(xo.HybridClass):
    _xofields = {'a': xo.Float64, 'b': xo.Float64}
    _rename = {'a': 'alpha'}
def pf18():
    return R(alpha=0.0,b=0.0).to_dict(), R(alpha=1.0,b=0.0).to_dict()
run('PF18', pf18)
