import numpy as np, xobjects as xo, pickle, traceback
from xobjects.context import XContext, sort_classes
def run(name, f):
    try: print(name, '->', f())
    except Exception as e: print(name, 'EXC', type(e).__name__, e)
def pf1():
    class S(xo.Struct):
        a = xo.Int64
        s = xo.String[:]
    ctx = xo.ContextCpu(); ctx.add_kernels(kernels=S._gen_kernels(), extra_classes=[S])
    x = S(a=1, s=['ab','cde','f'])
    ffi = ctx.kernels.S_getp1_s.__self__ if False else None
    k = ctx.kernels['S_getp1_s']
    p = k(obj=x, i0=1)
    return k.ffi_interface.string(p)
run('PF1', pf1)
def pf2():
    b = xo.ContextCpu().new_buffer(capacity=16); o=b.allocate(16); b.free(o,16); return b.chunks
run('PF2', pf2)
class P2(xo.Struct):
    a = xo.Float64[:]
    b = xo.Float64[:]
def pf3():
    p=P2(a=[1,2],b=[3]); q=pickle.loads(pickle.dumps(p)); q.b[0]=9; return q.a[1], q.b[0], p.b[0], q._size
run('PF3', pf3)
def pf5():
    class E(xo.Struct): pass
    class S(xo.Struct):
        e = E
    r = sort_classes([S]); ctx=xo.ContextCpu(); ctx.add_kernels(kernels={}, extra_classes=[S]); return r
run('PF5', pf5)
def pf6():
    x = xo.String[:](['a','b']); return x[-1]
run('PF6', pf6)
def pf10():
    A = xo.Float64[2:1,3:2,4:0]
    v=np.arange(24.).reshape(2,3,4)
    x = A(v.tolist()); return np.array_equal(x.to_nplike(), v)
run('PF10', pf10)
class T(xo.Struct):
    v = xo.Float64
class H(xo.Struct):
    r = xo.Ref[T]
class O(xo.Struct):
    pad = xo.Float64
    h = H
def pf12():
    b = xo.ContextCpu().new_buffer(capacity=4096)
    t = T(v=7., _buffer=b); h = H(r=t, _buffer=b); o = O(_buffer=b); o.h = h
    t.v = 8.
    return o.h.r.v
run('PF12', pf12)
def pf15():
    ctx = xo.ContextCpu()
    ctx.add_kernels(sources=["void f(double* x){ x[1]=5; }"], kernels={'f': xo.Kernel(args=[xo.Arg(xo.Float64,pointer=True,name='x')])})
    b = ctx.new_buffer(64); b.allocate(24)
    a = xo.Float64[:]([1,2,3], _buffer=b); ctx.kernels.f(x=a); return a._offset, [a[i] for i in range(3)]
run('PF15', pf15)
def pf16():
    x = xo.String[:]([10,'abc']); return x._offsets.tolist(), x._size, x[1]
run('PF16', pf16)
