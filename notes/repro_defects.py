"""Triage evidence for DESIGN.md section 5 (NOT a check, never run by MANIFEST commands).

Runs each failing input of PF1..PF18 against whatever `xobjects` is importable and prints
what is observed.  On the pinned tree every line shows the defect; on a repaired tree the
expected value.  Usage:  /venv/bin/python /verif/notes/repro_defects.py
"""
import pickle
import numpy as np
import xobjects as xo
from xobjects.context import XContext, sort_classes


def run(name, f):
    try:
        print(f"{name:5s} ->", f())
    except Exception as e:  # noqa
        print(f"{name:5s} EXC", type(e).__name__, (str(e).splitlines() or [""])[0])


class T(xo.Struct):
    v = xo.Float64


class H(xo.Struct):
    r = xo.Ref[T]


class O(xo.Struct):
    pad = xo.Float64
    h = H


class U(xo.UnionRef):
    _reftypes = (T,)


class HU(xo.Struct):
    a = xo.Float64
    u = U


class P2(xo.Struct):
    a = xo.Float64[:]
    b = xo.Float64[:]


def pf1():
    class S(xo.Struct):
        a = xo.Int64
        s = xo.String[:]

    src = S._gen_c_api().source
    i = src.find("S_getp1_s(")
    body = src[i : src.find("}", i)]
    return "overwrite" if "\n  offset=*" in body else "additive"


def pf2():
    b = xo.ContextCpu().new_buffer(capacity=16)
    o = b.allocate(16)
    b.free(o, 16)
    return b.chunks


def pf3():
    p = P2(a=[1, 2], b=[3])
    q = pickle.loads(pickle.dumps(p))
    return q.a[1], q.b[0]


class _Ctx(XContext):  # minimal concrete context using the inherited __getstate__
    def _make_buffer(self, capacity):
        return xo.context_cpu.BufferNumpy(capacity=capacity, context=self)

    def build_kernels(self, *a, **k):
        pass

    def nparray_to_context_array(self, a):
        return a

    def nparray_from_context_array(self, a):
        return a

    nplike_lib = np

    def synchronize(self):
        pass

    def zeros(self, *a, **k):
        return np.zeros(*a, **k)

    def plan_FFT(self, *a):
        pass


def pf4():
    c = _Ctx()
    pickle.dumps(c)
    return "live context keeps _buffers" if hasattr(c, "_buffers") else "live context LOST _buffers"


def pf5():
    class E(xo.Struct):
        pass

    class S(xo.Struct):
        e = E

    return sort_classes([S])


def pf6():
    return xo.String[:](["a", "b"])[-1]


def _strs(shape):
    v = np.empty(shape, dtype=object)
    for idx in np.ndindex(*shape):
        v[idx] = "s" + "".join(map(str, idx)) * (1 + sum(idx))
    return v


def pf7():
    A = xo.String[2, 3]
    x = A(_strs((2, 3)))
    y = A._from_buffer(x._buffer, x._offset)
    return y[0, 1]


def pf8():
    A = xo.String[2:1, 3:0]
    x = A(_strs((2, 3)))
    tab = np.frombuffer(bytes(x._buffer.to_bytearray(x._offset, x._size)), dtype="i8")
    return "table", tab[1:7].tolist(), "strides", x._strides


def pf9():
    x = xo.Float64[2:1, 3:0](np.arange(6.0).reshape(2, 3))
    return "x[0,1] =", x[0, 1], "(expected 1.0)"


def pf10():
    v = np.arange(24.0).reshape(2, 3, 4)
    x = xo.Float64[2:1, 3:2, 4:0](v.tolist())
    return np.array_equal(x.to_nplike(), v)


def pf11():
    A = H[:]
    b1 = xo.ContextCpu().new_buffer(capacity=1024)
    a = A([{"r": {"v": 1.0}}, {"r": {"v": 2.0}}], _buffer=b1)
    b2 = xo.ContextCpu().new_buffer(capacity=64)
    b2.allocate(40)
    c = A(a, _buffer=b2)
    return c[0].r.v, c[1].r.v, "(expected 1.0 2.0)"


def pf12():
    b = xo.ContextCpu().new_buffer(capacity=4096)
    t = T(v=7.0, _buffer=b)
    h = H(r=t, _buffer=b)
    o = O(_buffer=b)
    o.h = h
    return o.h.r.v, "(expected 7.0)"


def pf13():
    b = xo.ContextCpu().new_buffer(capacity=4096)
    t = T(v=7.0, _buffer=b)
    u = U(t, _buffer=b)
    hu = HU(a=1, u=u, _buffer=b)
    return hu.u.v, "(expected 7.0)"


def pf14():
    class S(xo.Struct):
        s = xo.String
        t = xo.String

    b = xo.ContextCpu().new_buffer(capacity=4096)
    x = S(s="ab", t="cd", _buffer=b)
    try:
        x.s = "a much longer string than the original one"
    except ValueError:
        return "refused", x.t
    return "accepted; t is now", repr(x.t)


def pf15():
    ctx = xo.ContextCpu()
    ctx.add_kernels(
        sources=["void f(double* x){ x[1]=5; }"],
        kernels={"f": xo.Kernel(args=[xo.Arg(xo.Float64, pointer=True, name="x")])},
    )
    a = xo.Float64[:]([1, 2, 3])
    ctx.kernels.f(x=a)
    return a[1]


def pf16():
    return xo.String[:]([10, "abc"])._offsets.tolist()


def pf17():
    class Inner(xo.HybridClass):
        _xofields = {"v": xo.Float64}

    class Outer(xo.HybridClass):
        _xofields = {"r": xo.Ref[Inner._XoStruct]}

    b1 = xo.ContextCpu().new_buffer(capacity=256)
    b2 = xo.ContextCpu().new_buffer(capacity=256)
    i1 = Inner(v=3.0, _buffer=b1)
    o = Outer(_buffer=b2)
    f0 = b2.get_free()
    try:
        o.r = i1
    except MemoryError:
        pass
    return "ref after refusal:", o._xobject.r, "bytes allocated:", f0 - b2.get_free()


def pf18():
    class R(xo.HybridClass):
        _xofields = {"a": xo.Float64, "b": xo.Float64}
        _rename = {"a": "alpha"}

    return R(alpha=0.0, b=0.0).to_dict()


if __name__ == "__main__":
    xo.general._print.suppress = True
    for i in range(1, 19):
        run(f"PF{i}", globals()[f"pf{i}"])
