"""Triage evidence for the known finding KF1 (C10, C03): a whole-value update of equal total size applied through a
second handle re-lays the dynamically sized parts; the older handle keeps its cached positions.
Run:  PYTHONPATH=<tree> python kf1_older_handle.py   (prints what the older handle does)"""
import numpy as np
import xobjects as xo

buf = xo.ContextCpu().new_buffer(1024)
buf.buffer[:] = 0x55


class S(xo.Struct):
    a = xo.Float64[:]
    b = xo.Float64[:]
    c = xo.Float64


s1 = S(a=[1.0], b=[1.0, 2.0, 3.0], c=5.0, _buffer=buf)
s2 = S(a=[4.0, 5.0, 6.0], b=[7.0], c=6.0, _buffer=buf)
guard = xo.Float64[4]([9.0, 9.0, 9.0, 9.0], _buffer=buf)
assert s1._size == s2._size
view = S._from_buffer(buf, s1._offset)
view._update(s2)
fresh = S._from_buffer(buf, s1._offset)
print("fresh view      b =", list(fresh.b), " position of b:", fresh._get_offset("b") - s1._offset)
try:
    print("older handle s1 b =", list(s1.b), " position of b:", s1._get_offset("b") - s1._offset)
except Exception as e:
    print("older handle s1.b raises", type(e).__name__, e)

SA = xo.String[3]
sa1 = SA(["a" * 23, "bb", "cc"], _buffer=buf)
v = SA._from_buffer(buf, sa1._offset)
v._update(["s", "t" * 23, "uu"])
print("fresh view      :", [SA._from_buffer(buf, sa1._offset)[i] for i in range(3)])
try:
    print("older handle sa1:", [sa1[i] for i in range(3)])
except Exception as e:
    print("older handle sa1 raises", type(e).__name__, e)
before = bytes(buf.buffer)
try:
    sa1[1] = "zz"  # fits the item as created and as it is now
    after = bytes(buf.buffer)
    lo, hi = sa1._offset, sa1._offset + sa1._size
    out = [i for i, (x, y) in enumerate(zip(before, after)) if x != y and not lo <= i < hi]
    print("sa1[1] = 'zz' through the older handle: bytes changed outside the array:", out[:8], " fresh view now reads", [SA._from_buffer(buf, sa1._offset)[i] for i in range(3)])
except Exception as e:
    print("sa1[1] = 'zz' raises", type(e).__name__, e)
