import numpy as np, xobjects as xo
def run(name, f):
    try: print(name, '->', f())
    except Exception as e:
        import traceback; print(name, 'EXC', type(e).__name__, e); traceback.print_exc(limit=-3)
class T(xo.Struct):
    v = xo.Float64
class H(xo.Struct):
    r = xo.Ref[T]
def pf11():
    A = H[:]
    b1 = xo.ContextCpu().new_buffer(capacity=1024)
    a = A([{'r':{'v':1.}},{'r':{'v':2.}}], _buffer=b1)
    b2 = xo.ContextCpu().new_buffer(capacity=64); b2.allocate(40)
    c = A(a, _buffer=b2)
    d = A(a, _buffer=b1)
    a[0].r.v = 5.
    return (c[0].r.v, c[1].r.v, c[0].r._buffer is b2), (d[0].r.v, d[1].r.v)
run('PF11', pf11)
class U(xo.UnionRef):
    _reftypes=(T,)
def pf11b():
    A = U[:]
    b1 = xo.ContextCpu().new_buffer(capacity=1024)
    a = A([T(v=1.,_buffer=b1), None], _buffer=b1)
    b2 = xo.ContextCpu().new_buffer(capacity=64)
    c = A(a,_buffer=b2)
    return c[0].v, c[1]
run('PF11b', pf11b)
class Inner(xo.HybridClass):
    _xofields = {'v': xo.Float64}
class Outer(xo.HybridClass):
    _xofields = {'r': xo.Ref[Inner._XoStruct]}
def pf17():
    b1 = xo.ContextCpu().new_buffer(capacity=256); b2 = xo.ContextCpu().new_buffer(capacity=256)
    i1 = Inner(v=3., _buffer=b1); o = Outer(_buffer=b2); f0=b2.get_free()
    try: o.r = i1
    except MemoryError: pass
    i2 = Inner(v=4., _buffer=b2); o.r=i2; i2.v=6
    return o._xobject.r is None or o._xobject.r.v, b2.get_free()-f0, o.r.v
run('PF17', pf17)
