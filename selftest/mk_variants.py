#!/venv/bin/python
"""Generates /verif/selftest/variants.json: textual variants of /repo/xobjects used to test the rules
both ways.  `detect` variants break a property while still importing and (checked when they were
written) passing the existing suite; `silent` variants are behaviour-preserving rewrites."""
import json
import os

V = []


def v(id, props, file, find, replace, expect="detect", rule=None, note=""):
    V.append({"id": id, "props": props, "expect": expect, "rule": rule, "note": note, "edits": [{"file": "xobjects/" + file, "find": find, "replace": replace}]})


def v2(id, props, edits, expect="detect", rule=None, note=""):
    V.append({"id": id, "props": props, "expect": expect, "rule": rule, "note": note, "edits": [{"file": "xobjects/" + f, "find": a, "replace": b} for f, a, b in edits]})


CTX = "context.py"
# ------------------------------------------------------------------ allocator (C04 / C12)
v("alloc-guard-strict", ["C12"], CTX, "if chunk.end >= newend:", "if chunk.end > newend:", rule="A4", note="exact fit skipped")
v("alloc-guard-weak", ["C04"], CTX, "if chunk.end >= newend:", "if chunk.end + 1 >= newend:", rule="A2")
v("alloc-align-rounddown", ["C04"], CTX, "return (offset + alignment - 1) & (-alignment)", "return offset & (-alignment)", rule="A0")
v("alloc-align-bias", ["C04"], CTX, "return (offset + alignment - 1) & (-alignment)", "return (offset + alignment) & (-alignment)", rule="A0")
v("alloc-no-consume", ["C04", "C12"], CTX, "                chunk.start = newend\n", "                chunk.start = offset\n", rule="A3")
v("alloc-leak-one", ["C12"], CTX, "                chunk.start = newend\n", "                chunk.start = newend + 1\n", rule="A3")
v("alloc-unaligned", ["C04"], CTX, "            offset = _align(chunk.start, alignment)", "            offset = chunk.start", rule="A1")
v("alloc-align-swapped", ["C04"], CTX, "        if align:\n            alignment = self.default_alignment\n        else:\n            alignment = 1", "        if align:\n            alignment = 1\n        else:\n            alignment = self.default_alignment", rule="A1")
v("alloc-reversed", ["C12"], CTX, "        for chunk in self.chunks:\n            offset = _align", "        for chunk in reversed(self.chunks):\n            offset = _align", rule="A5")
v("alloc-remove-nonempty", ["C12"], CTX, "                if chunk.size == 0:\n                    self.chunks.remove(chunk)", "                if chunk.size <= 8:\n                    self.chunks.remove(chunk)", rule="A3")
v("alloc-retry-other-size", ["C12", "C04"], CTX, "        return self.allocate(size, align=align)", "        return self.allocate(size, align=True)", rule="A6")
v("alloc-grow-small", ["C12", "C04"], CTX, "            self.grow(sizepa)", "            self.grow(size - 1)", rule="A6")
v("grow-copy-short", ["C04", "C08"], CTX, "dest=newbuff, dest_offset=0, source_offset=0, nbytes=oldcapacity", "dest=newbuff, dest_offset=0, source_offset=0, nbytes=oldcapacity - 1", rule="GR")
v("grow-copy-shift", ["C04", "C08"], CTX, "dest=newbuff, dest_offset=0, source_offset=0, nbytes=oldcapacity", "dest=newbuff, dest_offset=8, source_offset=0, nbytes=oldcapacity", rule="GR")
v("grow-swap-before-copy", ["C04", "C08"], CTX, "        self.copy_to_native(\n            dest=newbuff, dest_offset=0, source_offset=0, nbytes=oldcapacity\n        )\n        self.buffer = newbuff\n", "        self.buffer = newbuff\n        self.copy_to_native(\n            dest=newbuff, dest_offset=0, source_offset=0, nbytes=oldcapacity\n        )\n", rule="GR")
v("grow-newbuf-small", ["C04"], CTX, "        newbuff = self._new_buffer(newcapacity)", "        newbuff = self._new_buffer(capacity)", rule="GR")
v("grow-chunk-start", ["C04", "C12"], CTX, "            self.chunks.append(Chunk(oldcapacity, newcapacity))", "            self.chunks.append(Chunk(oldcapacity - 8, newcapacity))", rule="GR")
v("grow-capacity-first", ["C04", "C12"], CTX, "        if len(self.chunks) == 0 or self.chunks[-1].end != self.capacity:\n            self.chunks.append(Chunk(oldcapacity, newcapacity))\n        else:  # free chunk is at the end\n            self.chunks[-1].end = newcapacity\n\n        self.capacity = newcapacity\n",
  "        self.capacity = newcapacity\n        if len(self.chunks) == 0 or self.chunks[-1].end != self.capacity:\n            self.chunks.append(Chunk(oldcapacity, newcapacity))\n        else:  # free chunk is at the end\n            self.chunks[-1].end = newcapacity\n", rule="GR")
v("grow-extend-unguarded", ["C04", "C12"], CTX, "        if len(self.chunks) == 0 or self.chunks[-1].end != self.capacity:", "        if len(self.chunks) == 0:", rule="GR")
v("free-range-short", ["C04", "C12"], CTX, "        nch = Chunk(offset, offset + size)", "        nch = Chunk(offset, offset + size - 1)", rule="F1")
v("free-empty-index", ["C12"], CTX, "        if len(self.chunks) == 0 or offset > self.chunks[-1].start:", "        if offset > self.chunks[-1].start:", rule="F0")
v("free-insert-strict", ["C12", "C04"], CTX, "                if offset <= ch.start:", "                if offset < ch.start:", expect="silent", note="differs only when the freed region starts exactly at a free chunk's start, i.e. overlaps free memory (double free): outside the property; FM (all order types of a region disjoint from the free list) holds")
v("free-no-break", ["C12", "C04"], CTX, "                    self.chunks.insert(ic, nch)\n                    break", "                    self.chunks.insert(ic, nch)", rule="F1")
v("overlaps-strict", ["C12"], CTX, "return (other.end >= self.start) and (other.start <= self.end)", "return (other.end > self.start) and (other.start < self.end)", rule="F4")
v("merge-min-max", ["C12", "C04"], CTX, "        self.end = max(self.end, other.end)", "        self.end = min(self.end, other.end)", rule="F4")
v("get-free-count", ["C12"], CTX, "        return sum([ch.size for ch in self.chunks])", "        return sum([ch.end for ch in self.chunks])", rule="F4")
v("merge-skip-first", ["C12", "C04"], CTX, "        for ch in self.chunks[1:]:\n            if pch.overlaps(ch):", "        for ch in self.chunks[2:]:\n            if pch.overlaps(ch):", rule="F1")
# benign
v("alloc-benign-flip", ["C04", "C12"], CTX, "if chunk.end >= newend:", "if newend <= chunk.end:", expect="silent")
v("alloc-benign-inline", ["C04", "C12"], CTX, "            newend = offset + size\n            if chunk.end >= newend:", "            newend = size + offset\n            if not (newend > chunk.end):", expect="silent")
v("align-benign-idiom", ["C04", "C12"], CTX, "return (offset + alignment - 1) & (-alignment)", "return ((offset + alignment - 1) // alignment) * alignment", expect="silent")
v("align-benign-idiom2", ["C04"], CTX, "return (offset + alignment - 1) & (-alignment)", "return (offset + alignment - 1) & ~(alignment - 1)", expect="silent")
v("free-benign-truthy", ["C12", "C04"], CTX, "        if len(self.chunks) == 0 or offset > self.chunks[-1].start:", "        if not self.chunks or offset > self.chunks[-1].start:", expect="silent")
v2("grow-benign-rename", ["C04", "C12", "C08"], [(CTX, "        oldcapacity = self.capacity\n        newcapacity = self.capacity + capacity\n        newbuff = self._new_buffer(newcapacity)\n        self.copy_to_native(\n            dest=newbuff, dest_offset=0, source_offset=0, nbytes=oldcapacity\n        )",
  "        before = self.capacity\n        newcapacity = capacity + before\n        newbuff = self._new_buffer(newcapacity)\n        self.copy_to_native(newbuff, 0, 0, before)"), (CTX, "            self.chunks.append(Chunk(oldcapacity, newcapacity))", "            self.chunks.append(Chunk(before, newcapacity))")], expect="silent")
v2("grow-benign-rename-b", ["C04"], [(CTX, "            self.chunks.append(Chunk(oldcapacity, newcapacity))", "            self.chunks.append(Chunk(self.capacity, newcapacity))")], expect="silent")
v("overlaps-benign-flip", ["C12"], CTX, "return (other.end >= self.start) and (other.start <= self.end)", "return (self.start <= other.end) and (self.end >= other.start)", expect="silent")

# ------------------------------------------------------------------ buffers (C13)
CPU = "context_cpu.py"
v("ba-slice-short", ["C13"], CPU, "        return self.buffer[offset : offset + nbytes].copy()\n\n    def copy_to_native(self, dest, dest_offset, source_offset, nbytes):\n        \"\"\"copy data from self.buffer into dest\"\"\"\n        dest[dest_offset : dest_offset + nbytes] = self.buffer[\n            source_offset : source_offset + nbytes\n        ]\n\n    def update_from_buffer(self, offset, source):\n        \"\"\"Copy data from python buffer such as bytearray, bytes, memoryview, numpy array.data\"\"\"\n        # len() of a typed buffer (numpy array.data, array.array) counts items\n        try:\n            nbytes = memoryview(source).nbytes\n        except TypeError:  # not a buffer, e.g. a list of small integers\n            nbytes = len(source)\n        self.buffer[offset : offset + nbytes] = source\n",
  "        return self.buffer[offset : offset + nbytes - 1].copy()\n\n    def copy_to_native(self, dest, dest_offset, source_offset, nbytes):\n        \"\"\"copy data from self.buffer into dest\"\"\"\n        dest[dest_offset : dest_offset + nbytes] = self.buffer[\n            source_offset : source_offset + nbytes\n        ]\n\n    def update_from_buffer(self, offset, source):\n        \"\"\"Copy data from python buffer such as bytearray, bytes, memoryview, numpy array.data\"\"\"\n        # len() of a typed buffer (numpy array.data, array.array) counts items\n        try:\n            nbytes = memoryview(source).nbytes\n        except TypeError:  # not a buffer, e.g. a list of small integers\n            nbytes = len(source)\n        self.buffer[offset : offset + nbytes] = source\n", rule="B1")
v("np-tobytearray-view", ["C13"], CPU, "        return bytearray(self.buffer[offset : offset + nbytes])", "        return self.buffer[offset : offset + nbytes]", rule="B2")
v("np-tonative-view", ["C13"], CPU, "class BufferNumpy(XBuffer):\n    def _make_context(self):\n        return ContextCpu()\n\n    def _new_buffer(self, capacity):\n        return np.zeros(capacity, dtype=\"int8\")\n\n    def update_from_native(self, offset, source, source_offset, nbytes):\n        \"\"\"Copy data from native buffer into self.buffer starting from offset\"\"\"\n        self.buffer[offset : offset + nbytes] = source[\n            source_offset : source_offset + nbytes\n        ]\n\n    def to_native(self, offset, nbytes):\n        \"\"\"return native data with content at from offset and nbytes\"\"\"\n        return self.buffer[offset : offset + nbytes].copy()",
  "class BufferNumpy(XBuffer):\n    def _make_context(self):\n        return ContextCpu()\n\n    def _new_buffer(self, capacity):\n        return np.zeros(capacity, dtype=\"int8\")\n\n    def update_from_native(self, offset, source, source_offset, nbytes):\n        \"\"\"Copy data from native buffer into self.buffer starting from offset\"\"\"\n        self.buffer[offset : offset + nbytes] = source[\n            source_offset : source_offset + nbytes\n        ]\n\n    def to_native(self, offset, nbytes):\n        \"\"\"return native data with content at from offset and nbytes\"\"\"\n        return self.buffer[offset : offset + nbytes]", rule="B2")
v("np-nplike-copy", ["C13"], CPU, "        # dtype=np.dtype(dtype)\n        # return self.buffer[offset:].view(dtype)[:count].reshape(*shape)\n        return np.frombuffer(\n            self.buffer, dtype=dtype, count=count, offset=offset\n        ).reshape(*shape)", "        return np.frombuffer(\n            self.buffer, dtype=dtype, count=count, offset=offset\n        ).reshape(*shape).copy()", rule="B2")
v("np-nplike-no-offset", ["C13"], CPU, "        # dtype=np.dtype(dtype)\n        # return self.buffer[offset:].view(dtype)[:count].reshape(*shape)\n        return np.frombuffer(\n            self.buffer, dtype=dtype, count=count, offset=offset\n        ).reshape(*shape)", "        return np.frombuffer(\n            self.buffer, dtype=dtype, count=count, offset=0\n        ).reshape(*shape)", rule="B1")
v("np-nplike-noconvert", ["C13"], CPU, "        if dest_dtype != value.dtype:\n            value = value.astype(dtype=dest_dtype)  # make a copy\n        self.buffer[offset : offset + value.nbytes] = value.flatten().view(\n", "        self.buffer[offset : offset + value.nbytes] = value.flatten().view(\n", rule="B1")
v("xbuf-dispatch-args", ["C13", "C09"], CTX, "            data = source.to_bytearray(source_offset, nbytes)\n            self.update_from_buffer(offset, data)", "            data = source.to_bytearray(offset, nbytes)\n            self.update_from_buffer(offset, data)", rule="B3")
v("xbuf-dispatch-native", ["C13", "C09"], CTX, "                offset, source.buffer, source_offset, nbytes\n", "                offset, source.buffer, offset, nbytes\n", rule="B3")
v("scalar-read-size", ["C13", "C01"], "scalar.py", "        data = buffer.to_bytearray(offset, self._size)", "        data = buffer.to_bytearray(offset, 8)", rule="SC")
v("np-benign-rename", ["C13"], CPU, "            nbytes = len(source)\n        self.buffer[offset : offset + nbytes] = bytearray(source)", "            nbytes = len(source)\n        self.buffer[offset : nbytes + offset] = bytearray(source)", expect="silent")
v("buf-len-items", ["C13"], CPU, "        try:\n            nbytes = memoryview(source).nbytes\n        except TypeError:  # not a buffer, e.g. a list of small integers\n            nbytes = len(source)\n        self.buffer[offset : offset + nbytes] = bytearray(source)", "        nbytes = len(source)\n        self.buffer[offset : offset + nbytes] = bytearray(source)", rule="B1e", note="PF25 again")

# ------------------------------------------------------------------ guards / layout (C01 C03 C05 C06 C09 C10 C11)
ARR, STR = "array.py", "struct.py"
v("arr-copy-refs", ["C09"], ARR, "        elif isinstance(value, cls) and not cls._has_refs:  # binary copy", "        elif isinstance(value, cls):  # binary copy", rule="G1")
v("struct-update-refs", ["C09", "C10"], STR, "            and value._size == self._size\n            and not self._has_refs\n", "            and value._size == self._size\n", rule="G1")
v("struct-hasrefs-break", ["C09"], STR, "            if hasattr(ftype, \"_has_refs\") and ftype._has_refs:\n                _has_refs = True\n                break", "            if hasattr(ftype, \"_has_refs\") and ftype._has_refs:\n                _has_refs = False\n                break", rule="G1")
v("arr-hasrefs-never", ["C09"], ARR, "                data[\"_has_refs\"] = True\n            else:\n                data[\"_has_refs\"] = False", "                data[\"_has_refs\"] = False\n            else:\n                data[\"_has_refs\"] = False", rule="G1")
v("field-set-nocheck", ["C11", "C03", "C10"], STR, "                if info.size > reserved:\n                    raise ValueError(\n                        f\"{value} does not fit in field `{self.name}`\"\n                    )\n", "", rule="G2")
v("field-set-offbyone", ["C11", "C03"], STR, "                if info.size > reserved:\n                    raise ValueError(\n                        f\"{value} does not fit in field", "                if info.size > reserved + 8:\n                    raise ValueError(\n                        f\"{value} does not fit in field", rule="G2")
v("setitem-nocheck", ["C11", "C03", "C10"], ARR, "                if info.size > reserved:\n                    raise ValueError(f\"{value} does not fit in item {index}\")\n", "", rule="G2")
v("update-nocheck", ["C11", "C03"], ARR, "            if info.size > self._get_size():\n                raise ValueError(f\"{value} does not fit in {self}\")\n", "", rule="G2")
v("getitem-nobound", ["C11"], ARR, "    def __getitem__(self, index):\n        if isinstance(index, (int, np.integer)):\n            index = (index,)\n        cls = self.__class__\n        bound_check(index, self._shape)\n", "    def __getitem__(self, index):\n        if isinstance(index, (int, np.integer)):\n            index = (index,)\n        cls = self.__class__\n", rule="G3")
v("boundcheck-lower", ["C11"], ARR, "        if ii < 0 or ii >= ss:", "        if ii >= ss:", rule="G3")
v("boundcheck-upper", ["C11"], ARR, "        if ii < 0 or ii >= ss:", "        if ii < 0 or ii > ss:", rule="G3")
v("ref-cross-buffer", ["C08", "C09"], "ref.py", "            value.__class__.__name__ == self._reftype.__name__  # same type\n            and value._buffer is buffer\n", "            value.__class__.__name__ == self._reftype.__name__  # same type\n", rule="G4")
v("union-cross-buffer", ["C08", "C09"], "ref.py", "                typeid = cls._typeid_from_type(typ)\n                if xobj._buffer != buffer:\n                    xobj = typ(xobj, _buffer=buffer)\n            else:\n                raise ValueError", "                typeid = cls._typeid_from_type(typ)\n            else:\n                raise ValueError", rule="G4")
v("ref-absolute", ["C08", "C05"], "ref.py", "            refoffset = value._offset - offset\n\n", "            refoffset = value._offset\n\n", rule="R08")
v("ref-reader-abs", ["C08", "C05"], "ref.py", "            refoffset += offset  # from relative to absolute offset\n", "", rule="R08")
v("nullvalue", ["C08", "C05"], "ref.py", "NULLVALUE = -(2**63)", "NULLVALUE = -(2**62)", rule="R08")
v("union-typeid-key", ["C08"], "ref.py", "                    typ = cls._type_from_name(tname)\n                    typeid = cls._typeid_from_name(tname)", "                    typ = cls._type_from_name(tname)\n                    typeid = cls._typeid_from_name(data)", rule="R08")
v("setstate-nocache", ["C20", "C06"], STR, "        self._offsets = _offsets\n        self._size = self._get_size()\n\n    @classmethod\n    def _gen_data_paths", "        self._size = self._get_size()\n\n    @classmethod\n    def _gen_data_paths", rule="M1")
v("frombuffer-nosize", ["C06"], STR, "        self._offsets = _offsets\n        self._size = self._get_size()\n        self._post_init()", "        self._offsets = _offsets\n        self._post_init()", rule="M1")
v("arr-init-nostrides", ["C06"], ARR, "            self._dshape = info.dshape\n            self._strides = info.strides\n", "            self._dshape = info.dshape\n", rule="M1")
v("arr-view-flat-offsets", ["C06"], ARR, "                .reshape([shape[io] for io in order])\n                .transpose([order.index(ii) for ii in range(len(order))])\n", "", rule="M2")
v("plan-noslot", ["C05", "C03", "C01"], ARR, "                    offset += _to_slot_size(extra[idx].size)", "                    offset += extra[idx].size", rule="L3")
v("struct-plan-noslot", ["C05", "C03", "C01"], STR, "                            offset += _to_slot_size(finfo.size)", "                            offset += finfo.size", rule="L3")
v("slot-roundown", ["C05", "C03"], "typeutils.py", "    return (size + 7) & (-8)", "    return size & (-8)", rule="A0")
v("offsets-index-order", ["C05", "C01"], ARR, "                np.ascontiguousarray(info.offsets.transpose(info.order)),", "                np.ascontiguousarray(info.offsets),", rule="L4")
v("bulk-index-order", ["C01"], ARR, "            if list(info.order) != list(range(len(info.shape))):\n                # not C order: store the data in memory order\n                value = value.transpose(info.order).copy()\n", "", rule="L4")
v("tonplike-order", ["C01"], ARR, "            ).transpose([self._order.index(ii) for ii in range(len(shape))])\n            # (numpy normalises the strides of arrays without elements)\n            assert arr.size == 0 or arr.strides == self._strides\n            return arr\n        else:\n            raise NotImplementedError\n\n    def to_nparray", "            ).transpose(self._order)\n            # (numpy normalises the strides of arrays without elements)\n            assert arr.size == 0 or arr.strides == self._strides\n            return arr\n        else:\n            raise NotImplementedError\n\n    def to_nparray", rule="L4")
v("strides-wrong-perm", ["C01", "C05", "C02"], ARR, "    return tuple(cstrides[order.index(ii)] for ii in range(len(order)))", "    return tuple(cstrides[order[ii]] for ii in range(len(order)))", rule="L1")
v("header-dims-after-strides", ["C05", "C01", "C06"], ARR, "            for ii, nd in enumerate(cls._shape):\n                if nd is None:\n                    header.append(info.shape[ii])\n            if len(cls._shape) > 1:\n                header.extend(info.strides)", "            if len(cls._shape) > 1:\n                header.extend(info.strides)\n            for ii, nd in enumerate(cls._shape):\n                if nd is None:\n                    header.append(info.shape[ii])", rule="L1")
v("struct-first-dyn-word", ["C05", "C01", "C06"], STR, "                for field in d_fields[1:]:\n                    field.offset = offset\n                    field.is_reference = True", "                for field in d_fields[:-1]:\n                    field.offset = offset\n                    field.is_reference = True", rule="L2")
v("string-noterm", ["C05", "C01", "C03"], "string.py", "                size = _to_slot_size(len(data) + 1 + 8)", "                size = _to_slot_size(len(data) + 8)", rule="L6")
v("string-len-chars", ["C05", "C01", "C03"], "string.py", "                size = _to_slot_size(len(data) + 1 + 8)", "                size = _to_slot_size(len(string_or_int) + 1 + 8)", rule="L6")
v("getitem-locator-drift", ["C10", "C06"], ARR, "    def __setitem__(self, index, value):\n        if isinstance(index, (int, np.integer)):\n            index = (index,)\n        cls = self.__class__\n        if hasattr(cls._itemtype, \"_update\"):\n            self[index]._update(value)\n        else:\n            bound_check(index, self._shape)\n            if hasattr(self, \"_offsets\"):\n                offset = self._offset + self._offsets[index]\n            else:\n                offset = (\n                    self._offset\n                    + cls._data_offset\n",
  "    def __setitem__(self, index, value):\n        if isinstance(index, (int, np.integer)):\n            index = (index,)\n        cls = self.__class__\n        if hasattr(cls._itemtype, \"_update\"):\n            self[index]._update(value)\n        else:\n            bound_check(index, self._shape)\n            if hasattr(self, \"_offsets\"):\n                offset = self._offset + self._offsets[index]\n            else:\n                offset = (\n                    self._offset\n", rule="R10")
v("alloc-other-context", ["C11"], "typeutils.py", "    elif buffer.context is not context and context is not None:\n        raise ValueError(\n            f\"Mismatched buffer ({buffer}) and context ({context})\"\n        )\n", "", rule="R11")
v("update-shape-check", ["C11"], ARR, "            if tuple(info.shape) != tuple(self._shape):\n                raise ValueError(\n                    f\"shape {info.shape} is incompatible with {self}\"\n                )\n", "", rule="R11")
v("tobuffer-raise-late", ["C11"], ARR, "        if (\n            isinstance(value, cls)\n            and not cls._has_refs\n            and value._size != info.size\n        ):  # refuse before anything is written\n            raise ValueError(f\"Value {value} not compatible size\")\n        header = []\n        coffset = offset\n        if cls._size is None:\n            header.append(info.size)", "        header = []\n        coffset = offset\n        if cls._size is None:\n            header.append(info.size)\n        if len(header) > 0:\n            Int64._array_to_buffer(buffer, coffset, np.array(header, dtype=\"i8\"))\n            header = []\n            coffset += 8\n        if (\n            isinstance(value, cls)\n            and not cls._has_refs\n            and value._size != info.size\n        ):\n            raise ValueError(f\"Value {value} not compatible size\")", expect="silent", note="re-labelled: the only word written before the refusal is the size word, with the value the object already has (info.size = self._get_size() on the only path where the sizes can differ) -- no observable side effect; the pattern rule G5 flagged the shape, the evaluated deciders (SV refusal operations with frame check) find nothing changed")
# benign
v("g1-benign-early", ["C09", "C10"], STR, "        if isinstance(value, cls) and not cls._has_refs:  # binary copy\n            buffer.update_from_xbuffer(\n                offset, value._buffer, value._offset, value._size\n            )\n        else:", "        if cls._has_refs is False and isinstance(value, cls):  # binary copy\n            buffer.update_from_xbuffer(\n                offset, value._buffer, value._offset, value._size\n            )\n        else:", expect="silent")
v("g2-benign-flip", ["C11", "C03", "C10"], STR, "                if info.size > reserved:\n                    raise ValueError(\n                        f\"{value} does not fit in field", "                if reserved < info.size:\n                    raise ValueError(\n                        f\"{value} does not fit in field", expect="silent")
v("l3-benign-temp", ["C05", "C03", "C01"], ARR, "                    offset += _to_slot_size(extra[idx].size)", "                    offset = offset + _to_slot_size(extra[idx].size)", expect="silent")
v("bulk-benign-always-transpose", ["C01", "C05"], ARR, "            if list(info.order) != list(range(len(info.shape))):\n                # not C order: store the data in memory order\n                value = value.transpose(info.order).copy()\n", "            value = value.transpose(info.order).copy()\n", expect="silent")

# ------------------------------------------------------------------ capi (C02 C07 C15)
CAPI = "capi.py"
v("capi-overwrite", ["C02", "C07"], CAPI, "        out.append(f\"  offset+={int_from_obj(lookup_field_offset, conf)};\")", "        out.append(f\"  offset={int_from_obj(lookup_field_offset, conf)};\")", rule="T1")
v("capi-stride-pos", ["C02", "C07"], CAPI, "            stride_offset = 8 + (len(cls._dshape_idx) * 8) + (ii * 8)", "            stride_offset = 8 + (len(cls._shape) * 8) + (ii * 8)", rule="T1")
v("capi-stride-nobase", ["C02", "C07"], CAPI, "            svalue = int_from_obj(f\"offset+{stride_offset}\", conf)", "            svalue = int_from_obj(f\"{stride_offset}\", conf)", rule="T1")
v("capi-field-ref-nobase", ["C02", "C07"], CAPI, "        doffset = f\"offset+{self.offset}\"  # starts of data", "        doffset = f\"{self.offset}\"  # starts of data", rule="T1")
v("capi-len-index", ["C02"], CAPI, "        dim_len_idx = 1\n        terms = []", "        dim_len_idx = 0\n        terms = []", rule="T1")
v("capi-typeid-word", ["C02"], CAPI, "    lst.append(\"  offset+=8;\")\n    lst.append(f\"  return {pointed};\")", "    lst.append(\"  offset+=0;\")\n    lst.append(f\"  return {pointed};\")", rule="T3z")
v("capi-set-other-arg", ["C07"], CAPI, "    pointed = gen_c_pointed(valarg, conf)\n    lst.append(f\"  {pointed}=value;\")", "    pointed = gen_c_pointed(Arg(Int8, name=\"value\"), conf)\n    lst.append(f\"  {pointed}=value;\")", rule="R07")
v("capi-bytewise-all", ["C07", "C02"], CAPI, "        if size == 1:\n            return f\"*(({rettype}) obj+offset)\"", "        if size <= 2:\n            return f\"*(({rettype}) obj+offset)\"", rule="T3z")
v("capi-no-gpumem", ["C15"], CAPI, "    inttype = gen_pointer(conf.get(\"inttype\", \"int64_t\") + \"*\", conf)\n    chartype = gen_pointer(conf.get(\"chartype\", \"char\") + \"*\", conf)\n    return f\"*({inttype})(({chartype}) obj+{offset})\"", "    inttype = conf.get(\"inttype\", \"int64_t\") + \"*\"\n    chartype = gen_pointer(conf.get(\"chartype\", \"char\") + \"*\", conf)\n    return f\"*({inttype})(({chartype}) obj+{offset})\"", rule="T6")
v("capi-no-gpufun", ["C15"], CAPI, "        return f\"{gpufun} {ret} {kernel.c_name}({args})\"", "        return f\"{ret} {kernel.c_name}({args})\"", rule="T6")
v("capi-guard-name", ["C14"], CAPI, "    sources.append(f\"#define XOBJ_TYPEDEF_{typename}\")", "    sources.append(f\"#define XOBJ_TYPEDEF_{typename}_\")", rule="T6")
v("scalar-ctype", ["C02", "C07", "C17"], "scalar.py", "UInt32 = NumpyScalar(\"uint32\", \"uint32_t\")", "UInt32 = NumpyScalar(\"uint32\", \"int32_t\")", rule="T5")
v("capi-benign-aug", ["C02", "C07"], CAPI, "        out.append(f\"  offset+={soffset};\")\n    else:", "        out.append(f\"  offset=offset+{soffset};\")\n    else:", expect="silent")

# ------------------------------------------------------------------ specialiser / kernels (C15 C16 C17)
SP = "specialize_source.py"
v("spec-cuda-guard", ["C16"], SP, "f\"if ({varname}<{limname})\" + \"{\"", "f\"if ({varname}<={limname})\" + \"{\"", rule="S1")
v("spec-cpu-start", ["C16"], SP, "f\"for (int {varname}=0; {varname}<{limname}; {varname}++)\"", "f\"for (int {varname}=1; {varname}<{limname}; {varname}++)\"", rule="S1")
v("spec-opencl-local", ["C15"], SP, "            \"opencl\": \" __global \",", "            \"opencl\": \" __local \",", rule="S1")
v("spec-only-polarity", ["C16"], SP, "                if specialize_for not in temp_contexts:\n                    ll = \"//\" + ll", "                if specialize_for in temp_contexts:\n                    ll = \"//\" + ll", rule="S1")
v("spec-cuda-brace", ["C16"], SP, "            elif specialize_for == \"cuda\":\n                new_lines.append(\"}//end autovectorized\\n\")", "            elif specialize_for == \"cuda\":\n                new_lines.append(\"//end autovectorized\\n\")", rule="S1")
v("spec-include-any", ["C16"], SP, "            if specialize_for in temp_contexts:\n                for fold in", "            if True:\n                for fold in", rule="S1")
v("cuda-header-width", ["C15"], "context_cupy.py", "typedef signed long long   int64_t;  //only_for_context cuda", "typedef signed long        int64_t;  //only_for_context cuda", rule="S10")
v("cupy-grid-floor", ["C16"], "context_cupy.py", "        grid_size = int(np.ceil(n_threads / self.block_size))", "        grid_size = int(n_threads / self.block_size)", rule="K6")
v("opencl-global-size", ["C16"], "context_pyopencl.py", "            self.context.queue, (n_threads,), None, *arg_list", "            self.context.queue, (n_threads - 1,), None, *arg_list", rule="K6")
v("kernel-no-offset", ["C17"], CPU, "                ptr = buf.ctypes.data + value._offset", "                ptr = buf.ctypes.data", rule="K1")
v("kernel-array-start", ["C17"], CPU, "                                value._offset + value._data_offset :", "                                value._offset :", rule="K1")
v("kernel-nd-type", ["C17"], CPU, "                        dtype2ctype(value.dtype) + \"*\",", "                        arg.atype._c_type + \"*\",", rule="K1")
v("kernel-arity", ["C17"], CPU, "        assert len(kwargs.keys()) == self.num_args\n        arg_list = []\n        for arg in self.description.args:\n            vv = kwargs[arg.name]\n            arg_list.append(self.to_function_arg(arg, vv))\n\n        if self.context.openmp_enabled:", "        arg_list = []\n        for arg in self.description.args:\n            vv = kwargs[arg.name]\n            arg_list.append(self.to_function_arg(arg, vv))\n\n        if self.context.openmp_enabled:", rule="K4")
v("kernel-positional", ["C17"], CTX, "        if args:\n            raise ValueError(\n                \"Kernels can only be called with named arguments.\"\n            )\n", "", rule="K4")
v("dtype-dict", ["C17"], CPU, "    \"uint16\": \"uint16_t\",", "    \"uint16\": \"int16_t\",", rule="T5")
v("grid-benign-idiom", ["C16"], "context_cupy.py", "        grid_size = int(np.ceil(n_threads / self.block_size))", "        grid_size = (n_threads + self.block_size - 1) // self.block_size", expect="silent")

# ------------------------------------------------------------------ deps (C14)
v("topo-dup", ["C14"], CTX, "            if num_parents[item] == 0 and item not in source\n", "            if num_parents[item] == 0\n", rule="D4")
v("topo-cycle-ignored", ["C14"], CTX, "    if has_cycle:\n        raise ValueError(\"Class dependencies have cycles\")\n", "", rule="D1")
v("deps-no-dependson", ["C14"], CTX, "        if hasattr(cls, \"_depends_on\"):\n            cls_deps.extend(cls._depends_on)\n", "", rule="D2")
v("deps-edge-new-only", ["C14"], CTX, "                classes.append(local_dep)\n            cls_dep_names.append(local_dep.__name__)", "                classes.append(local_dep)\n                cls_dep_names.append(local_dep.__name__)", rule="D2")
v("struct-inner-static-only", ["C14"], STR, "        return [fl.ftype for fl in cls._fields]", "        return [fl.ftype for fl in cls._d_fields]", rule="D2")
v("sources-order", ["C14"], CPU, "        sources = headers + cls_sources + sources\n        source, folders = _concatenate_sources(sources, apply_to_source)\n\n        if specialize:\n            if self.openmp_enabled:", "        sources = headers + sources + cls_sources\n        source, folders = _concatenate_sources(sources, apply_to_source)\n\n        if specialize:\n            if self.openmp_enabled:", rule="D5")

# ------------------------------------------------------------------ hybrid / json / pickle (C18 C19 C20)
HY = "hybrid_class.py"
v("hy-movable", ["C18"], HY, "            dressed_new._movable = False\n", "", rule="H2")
REDRESS = "            dressed_new._reinit_from_xobject(\n                _xobject=getattr(container._xobject, self.name)\n            )\n"
v("hy-restore-xobject", ["C18"], HY, REDRESS, "", rule="H2", note="neither _xobject nor the nested parts are restored after the __dict__ copy")
v("hy-restore-xobject-only", ["C18"], HY, REDRESS, "            dressed_new._xobject = getattr(container._xobject, self.name)\n", rule="H6", note="PF22 twin: nested dressed parts keep viewing the assigned object")
v("hy-reinit-copy-all-but-xobject", ["C18"], HY, "                        if kk not in vv.__dict__.keys():\n", "                        if kk != \"_xobject\":\n", expect="silent", note="seeded C18-a in one line: harmless since the PF22/PF23 repairs (the assignment that follows re-dresses and re-validates the copy)")
v("hy-benign-skip-bound", ["C18"], HY, "                        if kk not in vv.__dict__.keys():\n", "                        if kk not in vv.__dict__:\n", expect="silent")

v("hy-move-refs", ["C18"], HY, "        if self._xobject._has_refs and not self._force_moveable:", "        if self._xobject._has_refs and self._force_moveable:", rule="H1")
v("hy-raise-late", ["C18"], HY, "            if (\n                isinstance(getattr(container._XoStruct, self.name).ftype, Ref)\n                and value._buffer is not container._buffer\n            ):\n                raise MemoryError(\n                    \"Cannot make a reference to an object in \"\n                    \"a different buffer.\"\n                )\n", "", rule=None)
v("hy-reinit-name", ["C18"], HY, "                pyname = self._rename.get(ff.name, ff.name)\n                setattr(self, pyname, vv)", "                setattr(self, ff.name, vv)", rule="H4")
v("hy-todict-key", ["C19", "C18"], HY, "                defaults.get(obj._inverse_rename.get(ff, ff)), vv\n", "                defaults.get(ff), vv\n", rule=None)
v("hy-todict-polarity", ["C19"], HY, "            elif not _is_default(\n", "            elif _is_default(\n", rule="JD")
v("hy-xoinit-name", ["C19", "C18"], HY, "            xo_name = cls._inverse_rename.get(kk, kk)\n", "            xo_name = kk\n", rule=None)
v("hy-nested-dict-names", ["C19"], HY, "                vv = ftype._DressingClass._dict_with_xo_names(vv)\n", "                pass\n", rule="JD", note="PF24 again: nested dictionary handed over with python-side names")
v("getstate-alias", ["C20"], CTX, "        state = self.__dict__.copy()\n        del state[\"_buffers\"]", "        state = self.__dict__\n        del state[\"_buffers\"]", rule="P1")
v("getstate-order", ["C20"], STR, "        return self._buffer, self._offset\n", "        return self._offset, self._buffer\n", rule="P1")
v("ctx-setstate-nobuffers", ["C20"], CPU, "    def __setstate__(self, state):\n        self.__dict__.update(state)\n        self._buffers = weakref.WeakSet()\n\n\nclass BufferByteArray", "    def __setstate__(self, state):\n        self.__dict__.update(state)\n\n\nclass BufferByteArray", rule="P1")
v("todict-benign-all", ["C19", "C18"], HY, "    return default.shape == value.shape and bool(np.all(default == value))", "    return default.shape == value.shape and not np.any(default != value)", expect="silent")
v("todict-noshape", ["C19"], HY, "    return default.shape == value.shape and bool(np.all(default == value))", "    return bool(np.all(default == value))", rule="JD", note="PF29 again: arrays compared by broadcasting")
v("todict-none-default", ["C19"], HY, "    if default is None:\n        return False\n", "    if default is None:\n        return True\n", rule="JD", note="a field without a default that can be built is left out")

# ---- order-type model of free() (FM): other shapes of the merge pass, decided as a whole
MERGE = "        pch = self.chunks[0]\n        newchunks = [pch]\n        for ch in self.chunks[1:]:\n            if pch.overlaps(ch):\n                pch.merge(ch)\n            else:\n                newchunks.append(ch)\n                pch = ch\n        self.chunks = newchunks\n"
v("merge-benign-lastelem", ["C12", "C04"], CTX, MERGE, "        merged = self.chunks[:1]\n        for ch in self.chunks[1:]:\n            if merged[-1].overlaps(ch):\n                merged[-1].merge(ch)\n            else:\n                merged.append(ch)\n        self.chunks = merged\n", expect="silent", note="same algorithm, predecessor = last kept element")
v("merge-pairwise-old-list", ["C12", "C04"], CTX, MERGE, "        newchunks = self.chunks[:1]\n        for pch, ch in zip(self.chunks, self.chunks[1:]):\n            if pch.overlaps(ch):\n                pch.merge(ch)\n            else:\n                newchunks.append(ch)\n        self.chunks = newchunks\n", rule="FM", note="predecessor taken from the old list: a chunk merged into an absorbed chunk is lost")
v("merge-no-pass", ["C12"], CTX, MERGE, "        pass\n", rule="FM", note="no coalescing at all")
v("merge-first-only", ["C12"], CTX, "                newchunks.append(ch)\n                pch = ch\n", "                newchunks.append(ch)\n", rule="FM", note="predecessor never advances: only merges into the first chunk")
v("free-insert-after", ["C12", "C04"], CTX, "                    self.chunks.insert(ic, nch)\n                    break", "                    self.chunks.insert(ic + 1, nch)\n                    break", rule=None, note="list no longer sorted")
v("free-benign-bisect", ["C12", "C04"], CTX, "            for ic, ch in enumerate(self.chunks):\n                if offset <= ch.start:\n                    self.chunks.insert(ic, nch)\n                    break", "            ic = 0\n            for ch in self.chunks:\n                if ch.start < offset:\n                    ic += 1\n            self.chunks.insert(ic, nch)", expect="silent", note="insertion index computed by counting")
# ---- shared handle caches (M3)
v("update-inplace-cache", ["C09", "C10"], STR, "            self._offsets = {\n                field.index: Int64._from_buffer(\n                    self._buffer, self._offset + field.offset\n                )\n                for field in self._d_fields\n            }", "            for field in self._d_fields:\n                self._offsets[field.index] = Int64._from_buffer(\n                    self._buffer, self._offset + field.offset\n                )", rule="M3", note="PF21 twin: in-place edit of a dict shared with the source of a copy")
v("update-benign-rebind-loop", ["C09", "C10", "C06"], STR, "            self._offsets = {\n                field.index: Int64._from_buffer(\n                    self._buffer, self._offset + field.offset\n                )\n                for field in self._d_fields\n            }", "            fresh = {}\n            for field in self._d_fields:\n                fresh[field.index] = Int64._from_buffer(\n                    self._buffer, self._offset + field.offset\n                )\n            self._offsets = fresh", expect="silent", note="rebinding through a local dict")

# ------------------------------------------------------------------ defective twins of PF51-PF57 (the repair undone on HEAD)
v("undo-PF51-string-slot-size", ["C10", "C06"], "string.py",
  "            # only the characters: the slot keeps the size it was given\n            nchars = value._size - 8\n            buffer.update_from_xbuffer(\n                offset + 8, value._buffer, value._offset + 8, nchars\n            )\n            if string_capacity > nchars:\n                buffer.update_from_buffer(\n                    offset + 8 + nchars,\n                    b\"\\x00\" * (string_capacity - nchars),\n                )\n",
  "            buffer.update_from_xbuffer(\n                offset, value._buffer, value._offset, value._size\n            )\n", rule="SV.str-item-from-object")
v("undo-PF52-struct-update-restore", ["C11", "C10"], STR,
  "            except Exception:\n                self._buffer.update_from_buffer(self._offset, saved)\n                raise\n",
  "            except Exception:\n                raise\n", rule="SV.update-dict-refused-late")
v("undo-PF52-array-update-restore", ["C11", "C10"], ARR,
  "            except Exception:\n                self._buffer.update_from_buffer(self._offset, saved)\n                raise\n",
  "            except Exception:\n                raise\n", rule="SV.array-update-refused-late")
v("restore-wrong-place", ["C11"], STR,
  "                self._buffer.update_from_buffer(self._offset, saved)\n                raise\n",
  "                self._buffer.update_from_buffer(self._offset + 8, saved)\n                raise\n", rule="SV.update-dict-refused-late")
v("undo-PF53-copy-spare-room", ["C09"], ARR,
  "                if isinstance(value, cls) and not cls._has_refs:\n                    # copied as it is: its items may have room to spare\n                    offsets[...] = value._offsets\n                    offset = value._size\n                else:\n                    for idx in iter_index(shape, order):\n                        extra[idx] = cls._itemtype._inspect_args(\n                            items_of[idx]\n                        )\n                        offsets[idx] = offset\n                        offset += _to_slot_size(extra[idx].size)\n",
  "                for idx in iter_index(shape, order):\n                    extra[idx] = cls._itemtype._inspect_args(items_of[idx])\n                    offsets[idx] = offset\n                    offset += _to_slot_size(extra[idx].size)\n", rule="SV.str-copy")
v("undo-PF54-order-string", ["C01"], ARR,
  "                data[\"_dshape_idx\"] = dshape\n                data[\"_order\"] = mk_order(data[\"_order\"], _shape)\n",
  "                data[\"_dshape_idx\"] = dshape\n", rule="L1.eval")
v("undo-PF55-ctor-struct-name", ["C18"], HY,
  "                dressed_kwargs[self._rename.get(kk, kk)] = vv\n", "                dressed_kwargs[kk] = vv\n", rule="HX.ctor-struct-name")
v("undo-PF56-ref-dict-names", ["C19"], HY,
  "            ftype = getattr(ftype, \"_reftype\", ftype)\n", "", rule="HX.ref-dict-renamed")
v("undo-PF57-field-copy", ["C18", "C19"], STR,
  "                data[aname] = copy(field)\n", "                data[aname] = field\n", rule="HX.field-table-reuse")

out = os.path.join(os.path.dirname(os.path.abspath(__file__)), "variants.json")
ids = [x["id"] for x in V]
assert len(ids) == len(set(ids)), "duplicate variant ids"
json.dump(V, open(out, "w"), indent=1)
print(len(V), "variants,", sum(1 for x in V if x["expect"] == "detect"), "breaking,", sum(1 for x in V if x["expect"] == "silent"), "benign")
