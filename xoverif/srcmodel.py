"""Source model: parse every xobjects/*.py of the analysed tree with the stdlib ``ast``.

Nothing under the analysed tree is imported or executed.  Anchors are addressed by
qualified name (``array::Array._to_buffer``); a missing anchor raises AnalysisError
(exit 2), never a silent pass.
"""
import ast
import hashlib
import os


class AnalysisError(Exception):
    """An anchor vanished / a construct has a shape none of the enumerated idioms covers."""


_POLY = {}


def _polymorphic_methods(pkgdir):
    """names of methods that MORE THAN ONE class of the package defines: a call `self.m(..)` of such a method may reach
    another class's definition (an override), so replacing the call by one body is not behaviour-preserving"""
    if pkgdir not in _POLY:
        count = {}
        try:
            files = sorted(f for f in os.listdir(pkgdir) if f.endswith(".py"))
        except OSError:
            files = []
        for f in files:
            try:
                t = ast.parse(open(os.path.join(pkgdir, f), encoding="utf8").read())
            except (OSError, SyntaxError):
                continue
            for c in ast.walk(t):
                if isinstance(c, ast.ClassDef):
                    for st in c.body:
                        if isinstance(st, (ast.FunctionDef, ast.AsyncFunctionDef)):
                            count.setdefault(st.name, set()).add((f, c.name))
        _POLY[pkgdir] = {n for n, cs in count.items() if len(cs) > 1}
    return _POLY[pkgdir]


class ModInfo:
    def __init__(self, name, path, relpath, source):
        self.name = name
        self.path = path
        self.relpath = relpath
        self.source = source
        self.raw_tree = ast.parse(source, filename=path)
        _annotate(self.raw_tree, name)
        self._tree = None
        self.normalised = []

    @property
    def tree(self):
        """the tree the matching rules see: normalised towards the reference shape (xoverif/normalize.py), lazily;
        the partial evaluator interprets raw_tree"""
        if self._tree is None:
            from .normalize import normalize_tree

            t, log = normalize_tree(self.raw_tree, self.name, polymorphic=_polymorphic_methods(os.path.dirname(self.path)))
            if log:
                _annotate(t, self.name)
                self._tree, self.normalised = t, log
            else:
                self._tree = self.raw_tree
        return self._tree


def _annotate(tree, name):
    for node in ast.walk(tree):
        for child in ast.iter_child_nodes(node):
            child.parent = node
    tree.parent = None
    for node in ast.walk(tree):
        node.modname = name


def norm(node):
    """Normalised text of a node (position independent)."""
    if node is None:
        return "None"
    if isinstance(node, str):
        return node
    try:
        return ast.unparse(node)
    except Exception:  # pragma: no cover
        return ast.dump(node)


def short(node, n=110):
    s = " ".join(norm(node).split())
    return s if len(s) <= n else s[: n - 3] + "..."


class Model:
    def __init__(self, root):
        self.root = os.path.abspath(root)
        self.pkg = os.path.join(self.root, "xobjects")
        if not os.path.isdir(self.pkg):
            raise AnalysisError(f"no xobjects package under {self.root}")
        self.mods = {}
        self.consulted = set()
        for fn in sorted(os.listdir(self.pkg)):
            if fn.endswith(".py"):
                p = os.path.join(self.pkg, fn)
                with open(p, encoding="utf8") as fh:
                    src = fh.read()
                name = fn[:-3]
                try:
                    self.mods[name] = ModInfo(name, p, "xobjects/" + fn, src)
                except SyntaxError as e:
                    raise AnalysisError(f"cannot parse {p}: {e}")

    # ---------------------------------------------------------------- lookup
    def mod(self, name):
        if name not in self.mods:
            raise AnalysisError(f"anchor module xobjects/{name}.py not found")
        self.consulted.add(name)
        return self.mods[name]

    def _find_in(self, body, name, kinds):
        out = []
        for st in body:
            if isinstance(st, kinds) and st.name == name:
                out.append(st)
            elif isinstance(st, (ast.If, ast.Try, ast.With, ast.For, ast.While)):
                for fld in ("body", "orelse", "finalbody"):
                    out.extend(self._find_in(getattr(st, fld, []) or [], name, kinds))
                for h in getattr(st, "handlers", []) or []:
                    out.extend(self._find_in(h.body, name, kinds))
        return out

    def lookup_all(self, spec):
        """spec = 'mod::A.b.c' ; returns list of matching def/class nodes (nested defs too)."""
        modname, _, qual = spec.partition("::")
        m = self.mod(modname)
        cur = [m.tree]
        for part in qual.split("."):
            nxt = []
            for node in cur:
                nxt.extend(
                    self._find_in(
                        node.body, part, (ast.FunctionDef, ast.ClassDef, ast.AsyncFunctionDef)
                    )
                )
            cur = nxt
        return cur

    def lookup(self, spec, pick=None, optional=False):
        c = self.lookup_all(spec)
        if pick is not None:
            c = [x for x in c if pick(x)]
        if not c:
            if optional:
                return None
            raise AnalysisError(f"anchor {spec} not found")
        if len(c) > 1:
            raise AnalysisError(f"anchor {spec} is ambiguous ({len(c)} definitions)")
        return c[0]

    func = lookup

    def cls(self, spec, optional=False):
        n = self.lookup(spec, optional=optional)
        if n is not None and not isinstance(n, ast.ClassDef):
            raise AnalysisError(f"anchor {spec} is not a class")
        return n

    def methods(self, clsnode):
        return {n.name: n for n in clsnode.body if isinstance(n, ast.FunctionDef)}

    def module_assign(self, modname, name, optional=False):
        """value expression of a module-level `name = ...`"""
        m = self.mod(modname)
        found = None
        for st in ast.walk(m.tree):
            if isinstance(st, ast.Assign) and getattr(st, "parent", None) is not None:
                # module level, possibly under if/try
                p = st
                top = True
                while p.parent is not None:
                    p = p.parent
                    if isinstance(p, (ast.FunctionDef, ast.ClassDef, ast.Lambda)):
                        top = False
                        break
                if not top:
                    continue
                for t in st.targets:
                    if isinstance(t, ast.Name) and t.id == name:
                        found = st.value
            elif isinstance(st, ast.AnnAssign) and isinstance(st.target, ast.Name):
                if st.target.id == name and st.value is not None:
                    p = st
                    top = True
                    while getattr(p, "parent", None) is not None:
                        p = p.parent
                        if isinstance(p, (ast.FunctionDef, ast.ClassDef, ast.Lambda)):
                            top = False
                            break
                    if top:
                        found = st.value
        if found is None and not optional:
            raise AnalysisError(f"anchor {modname}::{name} (module constant) not found")
        return found

    # ---------------------------------------------------------------- positions
    def loc(self, node):
        m = self.mods[node.modname]
        return f"{m.relpath}:{getattr(node, 'lineno', 0)}"

    def qualname(self, node):
        parts = []
        p = node
        while p is not None:
            if isinstance(p, (ast.FunctionDef, ast.ClassDef, ast.AsyncFunctionDef)):
                parts.append(p.name)
            p = getattr(p, "parent", None)
        return f"{node.modname}::" + ".".join(reversed(parts))

    def enclosing_func(self, node):
        p = getattr(node, "parent", None)
        while p is not None and not isinstance(p, (ast.FunctionDef, ast.AsyncFunctionDef)):
            p = getattr(p, "parent", None)
        return p

    def digest(self):
        h = hashlib.sha256()
        for name in sorted(self.consulted):
            h.update(name.encode())
            h.update(self.mods[name].source.encode())
        return h.hexdigest()[:16]

    def read_doc(self, rel):
        p = os.path.join(self.root, rel)
        if not os.path.isfile(p):
            raise AnalysisError(f"spec document {rel} not found")
        with open(p, encoding="utf8") as fh:
            return fh.read()

    def all_functions(self, modname):
        m = self.mod(modname)
        return [n for n in ast.walk(m.tree) if isinstance(n, ast.FunctionDef)]

    def all_classes(self, modname):
        m = self.mod(modname)
        return [n for n in ast.walk(m.tree) if isinstance(n, ast.ClassDef)]


# ------------------------------------------------------------------ small ast helpers
def calls_in(node, fname=None, attr=None):
    """all Call nodes under node; filter by plain function name or attribute name"""
    out = []
    for n in ast.walk(node):
        if isinstance(n, ast.Call):
            f = n.func
            if fname is not None:
                if isinstance(f, ast.Name) and f.id == fname:
                    out.append(n)
            elif attr is not None:
                if isinstance(f, ast.Attribute) and f.attr == attr:
                    out.append(n)
            else:
                out.append(n)
    return out


def call_name(call):
    f = call.func
    if isinstance(f, ast.Name):
        return f.id
    if isinstance(f, ast.Attribute):
        return f.attr
    return None


def own_nodes(func):
    """walk a function body without descending into nested defs / lambdas / classes"""
    stack = list(func.body)
    while stack:
        n = stack.pop()
        yield n
        for c in ast.iter_child_nodes(n):
            if isinstance(c, (ast.FunctionDef, ast.AsyncFunctionDef, ast.ClassDef, ast.Lambda)):
                continue
            stack.append(c)


def stmt_of(node):
    """innermost statement containing node"""
    p = node
    while p is not None and not isinstance(p, ast.stmt):
        p = getattr(p, "parent", None)
    return p


def names_in(node):
    return {n.id for n in ast.walk(node) if isinstance(n, ast.Name)}


def attr_chain(node):
    """'a.b.c' for Name/Attribute chains else None"""
    parts = []
    while isinstance(node, ast.Attribute):
        parts.append(node.attr)
        node = node.value
    if isinstance(node, ast.Name):
        parts.append(node.id)
        return ".".join(reversed(parts))
    return None


def get_arg(call, pos, name):
    """argument of a call by position or keyword; None if absent"""
    for kw in call.keywords:
        if kw.arg == name:
            return kw.value
    if pos is not None and pos < len(call.args):
        a = call.args[pos]
        if isinstance(a, ast.Starred):
            return None
        return a
    return None


def param_names(func):
    a = func.args
    return [x.arg for x in a.posonlyargs + a.args] + [x.arg for x in a.kwonlyargs]


def str_template(e):
    """canonical form of a string-building expression: tuple of ('lit', text) / ('expr', normalised text) parts, so
    that `f"{x}*"`, `x + "*"` and `"%s*" % x`-free concatenations compare equal"""
    parts = []

    def add(x):
        if isinstance(x, ast.Constant) and isinstance(x.value, str):
            if x.value:
                if parts and parts[-1][0] == "lit":
                    parts[-1] = ("lit", parts[-1][1] + x.value)
                else:
                    parts.append(("lit", x.value))
        elif isinstance(x, ast.JoinedStr):
            for v in x.values:
                if isinstance(v, ast.FormattedValue) and v.conversion == -1 and v.format_spec is None:
                    add(v.value)
                else:
                    add(v) if isinstance(v, ast.Constant) else parts.append(("expr", norm(v)))
        elif isinstance(x, ast.BinOp) and isinstance(x.op, ast.Add):
            add(x.left)
            add(x.right)
        else:
            parts.append(("expr", norm(x)))

    add(e)
    return tuple(parts)
