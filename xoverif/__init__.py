"""Static verification of xsuite/xobjects (stdlib ast only)."""
