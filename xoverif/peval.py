"""Partial evaluator / abstract interpreter over the analysed AST (DESIGN 3.5-3.7, Appendix B).

Nothing of /repo is imported or executed by CPython: this module owns a small interpreter for the
Python subset the anchored functions use.  Values that a *class descriptor* fixes are concrete;
everything a run would compute from data is symbolic (Sym = polynomial over named atoms) or opaque.
Buffer API calls are not executed but recorded as effects on an abstract memory keyed by symbolic
positions.  Branches on unknown facts fork (decision replay); an unsupported construct raises
AnalysisError -- never a guess.
"""
import ast
import itertools

from .linear import Poly
from .srcmodel import AnalysisError, norm

MAX_STEPS = 400000


# ------------------------------------------------------------------------------------------ values
class Sym:
    __slots__ = ("p",)

    def __init__(self, p):
        self.p = p if isinstance(p, Poly) else Poly.atom(str(p))

    def __repr__(self):
        return repr(self.p)

    def __eq__(self, o):
        return isinstance(o, Sym) and self.p == o.p

    def __hash__(self):
        return hash(repr(self.p))

    def __format__(self, spec):
        return repr(self.p)


class FloatSym(Sym):
    """a symbolic value known to be a float (isinstance(v, float) holds; finiteness unknown)"""

    __slots__ = ()


def topoly(v):
    if isinstance(v, Sym):
        return v.p
    if isinstance(v, bool):
        return None
    if isinstance(v, int):
        return Poly.const(v)
    return None


def fromp(p):
    if p.is_const():
        return p.const_value()
    return Sym(p)


class Unk:
    """unknown boolean"""

    def __init__(self, text):
        self.text = text

    def __repr__(self):
        return f"Unk({self.text})"


class Opaque:
    def __init__(self, tag):
        self.tag = tag

    def __repr__(self):
        return f"<{self.tag}>"

    def __format__(self, spec):
        return f"<{self.tag}>"


class Obj:
    """attribute bag: instances, Info objects, class objects produced by metaclasses, descriptors"""

    def __init__(self, kind, attrs=None, cls=None, meta=None, bases=(), name=None):
        self.kind = kind
        self.attrs = attrs if attrs is not None else {}
        self.cls = cls  # ClassVal / class Obj for instances
        self.meta = meta  # metaclass for class objects
        self.bases = list(bases)
        self.name = name

    def __repr__(self):
        return f"<{self.kind} {self.name or (self.cls.name if self.cls is not None and hasattr(self.cls, 'name') else '')}>"

    def __format__(self, spec):
        return repr(self)


class ClassVal:
    """a class defined by a ClassDef of the analysed tree"""

    def __init__(self, node, modname, interp):
        self.node = node
        self.modname = modname
        self.name = node.name
        self.interp = interp
        self._attrs = None
        self.meta = None
        for kw in node.keywords:
            if kw.arg == "metaclass":
                self.meta = norm(kw.value)

    def __repr__(self):
        return f"<class {self.name}>"

    def __format__(self, spec):
        return repr(self)


class FuncVal:
    def __init__(self, node, modname, closure=None, qual=None):
        self.node = node
        self.modname = modname
        self.closure = closure
        self.name = node.name
        self.qual = qual or node.name
        self.is_gen = any(isinstance(n, (ast.Yield, ast.YieldFrom)) for n in ast.walk(node))
        decos = [norm(d) for d in node.decorator_list]
        self.is_classmethod = "classmethod" in decos
        self.is_static = "staticmethod" in decos
        self.is_property = "property" in decos
        # decorators change what a call does: the ones the package uses are modelled, anything else is a gap of the
        # model (never silently dropped).  functools.lru_cache / cache: results memoised per argument tuple, looked up
        # with Python's own equality and hashing (0.0 == -0.0, 1 == 1.0 == True)
        self.memo = None
        self.unmodelled_deco = None
        self.is_ctxmgr = False
        for d in decos:
            base = d.split("(")[0].split(".")[-1]
            if base in ("classmethod", "staticmethod", "property", "abstractmethod", "wraps"):
                continue
            if base == "contextmanager" and self.is_gen:
                self.is_ctxmgr = True
                continue
            if base in ("lru_cache", "cache"):
                self.memo = {}
            elif d.endswith(".setter") or d.endswith(".getter"):
                self.unmodelled_deco = d
            else:
                self.unmodelled_deco = d

    def __repr__(self):
        return f"<function {self.qual}>"


_NOTFOUND = object()


class SuperProxy:
    """super() inside a method: attribute lookup continues after `owner` in the MRO of the object's class"""

    def __init__(self, owner, selfv):
        self.owner = owner
        self.selfv = selfv


class ClassMethodVal:
    def __init__(self, f):
        self.f = f


class Bound:
    def __init__(self, f, selfv):
        self.f = f
        self.selfv = selfv

    def __repr__(self):
        return f"<bound {self.f!r}>"


class Builtin:
    def __init__(self, name, fn):
        self.name = name
        self.fn = fn

    def __repr__(self):
        return f"<builtin {self.name}>"


class Namespace:
    def __init__(self, name, table):
        self.name = name
        self.table = table


def _native(fn, a, k):
    """a method of a concrete Python value called with concrete arguments: what it raises is what the program raises;
    with an abstract argument a failure is a gap of the model"""
    try:
        return fn(*a, **k)
    except (TypeError, ValueError, IndexError, KeyError) as e:
        if all(x is None or isinstance(x, (int, float, str, bytes, bool, tuple, list, dict, set, frozenset)) for x in list(a) + list(k.values())):
            raise PyExc(type(e).__name__, str(e))
        raise AnalysisError(f"peval: {getattr(fn, '__qualname__', fn)!s} with abstract arguments {a!r}: {e}")


class NpInt(int):
    """a numpy integer scalar: an integer for arithmetic, but `type(x) is int` and `isinstance(x, int)` are False
    (np.int64 is no subclass of int); arithmetic with it gives numpy integers again"""

    def _w(self, r):
        return NpInt(r) if isinstance(r, int) and not isinstance(r, (bool, NpInt)) else r

    def __repr__(self):
        return f"np.int64({int(self)})"

    def __str__(self):
        return str(int(self))

    def __format__(self, spec):
        return format(int(self), spec)


for _op in ("add", "sub", "mul", "floordiv", "mod", "and", "or", "xor", "lshift", "rshift", "pow"):
    for _nm in (f"__{_op}__", f"__r{_op}__"):
        def _mk(nm):
            base = getattr(int, nm)

            def f(self, other):
                r = base(self, other)
                return r if r is NotImplemented else NpInt._w(self, r)

            return f

        setattr(NpInt, _nm, _mk(_nm))
NpInt.__neg__ = lambda self: NpInt(int.__neg__(self))
NpInt.__pos__ = lambda self: self
NpInt.__invert__ = lambda self: NpInt(int.__invert__(self))


class SArr:
    """abstract ndarray: shape (ints) and a dict index-tuple -> value; or a symbolic block"""

    def __init__(self, shape, data=None, sym=None):
        self.shape = tuple(shape)
        self.data = data if data is not None else {}
        self.sym = sym  # (name) for symbolic content

    @property
    def ndim(self):
        return len(self.shape)

    def indices(self):
        return list(itertools.product(*[range(s) for s in self.shape]))

    def flat(self):
        return [self.data.get(i, Opaque("uninit")) for i in self.indices()]

    def __repr__(self):
        return f"SArr{self.shape}"


class IterVal:
    """a Python iterator (generator expression, iter(x), itertools.count): consumed by next()/for"""

    def __init__(self, items=None, count_from=None, step=1):
        self.items = list(items) if items is not None else None
        self.pos = 0
        self.count = count_from
        self.step = step

    def next(self):
        if self.items is None:
            v = self.count
            self.count += self.step
            return True, v
        if self.pos < len(self.items):
            v = self.items[self.pos]
            self.pos += 1
            return True, v
        return False, None

    def rest(self):
        if self.items is None:
            raise AnalysisError("peval: iteration over an unbounded counter")
        r = self.items[self.pos:]
        self.pos = len(self.items)
        return r


class LiveEnum:
    """enumerate(<list>): iterated over the live list, as Python does"""

    def __init__(self, lst, start=0):
        self.lst = lst
        self.start = start


_EXC_CHILDREN = {
    "LookupError": {"IndexError", "KeyError"},
    "ArithmeticError": {"ZeroDivisionError", "OverflowError", "FloatingPointError"},
    "OSError": {"IOError", "EnvironmentError", "FileNotFoundError", "PermissionError", "FileExistsError", "IsADirectoryError", "NotADirectoryError", "TimeoutError", "ConnectionError", "BlockingIOError", "InterruptedError"},
    "ValueError": {"UnicodeError", "UnicodeDecodeError", "UnicodeEncodeError", "UnicodeTranslateError"},
    "UnicodeError": {"UnicodeDecodeError", "UnicodeEncodeError", "UnicodeTranslateError"},
    "RuntimeError": {"RecursionError", "NotImplementedError"},
    "ImportError": {"ModuleNotFoundError"},
    "NameError": {"UnboundLocalError"},
    "SyntaxError": {"IndentationError", "TabError"},
    "Warning": {"UserWarning", "DeprecationWarning", "RuntimeWarning", "FutureWarning"},
}
_EXC_CHILDREN["IOError"] = _EXC_CHILDREN["EnvironmentError"] = _EXC_CHILDREN["OSError"] | {"OSError"}


def _exc_matches(etype, handler_type):
    """does `except <handler_type>` catch an exception of the class named etype? (builtin hierarchy; other classes by name)"""
    et = etype.split(".")[-1].split("(")[0]
    names = []
    for n in (handler_type.elts if isinstance(handler_type, ast.Tuple) else [handler_type]):
        names.append(norm(n).split(".")[-1])
    for n in names:
        if n in ("Exception", "BaseException") or n == et or et in _EXC_CHILDREN.get(n, ()):
            return True
    return False


class PyExc(Exception):
    """a Python-level exception raised by interpreted code"""

    def __init__(self, etype, msg=""):
        self.etype = etype
        self.msg = msg


class _Return(Exception):
    def __init__(self, v):
        self.v = v


class _Break(Exception):
    pass


class _Continue(Exception):
    pass


class NeedDecision(Exception):
    pass


class Effect:
    def __init__(self, kind, **kw):
        self.kind = kind
        self.__dict__.update(kw)

    def __repr__(self):
        d = {k: v for k, v in self.__dict__.items() if k != "kind"}
        return f"{self.kind}({d})"


class CtxMgrVal:
    """the result of calling a @contextmanager generator function: its frame, not yet executed"""

    def __init__(self, f, fr):
        self.f = f
        self.fr = fr

    def __repr__(self):
        return f"<context manager {self.f.qual}>"


class Frame:
    def __init__(self, func, env, modname):
        self.func = func
        self.env = env
        self.modname = modname
        self.yields = None


# ------------------------------------------------------------------------------------------ interpreter
class Interp:
    def __init__(self, model, hooks=None):
        self.m = model
        self.modglobals = {}
        self.classvals = {}
        self.effects = []
        self.mem = {}
        self.decisions = []
        self.dpos = 0
        self.pathconds = []
        self.steps = 0
        self.hooks = hooks or {}
        self.fresh = 0
        self.pytypes = {}
        self.builtins = self._mk_builtins()
        self.np = self._mk_np()
        self._exc_stack = []  # exceptions being handled (innermost last): what a bare `raise` re-raises
        self.call_hooks = {}  # qualname -> python function(interp, args, kwargs) overriding a package function
        self.eq_oracle = None  # optional: Poly difference -> True (zero) / False (non-zero) / None
        self.order_oracle = None  # optional: Poly difference -> sign (-1/0/1) or None; decides comparisons of symbolic integers
        self.roundup_hook = None  # optional: (left poly, right poly) of a symbolic `&` -> value for the round-up idiom (x + a - 1) & -a

    # ------------------------------------------------------------------ path enumeration
    def explore(self, thunk, max_paths=256):
        """run thunk() under every combination of unknown decisions; returns list of dicts"""
        results = []
        stack = [[]]
        while stack:
            dec = stack.pop()
            self.decisions = list(dec)
            self.dpos = 0
            self.effects = []
            self.mem = {}
            self.pathconds = []
            self.steps = 0
            self.fresh = 0
            out = {"decisions": None, "result": None, "exc": None}
            try:
                out["result"] = thunk()
            except PyExc as e:
                out["exc"] = e
            out["effects"] = self.effects
            out["mem"] = self.mem
            out["conds"] = list(self.pathconds)
            out["decisions"] = list(self.decisions)
            results.append(out)
            # schedule alternatives for decisions made beyond the prefix
            for i in range(len(dec), len(self.decisions)):
                alt = self.decisions[:i] + [not self.decisions[i]]
                stack.append(alt)
            if len(results) > max_paths:
                raise AnalysisError(f"path explosion (> {max_paths}) in partial evaluation")
        return results

    def decide(self, unk, node=None):
        if self.dpos < len(self.decisions):
            d = self.decisions[self.dpos]
        else:
            d = True
            self.decisions.append(d)
        self.dpos += 1
        self.pathconds.append((unk.text, d))
        return d

    # ------------------------------------------------------------------ module level
    def classval(self, modname, node):
        key = (modname, id(node))
        if key not in self.classvals:
            self.classvals[key] = ClassVal(node, modname, self)
        return self.classvals[key]

    def global_lookup(self, modname, name, _seen=None):
        g = self.modglobals.setdefault(modname, {})
        if name in g:
            return g[name]
        mod = self.m.mod(modname)
        found = _NOTFOUND
        for st in self._toplevel(mod.raw_tree.body):
            if isinstance(st, ast.FunctionDef) and st.name == name:
                found = FuncVal(st, modname)
            elif isinstance(st, ast.ClassDef) and st.name == name:
                found = self.classval(modname, st)
            elif isinstance(st, ast.ImportFrom) and st.level >= 1:
                for al in st.names:
                    if (al.asname or al.name) == name:
                        if st.module is None:
                            found = Namespace(al.name, ("module", al.name))
                        else:
                            src = st.module.split(".")[-1]
                            found = self.global_lookup(src, al.name)
            elif isinstance(st, ast.Import):
                for al in st.names:
                    if (al.asname or al.name.split(".")[0]) == name:
                        if al.name == "numpy":
                            found = self.np
                        elif al.name == "weakref":
                            found = Namespace("weakref", {"WeakKeyDictionary": Builtin("WeakKeyDictionary", lambda *a: {}), "WeakValueDictionary": Builtin("WeakValueDictionary", lambda *a: {}),
                                                          "WeakSet": Builtin("WeakSet", lambda *a: set()), "ref": Builtin("weakref.ref", lambda o, *a: Builtin("ref()", lambda: o))})
                        elif al.name == "re":
                            found = self._re_namespace()
                        elif al.name == "copy":
                            found = Namespace("copy", {"copy": Builtin("copy.copy", self._copy_shallow), "deepcopy": Builtin("copy.deepcopy", self._copy_deep)})
                        elif al.name == "math":
                            import math as _m

                            def _mf(fn):
                                def f(*a):
                                    if not all(isinstance(x, (int, float)) and not isinstance(x, bool) for x in a):
                                        raise AnalysisError(f"peval: math.{fn} of non-concrete values {a!r}")
                                    return getattr(_m, fn)(*a)
                                return Builtin(f"math.{fn}", f)

                            found = Namespace("math", {k: _mf(k) for k in ("ceil", "floor", "sqrt", "log2", "gcd")})
                        elif al.name == "itertools":
                            found = Namespace("itertools", {"count": Builtin("itertools.count", lambda start=0, step=1: IterVal(count_from=start, step=step)),
                                                            "product": Builtin("itertools.product", lambda *a, **k: list(itertools.product(*[self.iterate(x) for x in a], **k))),
                                                            "chain": Builtin("itertools.chain", lambda *a: [y for x in a for y in self.iterate(x)])})
                        else:
                            found = Opaque(f"module:{al.name}")
            elif isinstance(st, ast.ImportFrom) and st.level == 0:
                for al in st.names:
                    if (al.asname or al.name) == name:
                        if st.module == "collections" and al.name == "defaultdict":
                            import collections as _c

                            def _dd(factory=None, *a, **k):
                                fac = factory
                                if isinstance(factory, Builtin):
                                    fac = lambda: factory.fn()
                                elif not (factory is None or factory in (int, list, dict, set, float, str, tuple)):
                                    raise AnalysisError(f"peval: defaultdict factory {factory!r}")
                                return _c.defaultdict(fac, *a, **k)

                            found = Builtin("defaultdict", _dd)
                        elif st.module == "inspect" and al.name == "isclass":
                            found = self.builtins["isclass"]
                        elif st.module == "functools" and al.name == "reduce":
                            _none = object()

                            def _reduce(f, it, init=_none):
                                items = list(self.iterate(it))
                                if init is _none:
                                    if not items:
                                        raise PyExc("TypeError", "reduce() of empty iterable with no initial value")
                                    acc, items = items[0], items[1:]
                                else:
                                    acc = init
                                for x in items:
                                    acc = self.call(f, [acc, x], {})
                                return acc

                            found = Builtin("functools.reduce", _reduce)
                        elif st.module == "operator" and al.name in ("getitem", "add", "mul", "sub"):
                            opn = al.name
                            if opn == "getitem":
                                found = Builtin("operator.getitem", lambda a, b: self.call(self.getattr(a, "__getitem__"), [b], {}))
                            else:
                                found = Builtin(f"operator.{opn}", lambda a, b, _o=opn: self.binop({"add": ast.Add(), "mul": ast.Mult(), "sub": ast.Sub()}[_o], a, b))
                        elif st.module == "collections" and al.name == "namedtuple":
                            def _nt(tname, fields, defaults=None, **_k):
                                fl_ = fields.replace(",", " ").split() if isinstance(fields, str) else list(self.iterate(fields))
                                dfl = list(self.iterate(defaults)) if defaults is not None else []

                                def mk(*a, **k):
                                    vals = list(a)
                                    for i_, f_ in enumerate(fl_[len(vals):], start=len(vals)):
                                        if f_ in k:
                                            vals.append(k[f_])
                                        elif i_ >= len(fl_) - len(dfl):
                                            vals.append(dfl[i_ - (len(fl_) - len(dfl))])
                                        else:
                                            raise PyExc("TypeError", f"{tname}() missing argument {f_}")
                                    if len(vals) != len(fl_) or set(k) - set(fl_):
                                        raise PyExc("TypeError", f"{tname}() arguments")
                                    o = Obj("instance", dict(zip(fl_, vals)), name=tname)
                                    o.attrs["__getitem__"] = Builtin(f"{tname}[]", lambda i: vals[i])
                                    o.attrs["__len__"] = Builtin(f"len({tname})", lambda: len(vals))
                                    o.attrs["_asdict"] = Builtin(f"{tname}._asdict", lambda: dict(zip(fl_, vals)))
                                    o.attrs["_replace"] = Builtin(f"{tname}._replace", lambda **kw: mk(**{**dict(zip(fl_, vals)), **kw}))
                                    o.attrs["_fields"] = tuple(fl_)
                                    return o

                                return Builtin(tname, mk)

                            found = Builtin("namedtuple", _nt)
                        elif st.module == "collections" and al.name == "OrderedDict":
                            found = Builtin("OrderedDict", lambda *a, **k: dict(*a, **k))
                        elif st.module == "re" and al.name in self._re_namespace().table:
                            found = self._re_namespace().table[al.name]
                        elif st.module == "copy" and al.name in ("copy", "deepcopy"):
                            found = Builtin(f"copy.{al.name}", self._copy_shallow if al.name == "copy" else self._copy_deep)
                        elif st.module == "itertools" and al.name == "count":
                            found = Builtin("itertools.count", lambda start=0, step=1: IterVal(count_from=start, step=step))
                        elif st.module == "itertools" and al.name == "product":
                            found = Builtin("itertools.product", lambda *a, **k: list(itertools.product(*[self.iterate(x) for x in a], **k)))
                        else:
                            found = Opaque(f"{st.module}.{al.name}")
            elif isinstance(st, ast.Assign):
                for t in st.targets:
                    if isinstance(t, ast.Name) and t.id == name:
                        fr = Frame(None, g, modname)
                        found = self.eval(st.value, fr)
            elif isinstance(st, ast.AnnAssign) and isinstance(st.target, ast.Name) and st.target.id == name and st.value is not None:
                fr = Frame(None, g, modname)
                found = self.eval(st.value, fr)
            if found is not _NOTFOUND:
                if isinstance(st, (ast.Assign, ast.AnnAssign)) and isinstance(found, (dict, list, set)):
                    self._replay_module_mutations(mod, modname, name, st, g, found)
                break
        if found is _NOTFOUND:
            if name in self.builtins:
                return self.builtins[name]
            raise AnalysisError(f"peval: name `{name}` not found in module {modname}")
        g[name] = found
        return found

    def _replay_module_mutations(self, mod, modname, name, defst, g, val):
        """a module-level container that later module-level statements fill in (loops, item assignments,
        .update() calls) has the value it has after those statements, not the value of its first binding"""
        seen_def = False
        g[name] = val
        for st in self._toplevel(mod.raw_tree.body):
            if st is defst:
                seen_def = True
                continue
            if not seen_def:
                continue
            if isinstance(st, (ast.FunctionDef, ast.ClassDef, ast.Import, ast.ImportFrom)):
                continue
            if isinstance(st, ast.Assign) and any(isinstance(t, ast.Name) and t.id == name for t in st.targets):
                raise AnalysisError(f"peval: module-level `{name}` of {modname} is bound twice")
            writes = False
            for n in ast.walk(st):
                if isinstance(n, ast.Subscript) and isinstance(n.ctx, (ast.Store, ast.Del)) and isinstance(n.value, ast.Name) and n.value.id == name:
                    writes = True
                if isinstance(n, ast.Call) and isinstance(n.func, ast.Attribute) and isinstance(n.func.value, ast.Name) and n.func.value.id == name and n.func.attr in ("update", "append", "extend", "add", "pop", "setdefault", "insert", "remove", "clear", "discard"):
                    writes = True
            if writes:
                fr = Frame(None, g, modname)
                self.exec(st, fr)

    def _toplevel(self, body):
        for st in body:
            if isinstance(st, (ast.If, ast.Try)):
                yield from self._toplevel(st.body)
                for h in getattr(st, "handlers", []):
                    yield from self._toplevel(h.body)
                yield from self._toplevel(getattr(st, "orelse", []))
            else:
                yield st

    # ------------------------------------------------------------------ class attribute lookup
    def class_attrs(self, cv):
        if cv._attrs is None:
            attrs = {}
            cv._attrs = attrs
            fr = Frame(None, attrs, cv.modname)
            for st in cv.node.body:
                if isinstance(st, ast.FunctionDef):
                    attrs[st.name] = FuncVal(st, cv.modname, qual=f"{cv.name}.{st.name}")
                    attrs[st.name].owner = cv
                elif isinstance(st, ast.Assign):
                    try:
                        v = self.eval(st.value, Frame(None, dict(attrs), cv.modname))
                    except AnalysisError:
                        v = Opaque("classattr")
                    for t in st.targets:
                        if isinstance(t, ast.Name):
                            attrs[t.id] = v
                elif isinstance(st, (ast.AnnAssign, ast.Expr, ast.Pass)):
                    continue
        return cv._attrs

    def class_bases(self, cv):
        out = []
        for b in cv.node.bases:
            if isinstance(b, ast.Name):
                try:
                    v = self.global_lookup(cv.modname, b.id)
                except AnalysisError:
                    continue
                if isinstance(v, ClassVal):
                    out.append(v)
        return out

    def class_meta(self, c):
        if isinstance(c, Obj):
            return c.meta
        if isinstance(c, ClassVal):
            if c.meta:
                v = self.global_lookup(c.modname, c.meta)
                return v if isinstance(v, ClassVal) else None
            for b in self.class_bases(c):
                mm = self.class_meta(b)
                if mm is not None:
                    return mm
        return None

    def mro(self, c):
        out = [c]
        bases = c.bases if isinstance(c, Obj) else self.class_bases(c)
        for b in bases:
            for x in self.mro(b):
                if x not in out:
                    out.append(x)
        return out

    def find_in_class(self, c, name):
        for k in self.mro(c):
            attrs = k.attrs if isinstance(k, Obj) else self.class_attrs(k)
            if name in attrs:
                return attrs[name], k
        return None, None

    def is_subclass(self, c, target):
        if isinstance(target, tuple):  # issubclass(c, (A, B)): any of them
            return any(self.is_subclass(c, t) for t in target)
        return any(x is target for x in self.mro(c))

    def getattr(self, v, name, node=None, default=KeyError):
        if isinstance(v, SuperProxy):
            sv = v.selfv
            start = sv.cls if isinstance(sv, Obj) and sv.kind != "class" else sv
            chain = self.mro(start)
            k0 = next((i for i, c in enumerate(chain) if c is v.owner), None)
            if k0 is None:
                raise AnalysisError(f"peval: super(): {v.owner!r} is not in the MRO of {start!r}")
            for c in chain[k0 + 1:]:
                attrs = c.attrs if isinstance(c, Obj) else self.class_attrs(c)
                if name in attrs:
                    return self._bind(attrs[name], sv, start)
            if name in ("__getstate__",):
                # object.__getstate__ (Python >= 3.11): the instance dictionary itself
                return Builtin("object.__getstate__", lambda _sv=sv: _sv.attrs)
            if name == "__init__":
                return Builtin("object.__init__", lambda *a, **k: None)
            raise PyExc("AttributeError", f"'super' object has no attribute {name}")
        # instance of a class
        if isinstance(v, Obj) and v.kind != "class":
            if v.cls is not None and v.kind == "instance" and not (name.startswith("__") and name.endswith("__")):
                a, owner = self.find_in_class(v.cls, name)
                if owner is not None and self._is_descriptor(a, "__set__") and self._is_descriptor(a, "__get__"):
                    # data descriptor of the class wins over the instance dictionary
                    return self.call(self.getattr(a, "__get__"), [v, v.cls], {})
            if name in v.attrs:
                return v.attrs[name]
            if name == "__class__" and v.cls is not None:
                return v.cls
            if name == "__dict__":
                return v.attrs
            if v.cls is not None:
                a, owner = self.find_in_class(v.cls, name)
                if owner is not None:
                    if v.kind == "instance" and self._is_descriptor(a, "__get__"):
                        return self.call(self.getattr(a, "__get__"), [v, v.cls], {})
                    return self._bind(a, v, v.cls)
        elif isinstance(v, (ClassVal, Obj)):
            if name == "__name__":
                return v.name
            if name == "__mro__":
                return tuple(self.mro(v))
            a, owner = self.find_in_class(v, name)
            if owner is not None:
                return self._bind_class(a, v)
            mm = self.class_meta(v)
            if mm is not None:
                a, owner = self.find_in_class(mm, name)
                if owner is not None:
                    return self._bind(a, v, mm)
        elif isinstance(v, Namespace):
            if isinstance(v.table, tuple) and v.table[0] == "module":
                return self.global_lookup(v.table[1], name)
            if name in v.table:
                return v.table[name]
            if default is KeyError:
                # a library namespace (numpy, re, math ...): what is not in the model is a GAP, never an AttributeError
                raise AnalysisError(f"peval: {v.name}.{name} is not modelled")
        elif isinstance(v, SArr):
            if name == "__class__":
                return Obj("pytype", {"__name__": "ndarray"}, name="ndarray")
            if name == "flat" and v.sym is None:
                # ndarray.flat: a 1-d window on the elements in INDEX (row-major) order
                def _fget(k, _v=v):
                    return _v.data.get(_v.indices()[k], Opaque("uninit"))

                def _fset(k, x, _v=v):
                    _v.data[_v.indices()[k]] = x

                return Obj("flatiter", {"__getitem__": Builtin("flat.__getitem__", _fget), "__setitem__": Builtin("flat.__setitem__", _fset), "__len__": Builtin("flat.__len__", lambda _v=v: len(_v.indices()))}, name="flat")
            if name == "dtype":
                if getattr(v, "dt", None) is not None:
                    return v.dt
                vals = v.flat() if v.sym is None else None
                if vals is not None and all(isinstance(x, bool) for x in vals) and vals:
                    return self.np_dtype("int8")
                if vals is not None and vals and all(isinstance(x, int) and not isinstance(x, bool) for x in vals):
                    return self.np_dtype("int64")
                if vals is not None and all(isinstance(x, (int, float)) and not isinstance(x, bool) for x in vals):
                    return self.np_dtype("float64")  # also the empty array
                raise AnalysisError("peval: dtype of an abstract array with unknown / mixed content")
            if name == "shape":
                return v.shape
            if name == "size":
                n = 1
                for s in v.shape:
                    n *= s
                return n
            if name == "ndim":
                return len(v.shape)
            if name == "size" and v.sym is None:
                n_ = 1
                for d_ in v.shape:
                    n_ *= d_
                return n_
            if name == "strides" and getattr(v, "itemsize", None) is not None:
                perm = getattr(v, "perm", None)
                st, acc = [], v.itemsize
                for d in reversed(v.shape if perm is None else v.base_shape):
                    st.insert(0, acc)
                    acc *= d
                return tuple(st) if perm is None else tuple(st[p] for p in perm)
            if name in ("tolist",):
                return Builtin("ndarray.tolist", lambda _v=v: _v.flat() if _v.ndim == 1 else [_v.data.get(i) for i in _v.indices()])
            if name in ("transpose", "reshape", "tobytes", "copy", "flatten"):
                return Builtin(f"ndarray.{name}", lambda *a, _v=v, _n=name, **k: self._arr_method(_v, _n, a, k))
        elif isinstance(v, (str, list, dict, tuple, set, frozenset)):
            if default is not KeyError:
                # getattr(<dict / list / str / number>, name, default): the default when the real type has no such attribute
                try:
                    return self._pymethod(v, name)
                except PyExc as e:
                    if e.etype == "AttributeError":
                        return default
                    raise
            return self._pymethod(v, name)
        elif isinstance(v, slice) and name in ("start", "stop", "step"):
            return getattr(v, name)
        elif isinstance(v, (bytes, bytearray)):
            if name in ("ljust", "rjust", "decode", "hex", "startswith", "endswith", "find", "count", "split", "strip", "rstrip"):
                return Builtin(f"bytes.{name}", lambda *a, _m=getattr(v, name), **k: _m(*a, **k))
        elif isinstance(v, type) and v in (dict, str, list, tuple, bytes, int, float):
            if v is dict and name == "fromkeys":
                return Builtin("dict.fromkeys", lambda it, val=None: {k: val for k in self.iterate(it)})
            if v is str and name in ("join",):
                return Builtin("str.join", lambda sep, it: sep.join(self.iterate(it)))
            if v is int and name == "from_bytes":
                return Builtin("int.from_bytes", lambda *a, **k: int.from_bytes(*a, **k))
        elif isinstance(v, Opaque):
            if default is not KeyError:
                return default
            return Opaque(f"{v.tag}.{name}")
        elif isinstance(v, FuncVal):
            if name == "__name__":
                return v.name
        elif isinstance(v, Builtin) and hasattr(v, "ns"):
            return self.getattr(v.ns, name, node, default)
        if default is not KeyError:
            return default
        if isinstance(v, SArr):
            raise AnalysisError(f"peval: ndarray.{name} is not modelled")
        if isinstance(v, Obj) and v.cls is None and v.kind not in ("instance", "class", "desc", "value", "view"):
            # an abstract stand-in written for one rule (numpy array, memoryview, storage, ...): the real object may well have
            # this attribute -- a gap of the model, not an error of the analysed program
            raise AnalysisError(f"peval: abstract {v.kind} `{v.name}` has no modelled attribute `{name}`")
        raise PyExc("AttributeError", f"{v!r} has no attribute {name}")

    def np_dtype(self, n):
        """one dtype object per name and interpreter (identity comparisons of dtypes work)"""
        tbl = self.__dict__.setdefault("_np_dtypes", {})
        if n not in tbl:
            tbl[n] = self.call(self.getattr(self.np, "dtype"), [n], {})
        return tbl[n]

    def _is_descriptor(self, a, meth):
        """a is an instance (created by evaluated code) of a class that defines `meth` (__get__/__set__)"""
        return isinstance(a, Obj) and a.kind == "instance" and a.cls is not None and self.find_in_class(a.cls, meth)[1] is not None

    def setattr(self, o, name, v):
        if isinstance(o, Obj):
            if o.kind == "instance" and o.cls is not None and not (name.startswith("__") and name.endswith("__")):
                a, owner = self.find_in_class(o.cls, name)
                if owner is not None and self._is_descriptor(a, "__set__"):
                    self.call(self.getattr(a, "__set__"), [o, v], {})
                    return
            o.attrs[name] = v
        elif isinstance(o, ClassVal):
            self.class_attrs(o)[name] = v
        elif isinstance(o, Opaque):
            pass
        else:
            raise AnalysisError(f"peval: attribute store on {o!r}")

    def hasattr(self, v, name):
        if isinstance(v, Opaque):
            return Unk(f"hasattr({v.tag}, {name!r})")
        sent = object()
        try:
            r = self.getattr(v, name, default=sent)
        except PyExc:
            return False
        return r is not sent

    def _bind(self, a, inst, cls):
        if isinstance(a, FuncVal):
            if a.is_classmethod:
                return Bound(a, cls if not isinstance(inst, (ClassVal,)) and getattr(inst, "kind", "") != "class" else inst)
            if a.is_static:
                return a
            if a.is_property:
                return self.call(a, [inst], {})
            return Bound(a, inst)
        if isinstance(a, ClassMethodVal):
            return Bound(a.f, inst if (isinstance(inst, ClassVal) or getattr(inst, "kind", "") == "class") else (inst.cls if isinstance(inst, Obj) else cls))
        return a

    def _bind_class(self, a, cls):
        if isinstance(a, FuncVal):
            if a.is_classmethod:
                return Bound(a, cls)
            return a
        if isinstance(a, ClassMethodVal):
            return Bound(a.f, cls)
        return a

    # ------------------------------------------------------------------ calls
    def call(self, f, args, kwargs, node=None):
        self.steps += 1
        if self.steps > MAX_STEPS:
            raise AnalysisError("peval: step limit exceeded")
        if isinstance(f, Bound):
            return self.call(f.f, [f.selfv] + list(args), kwargs, node)
        if isinstance(f, Builtin):
            return f.fn(*args, **kwargs)
        if isinstance(f, FuncVal):
            hk = self.call_hooks.get(f.qual)
            if hk is not None:
                return hk(self, args, kwargs)
            return self.call_function(f, args, kwargs)
        if isinstance(f, ClassVal):
            return self.instantiate(f, args, kwargs)
        if isinstance(f, Obj) and f.kind == "class":
            return self.instantiate(f, args, kwargs)
        if isinstance(f, Obj):
            c, owner = self.find_in_class(f.cls, "__call__") if f.cls is not None else (None, None)
            if owner is not None:
                return self.call(self._bind(c, f, f.cls), args, kwargs)
            if f.cls is None and "__call__" in f.attrs:  # abstract (model) objects that are callable
                return self.call(f.attrs["__call__"], args, kwargs)
        if isinstance(f, Opaque):
            return Opaque(f"{f.tag}()")
        if isinstance(f, type):
            impl = self.pytypes.get(f)
            if impl is not None:
                return impl(*args, **kwargs)
            return f(*args)
        raise AnalysisError(f"peval: cannot call {f!r} at {norm(node) if node is not None else '?'}")

    def instantiate(self, c, args, kwargs):
        hk = self.call_hooks.get(f"new:{c.name}")
        if hk is not None:
            return hk(self, c, args, kwargs)
        # a metaclass CALLED like type(name, bases, data): runs its __new__ and returns the class it makes
        if isinstance(c, ClassVal) and len(args) == 3 and not kwargs and isinstance(args[0], str) and isinstance(args[1], tuple) and isinstance(args[2], dict) and any(norm(b) == "type" for b in c.node.bases):
            new = self.class_attrs(c).get("__new__")
            if isinstance(new, FuncVal):
                return self.call_function(new, [c] + list(args), {})
        # metaclass __call__ is not modelled: plain object.__new__ + __init__
        inst = Obj("instance", {}, cls=c)
        init, owner = self.find_in_class(c, "__init__")
        if owner is not None and isinstance(init, FuncVal):
            self.call_function(init, [inst] + list(args), kwargs)
        return inst

    def call_function(self, f, args, kwargs):
        # nesting depth per function (recursion depth is observable: one Python frame per activation)
        act = self.__dict__.setdefault("activations", {})
        mx = self.__dict__.setdefault("max_activations", {})
        act[f.qual] = act.get(f.qual, 0) + 1
        mx[f.qual] = max(mx.get(f.qual, 0), act[f.qual])
        try:
            if getattr(f, "unmodelled_deco", None):
                raise AnalysisError(f"peval: decorator `@{f.unmodelled_deco}` of {f.qual} is not modelled")
            if getattr(f, "memo", None) is not None:
                try:
                    k_ = (tuple(args), tuple(sorted(kwargs.items())))
                    hash(k_)
                except TypeError:
                    raise PyExc("TypeError", f"unhashable argument of the memoised function {f.qual}")
                # (per evaluation path: the memo of an explored path must not leak into another one)
                memo = self.mem.setdefault("#memo:" + f.qual, {}) if hasattr(self, "mem") and isinstance(self.mem, dict) else f.memo
                if k_ in memo:
                    return memo[k_]
                r_ = self._call_function(f, args, kwargs)
                memo[k_] = r_
                return r_
            return self._call_function(f, args, kwargs)
        finally:
            act[f.qual] -= 1

    def _call_function(self, f, args, kwargs):
        a = f.node.args
        env = {}
        params = [x.arg for x in a.posonlyargs + a.args]
        defaults = a.defaults
        dstart = len(params) - len(defaults)
        cl_frame = Frame(None, f.closure if f.closure is not None else {}, f.modname)
        args = list(args)
        for i, p in enumerate(params):
            if i < len(args):
                env[p] = args[i]
            elif p in kwargs:
                env[p] = kwargs.pop(p)
            elif i >= dstart:
                env[p] = self.eval(defaults[i - dstart], cl_frame)
            else:
                raise PyExc("TypeError", f"missing argument {p} for {f.qual}")
        extra = args[len(params):]
        if a.vararg:
            env[a.vararg.arg] = tuple(extra)
        elif extra:
            raise PyExc("TypeError", f"too many arguments for {f.qual}")
        for k, dflt in zip(a.kwonlyargs, a.kw_defaults):
            if k.arg in kwargs:
                env[k.arg] = kwargs.pop(k.arg)
            elif dflt is not None:
                env[k.arg] = self.eval(dflt, cl_frame)
            else:
                raise PyExc("TypeError", f"missing kw argument {k.arg}")
        if a.kwarg:
            env[a.kwarg.arg] = dict(kwargs)
        elif kwargs:
            raise PyExc("TypeError", f"unexpected keyword {list(kwargs)} for {f.qual}")
        fr = Frame(f, env, f.modname)
        fr.closure = f.closure
        if f.is_ctxmgr:
            # contextlib.contextmanager: the call only makes the manager; the body runs inside a `with` (see exec)
            return CtxMgrVal(f, fr)
        if f.is_gen:
            fr.yields = []
            try:
                self.exec_block(f.node.body, fr)
            except _Return:
                pass
            return list(fr.yields)
        try:
            self.exec_block(f.node.body, fr)
        except _Return as r:
            return r.v
        return None

    def _exec_with(self, st, k, fr):
        """`with` item k of st (items nest left to right).  Modelled: managers made by a @contextmanager generator
        function of the analysed source (the generator's body is evaluated with the with-body in place of its single
        `yield`: an exception of the body is raised AT the yield, as contextlib does) and instances of analysed classes
        with __enter__/__exit__.  Anything else is a gap of the model."""
        if k == len(st.items):
            self.exec_block(st.body, fr)
            return
        item = st.items[k]
        cm = self.eval(item.context_expr, fr)
        if isinstance(cm, CtxMgrVal):
            pending = []
            count = [0]

            def hook(v):
                count[0] += 1
                if count[0] > 1:
                    raise AnalysisError(f"peval: context manager {cm.f.qual} yields more than once")
                if item.optional_vars is not None:
                    self.assign(item.optional_vars, v, fr)
                try:
                    self._exec_with(st, k + 1, fr)
                except (_Return, _Break, _Continue) as c:  # leaving the with-body normally: the generator resumes
                    pending.append(c)

            g = cm.fr
            g.yields = []
            g.yield_hook = hook
            try:
                self.exec_block(cm.f.node.body, g)
            except _Return:
                pass
            if count[0] == 0:
                raise AnalysisError(f"peval: context manager {cm.f.qual} did not yield")
            if pending:
                raise pending[0]
            return
        if isinstance(cm, Obj) and cm.kind == "instance":
            try:
                ent, ext = self.getattr(cm, "__enter__"), self.getattr(cm, "__exit__")
            except PyExc:
                raise AnalysisError(f"peval: unsupported with-statement `{norm(st)[:80]}`")
            v = self.call(ent, [], {})
            if item.optional_vars is not None:
                self.assign(item.optional_vars, v, fr)
            try:
                self._exec_with(st, k + 1, fr)
            except PyExc as e:
                if self.truth(self.call(ext, [Opaque(f"type:{e.etype}"), e, None], {})):
                    return
                raise
            except (_Return, _Break, _Continue):
                self.call(ext, [None, None, None], {})
                raise
            self.call(ext, [None, None, None], {})
            return
        raise AnalysisError(f"peval: unsupported with-statement `{norm(st)[:80]}`")

    # ------------------------------------------------------------------ statements
    def exec_block(self, stmts, fr):
        for st in stmts:
            self.exec(st, fr)

    def truth(self, v, node=None):
        if isinstance(v, Unk):
            return self.decide(v, node)
        if isinstance(v, Sym):
            return self.decide(Unk(f"bool({v!r})"), node)
        if isinstance(v, Opaque):
            return self.decide(Unk(f"bool({v.tag})"), node)
        if isinstance(v, SArr):
            return True
        if isinstance(v, (Obj, ClassVal, FuncVal, Bound, Builtin)):
            return True
        return bool(v)

    def exec(self, st, fr):
        self.steps += 1
        if self.steps > MAX_STEPS:
            raise AnalysisError("peval: step limit exceeded")
        if isinstance(st, ast.Expr):
            if isinstance(st.value, ast.Constant):
                return
            v = self.eval(st.value, fr)
            return
        if isinstance(st, ast.Assign):
            v = self.eval(st.value, fr)
            for t in st.targets:
                self.assign(t, v, fr)
            return
        if isinstance(st, ast.AnnAssign):
            if st.value is not None:
                self.assign(st.target, self.eval(st.value, fr), fr)
            return
        if isinstance(st, ast.AugAssign):
            cur = self.eval(_as_load(st.target), fr)
            v = self.binop(st.op, cur, self.eval(st.value, fr), st)
            self.assign(st.target, v, fr)
            return
        if isinstance(st, ast.If):
            if self.truth(self.eval(st.test, fr), st.test):
                self.exec_block(st.body, fr)
            else:
                self.exec_block(st.orelse, fr)
            return
        if isinstance(st, ast.While):
            broke = False
            while True:
                self.steps += 1
                if self.steps > MAX_STEPS:
                    raise AnalysisError("peval: step limit exceeded (while loop)")
                if not self.truth(self.eval(st.test, fr), st.test):
                    break
                try:
                    self.exec_block(st.body, fr)
                except _Break:
                    broke = True
                    break
                except _Continue:
                    continue
            if not broke:
                self.exec_block(st.orelse, fr)
            return
        if isinstance(st, ast.For):
            itv = self.eval(st.iter, fr)
            if isinstance(itv, list) or isinstance(itv, LiveEnum):
                # Python iterates a list by index over the LIVE object: insertions/removals in the body are seen
                def live():
                    i = 0
                    lst = itv.lst if isinstance(itv, LiveEnum) else itv
                    while i < len(lst):
                        self.steps += 1
                        if self.steps > MAX_STEPS:
                            raise AnalysisError("peval: step limit exceeded (a loop over a list that grows while it is iterated does not terminate)")
                        yield ((i + itv.start, lst[i]) if isinstance(itv, LiveEnum) else lst[i])
                        i += 1

                it = live()
            else:
                it = self.iterate(itv, st.iter)
            broke = False
            for x in it:
                self.assign(st.target, x, fr)
                try:
                    self.exec_block(st.body, fr)
                except _Break:
                    broke = True
                    break
                except _Continue:
                    continue
            if not broke:
                self.exec_block(st.orelse, fr)
            return
        if isinstance(st, ast.Return):
            raise _Return(self.eval(st.value, fr) if st.value is not None else None)
        if isinstance(st, ast.Raise):
            et, msg = "Exception", ""
            if st.exc is None:
                if self._exc_stack:
                    raise self._exc_stack[-1]  # re-raise the exception being handled
                raise PyExc("RuntimeError", "No active exception to reraise")
            if isinstance(st.exc, ast.Name) and isinstance(fr.env.get(st.exc.id) if hasattr(fr.env, "get") else None, Obj) and "__pyexc__" in fr.env.get(st.exc.id).attrs:
                raise fr.env.get(st.exc.id).attrs["__pyexc__"]
            if st.exc is not None:
                if isinstance(st.exc, ast.Call):
                    et = norm(st.exc.func)
                else:
                    et = norm(st.exc)
            raise PyExc(et, norm(st.exc) if st.exc is not None else "")
        if isinstance(st, ast.Pass):
            return
        if isinstance(st, ast.Break):
            raise _Break()
        if isinstance(st, ast.Continue):
            raise _Continue()
        if isinstance(st, ast.Assert):
            v = self.eval(st.test, fr)
            if isinstance(v, (Unk, Sym, Opaque)):
                self.pathconds.append((f"assert {norm(st.test)}", True))
                return
            if not self.truth(v):
                raise PyExc("AssertionError", norm(st.test))
            return
        if isinstance(st, ast.FunctionDef):
            fr.env[st.name] = FuncVal(st, fr.modname, closure=_Chain(fr), qual=(fr.func.qual + "." if fr.func else "") + st.name)
            return
        if isinstance(st, ast.Delete):
            for t in st.targets:
                if isinstance(t, ast.Subscript):
                    c = self.eval(t.value, fr)
                    k = self.eval(t.slice, fr)
                    if isinstance(c, dict):
                        if k not in c:
                            raise PyExc("KeyError", repr(k))
                        del c[k]
                    elif isinstance(c, list):
                        try:
                            del c[k]
                        except IndexError:
                            raise PyExc("IndexError", "list assignment index out of range")
                    else:
                        raise AnalysisError(f"peval: del on {c!r} at `{norm(st)}`")
                elif isinstance(t, ast.Name):
                    fr.env.pop(t.id, None)
                elif isinstance(t, ast.Attribute):
                    o = self.eval(t.value, fr)
                    if isinstance(o, Obj) and t.attr in o.attrs:
                        del o.attrs[t.attr]
                    elif isinstance(o, Obj):
                        raise PyExc("AttributeError", t.attr)
                    else:
                        raise AnalysisError(f"peval: del of an attribute of {o!r} at `{norm(st)}`")
            return
        if isinstance(st, (ast.Import, ast.ImportFrom)):
            for al in st.names:
                nm = al.asname or al.name
                if isinstance(st, ast.ImportFrom) and st.level >= 1 and st.module is None:
                    fr.env[nm] = Namespace(al.name, ("module", al.name))
                elif isinstance(st, ast.ImportFrom) and st.level >= 1:
                    fr.env[nm] = self.global_lookup(st.module.split(".")[-1], al.name)
                else:
                    fr.env[nm] = Opaque(f"module:{al.name}")
            return
        if isinstance(st, ast.Try):
            try:
                try:
                    self.exec_block(st.body, fr)
                except PyExc as e:
                    for h in st.handlers:
                        if h.type is None or _exc_matches(e.etype, h.type):
                            if h.name:
                                fr.env[h.name] = Obj("exception", {"args": (e.msg,), "__pyexc__": e}, name=e.etype.split(".")[-1])
                            self._exc_stack.append(e)
                            try:
                                self.exec_block(h.body, fr)
                            finally:
                                self._exc_stack.pop()
                            break
                    else:
                        raise
                else:
                    self.exec_block(st.orelse, fr)
            finally:
                # on every way out (normal, return / break / continue, an exception going up)
                if st.finalbody:
                    self.exec_block(st.finalbody, fr)
            return
        if isinstance(st, ast.With):
            hk = self.hooks.get("with")
            if hk is not None:
                hk(self, st, fr)
                return
            self._exec_with(st, 0, fr)
            return
        if isinstance(st, ast.Global):
            # names bound at module level: reads and writes of the frame go to the module's globals
            if not hasattr(fr, "globals"):
                fr.globals = set()
            fr.globals.update(st.names)
            return
        raise AnalysisError(f"peval: unsupported statement {type(st).__name__}: `{norm(st)[:80]}`")

    def _re_namespace(self):
        """the `re` module on concrete strings: compiled patterns and match objects are wrapped, everything is done
        by Python's own re (patterns and subjects must be concrete: anything else is a gap of the model)"""
        if getattr(self, "_re_ns", None) is not None:
            return self._re_ns
        import re as _re

        def conc(*xs):
            for x in xs:
                if not isinstance(x, (str, int, type(None))):
                    raise AnalysisError(f"peval: re with a non-concrete argument {x!r}")

        def wrap_match(mo):
            if mo is None:
                return None
            o = Obj("re.Match", {}, name="re.Match")
            for nm in ("group", "groups", "groupdict", "start", "end", "span", "expand"):
                o.attrs[nm] = Builtin(f"Match.{nm}", (lambda f: lambda *a, **k: _native(f, a, k))(getattr(mo, nm)))
            o.attrs["__getitem__"] = Builtin("Match.__getitem__", lambda k: _native(mo.__getitem__, (k,), {}))
            o.attrs["string"], o.attrs["lastindex"], o.attrs["lastgroup"] = mo.string, mo.lastindex, mo.lastgroup
            o.attrs["__bool__"] = Builtin("Match.__bool__", lambda: True)
            return o

        def wrap_pattern(pt):
            o = Obj("re.Pattern", {"pattern": pt.pattern, "flags": pt.flags, "groups": pt.groups}, name="re.Pattern")
            for nm in ("search", "match", "fullmatch"):
                o.attrs[nm] = Builtin(f"Pattern.{nm}", (lambda f: lambda s_, *a: (conc(s_, *a), wrap_match(f(s_, *a)))[1])(getattr(pt, nm)))
            for nm in ("findall", "split"):
                o.attrs[nm] = Builtin(f"Pattern.{nm}", (lambda f: lambda s_, *a: (conc(s_, *a), f(s_, *a))[1])(getattr(pt, nm)))
            o.attrs["finditer"] = Builtin("Pattern.finditer", lambda s_, *a: (conc(s_, *a), [wrap_match(x) for x in pt.finditer(s_, *a)])[1])

            def sub(repl, s_, count=0, _n=False):
                conc(s_, count)
                if not isinstance(repl, str):
                    fn = repl
                    repl = lambda mo: self.call(fn, [wrap_match(mo)], {})
                return (pt.subn if _n else pt.sub)(repl, s_, count)

            o.attrs["sub"] = Builtin("Pattern.sub", sub)
            o.attrs["subn"] = Builtin("Pattern.subn", lambda repl, s_, count=0: sub(repl, s_, count, True))
            return o

        def comp(pattern, flags=0):
            if isinstance(pattern, Obj) and pattern.kind == "re.Pattern":
                return pattern
            conc(pattern, flags)
            try:
                return wrap_pattern(_re.compile(pattern, flags))
            except _re.error as e:
                raise PyExc("re.error", str(e))

        def via(nm):
            return Builtin(f"re.{nm}", lambda pattern, *a, flags=0, **k: self.call(self.getattr(comp(pattern, flags), nm), list(a), k))

        tbl = {nm: via(nm) for nm in ("search", "match", "fullmatch", "findall", "finditer", "split")}
        tbl["sub"] = Builtin("re.sub", lambda pattern, repl, s_, count=0, flags=0: self.call(self.getattr(comp(pattern, flags), "sub"), [repl, s_, count], {}))
        tbl["subn"] = Builtin("re.subn", lambda pattern, repl, s_, count=0, flags=0: self.call(self.getattr(comp(pattern, flags), "subn"), [repl, s_, count], {}))
        tbl["compile"] = Builtin("re.compile", comp)
        tbl["escape"] = Builtin("re.escape", lambda s_: (conc(s_), _re.escape(s_))[1])
        for fl in ("IGNORECASE", "I", "MULTILINE", "M", "DOTALL", "S", "VERBOSE", "X", "ASCII", "A"):
            tbl[fl] = int(getattr(_re, fl))
        self._re_ns = Namespace("re", tbl)
        return self._re_ns

    def _copy_shallow(self, v):
        """copy.copy: a new object with the same attribute values / a new container with the same elements"""
        if isinstance(v, Obj):
            if v.kind != "instance" or self.getattr(v, "__copy__", default=None) is not None:
                raise AnalysisError(f"peval: copy.copy of {v!r}")
            return Obj(v.kind, dict(v.attrs), cls=v.cls, meta=v.meta, bases=v.bases, name=v.name)
        if isinstance(v, (list, dict, set)):
            return type(v)(v)
        if isinstance(v, SArr):
            return SArr(v.shape, dict(v.data), v.sym)
        if v is None or isinstance(v, (int, float, str, bytes, tuple, bool, Sym)):
            return v
        raise AnalysisError(f"peval: copy.copy of {v!r}")

    def _copy_deep(self, v, memo=None):
        memo = {} if memo is None or not isinstance(memo, dict) else memo
        if id(v) in memo:
            return memo[id(v)]
        if isinstance(v, Obj):
            if v.kind != "instance" or self.getattr(v, "__deepcopy__", default=None) is not None:
                raise AnalysisError(f"peval: copy.deepcopy of {v!r}")
            o = Obj(v.kind, {}, cls=v.cls, meta=v.meta, bases=v.bases, name=v.name)
            memo[id(v)] = o
            for k, x in v.attrs.items():
                o.attrs[k] = self._copy_deep(x, memo)
            return o
        if isinstance(v, list):
            out = []
            memo[id(v)] = out
            out.extend(self._copy_deep(x, memo) for x in v)
            return out
        if isinstance(v, dict):
            out = {}
            memo[id(v)] = out
            for k, x in v.items():
                out[k] = self._copy_deep(x, memo)
            return out
        if isinstance(v, tuple):
            return tuple(self._copy_deep(x, memo) for x in v)
        if isinstance(v, set):
            return set(v)
        if isinstance(v, SArr):
            return SArr(v.shape, {k: self._copy_deep(x, memo) for k, x in v.data.items()}, v.sym)
        if v is None or isinstance(v, (int, float, str, bytes, bool, Sym)) or callable(v) or type(v).__name__ in ("ClassVal", "FuncVal", "Builtin", "Opaque"):
            return v
        raise AnalysisError(f"peval: copy.deepcopy of {v!r}")

    def assign(self, t, v, fr):
        if isinstance(t, ast.Name):
            if t.id in getattr(fr, "globals", ()) and fr.modname is not None:
                self.modglobals.setdefault(fr.modname, {})[t.id] = v
                return
            fr.env[t.id] = v
        elif isinstance(t, (ast.Tuple, ast.List)):
            vals = self.iterate(v, t)
            if len(vals) != len(t.elts):
                raise PyExc("ValueError", "unpack")
            for e, x in zip(t.elts, vals):
                self.assign(e, x, fr)
        elif isinstance(t, ast.Attribute):
            o = self.eval(t.value, fr)
            self.setattr(o, t.attr, v)
        elif isinstance(t, ast.Subscript):
            c = self.eval(t.value, fr)
            if isinstance(t.slice, ast.Slice):
                k = slice(*[(self.eval(x, fr) if x is not None else None) for x in (t.slice.lower, t.slice.upper, t.slice.step)])
            else:
                k = self.eval(t.slice, fr)
            if isinstance(c, SArr):
                if k is Ellipsis:  # whole-array store: an array of the same shape, or one value for all
                    if isinstance(v, SArr):
                        if v.shape != c.shape:
                            raise PyExc("ValueError", f"could not broadcast input array from shape {v.shape} into shape {c.shape}")
                        for i in c.indices():
                            if i in v.data:
                                c.data[i] = v.data[i]
                            else:
                                c.data.pop(i, None)
                    elif isinstance(v, (list, tuple)):
                        raise AnalysisError("peval: whole-array store of a sequence")
                    else:
                        for i in c.indices():
                            c.data[i] = v
                    return
                if isinstance(k, int):
                    k = (k,)
                if not isinstance(k, tuple) or not all(isinstance(x, int) for x in k):
                    raise AnalysisError(f"peval: array item store with index {k!r}")
                c.data[tuple(k)] = v
            elif isinstance(c, (dict, list)):
                c[k] = v
            elif isinstance(c, Opaque):
                self.effects.append(Effect("setitem", target=c.tag, key=k, value=v))
            elif isinstance(c, Obj) and self.getattr(c, "__setitem__", default=None) is not None:
                self.call(self.getattr(c, "__setitem__"), [k, v], {})
            else:
                raise AnalysisError(f"peval: subscript store on {c!r}")
        elif isinstance(t, ast.Starred):
            raise AnalysisError("peval: starred assignment")
        else:
            raise AnalysisError(f"peval: unsupported target {type(t).__name__}")

    def iterate(self, v, node=None):
        if isinstance(v, IterVal):
            return v.rest()
        if isinstance(v, LiveEnum):
            return [(i + v.start, x) for i, x in enumerate(v.lst)]
        if isinstance(v, (list, tuple)):
            return list(v)
        if isinstance(v, dict):
            return list(v.keys())
        if isinstance(v, range):
            return list(v)
        if isinstance(v, str):
            return list(v)
        if isinstance(v, SArr):
            if v.ndim == 1:
                return v.flat()
        if isinstance(v, (set, frozenset)):
            return sorted(v, key=repr)
        if hasattr(v, "__iter__") and not isinstance(v, (Obj, Opaque, Sym)):
            return list(v)
        if isinstance(v, Obj) and v.kind != "class":
            it = self.getattr(v, "__iter__", default=None)
            if it is not None:
                r = self.call(it, [], {})
                return self.iterate(r, node)
            gi = self.getattr(v, "__getitem__", default=None)
            if gi is not None:  # the old sequence protocol: __getitem__(0), (1), ... until IndexError
                out = []
                for i in range(100000):
                    try:
                        out.append(self.call(gi, [i], {}))
                    except PyExc as e:
                        if e.etype == "IndexError":
                            return out
                        raise
                raise AnalysisError("peval: sequence-protocol iteration does not end")
        raise AnalysisError(f"peval: cannot iterate {v!r} at `{norm(node)[:60] if node is not None else '?'}`")

    # ------------------------------------------------------------------ expressions
    def lookup(self, name, fr):
        if name in getattr(fr, "globals", ()) and fr.modname is not None:
            return self.global_lookup(fr.modname, name)
        if name in fr.env:
            return fr.env[name]
        cl = getattr(fr, "closure", None)
        while cl is not None:
            if name in cl.frame.env:
                return cl.frame.env[name]
            cl = getattr(cl.frame, "closure", None)
        if fr.modname is not None:
            try:
                return self.global_lookup(fr.modname, name)
            except AnalysisError:
                pass
        if name in self.builtins:
            return self.builtins[name]
        raise AnalysisError(f"peval: unbound name `{name}`")

    def eval(self, e, fr):
        self.steps += 1
        if isinstance(e, ast.Constant):
            return e.value
        if isinstance(e, ast.Name):
            return self.lookup(e.id, fr)
        if isinstance(e, ast.Attribute):
            return self.getattr(self.eval(e.value, fr), e.attr, e)
        if isinstance(e, ast.Call):
            if isinstance(e.func, ast.Name) and e.func.id == "super" and not e.args and not e.keywords and "super" not in fr.env:
                # zero-argument super(): the class the running method was DEFINED in, and its first argument
                fv = fr.func
                owner = getattr(fv, "owner", None)
                params = [x.arg for x in fv.node.args.posonlyargs + fv.node.args.args] if fv is not None else []
                if owner is None or not params or params[0] not in fr.env:
                    raise AnalysisError(f"peval: super() outside a method of a class of the analysed tree at `{norm(e)}`")
                return SuperProxy(owner, fr.env[params[0]])
            f = self.eval(e.func, fr)
            args, kwargs = [], {}
            for a in e.args:
                if isinstance(a, ast.Starred):
                    args.extend(self.iterate(self.eval(a.value, fr), a))
                else:
                    args.append(self.eval(a, fr))
            for k in e.keywords:
                if k.arg is None:
                    kwargs.update(self.eval(k.value, fr))
                else:
                    kwargs[k.arg] = self.eval(k.value, fr)
            return self.call(f, args, kwargs, e)
        if isinstance(e, ast.BinOp):
            return self.binop(e.op, self.eval(e.left, fr), self.eval(e.right, fr), e)
        if isinstance(e, ast.UnaryOp):
            v = self.eval(e.operand, fr)
            if isinstance(e.op, ast.Not):
                if isinstance(v, Unk):
                    return Unk(f"not ({v.text})")
                return not self.truth(v, e)
            p = topoly(v)
            if p is not None:
                if isinstance(e.op, ast.USub):
                    return fromp(-p)
                if isinstance(e.op, ast.UAdd):
                    return v
                if isinstance(e.op, ast.Invert):
                    return fromp(-p - Poly.const(1))
            raise AnalysisError(f"peval: unary op on {v!r}")
        if isinstance(e, ast.BoolOp):
            isand = isinstance(e.op, ast.And)
            last = None
            for x in e.values:
                last = self.eval(x, fr)
                t = self.truth(last, x)
                if isand and not t:
                    return last if not isinstance(last, (Unk, Sym, Opaque)) else False
                if not isand and t:
                    return last if not isinstance(last, (Unk, Sym, Opaque)) else True
            return last if not isinstance(last, (Unk, Sym, Opaque)) else isand
        if isinstance(e, ast.Compare):
            left = self.eval(e.left, fr)
            res = True
            for op, c in zip(e.ops, e.comparators):
                right = self.eval(c, fr)
                r = self.compare(op, left, right, e)
                if isinstance(r, SArr):
                    if len(e.ops) == 1:
                        return r  # elementwise comparison of arrays yields an array
                    raise PyExc("ValueError", "The truth value of an array with more than one element is ambiguous")
                if isinstance(r, Unk):
                    r = self.decide(r, e)
                if not r:
                    return False
                left = right
            return res
        if isinstance(e, ast.NamedExpr):
            v = self.eval(e.value, fr)
            self.assign(e.target, v, fr)
            return v
        if isinstance(e, ast.IfExp):
            return self.eval(e.body, fr) if self.truth(self.eval(e.test, fr), e.test) else self.eval(e.orelse, fr)
        if isinstance(e, (ast.List, ast.Tuple, ast.Set)):
            out = []
            for x in e.elts:
                if isinstance(x, ast.Starred):
                    out.extend(self.iterate(self.eval(x.value, fr), x))
                else:
                    out.append(self.eval(x, fr))
            return out if isinstance(e, ast.List) else tuple(out) if isinstance(e, ast.Tuple) else set(out)
        if isinstance(e, ast.Dict):
            d = {}
            for k, v in zip(e.keys, e.values):
                if k is None:
                    d.update(self.eval(v, fr))
                else:
                    d[self.eval(k, fr)] = self.eval(v, fr)
            return d
        if isinstance(e, ast.Subscript):
            c = self.eval(e.value, fr)
            if isinstance(e.slice, ast.Slice):
                lo = self.eval(e.slice.lower, fr) if e.slice.lower is not None else None
                hi = self.eval(e.slice.upper, fr) if e.slice.upper is not None else None
                stp = self.eval(e.slice.step, fr) if e.slice.step is not None else None
                if isinstance(c, (list, tuple, str)):
                    return c[slice(lo, hi, stp)]
                if isinstance(c, Opaque):
                    return Opaque(f"{c.tag}[{lo}:{hi}]")
                if isinstance(c, Obj) and self.getattr(c, "__getitem__", default=None) is not None:
                    return self.call(self.getattr(c, "__getitem__"), [slice(lo, hi, stp)], {})
                raise AnalysisError(f"peval: slice of {c!r}")
            k = self.eval(e.slice, fr)
            return self.subscript(c, k, e)
        if isinstance(e, (ast.ListComp, ast.GeneratorExp, ast.SetComp)):
            out = []
            self._comp(e.generators, 0, fr, lambda f2: out.append(self.eval(e.elt, f2)))
            if isinstance(e, ast.GeneratorExp):
                return IterVal(out)  # evaluated eagerly (the anchored code has no side effects in generator bodies)
            return out
        if isinstance(e, ast.DictComp):
            out = {}

            def add(f2):
                out[self.eval(e.key, f2)] = self.eval(e.value, f2)

            self._comp(e.generators, 0, fr, add)
            return out
        if isinstance(e, ast.JoinedStr):
            parts = []
            for v in e.values:
                if isinstance(v, ast.Constant):
                    parts.append(str(v.value))
                elif isinstance(v, ast.FormattedValue):
                    x = self.eval(v.value, fr)
                    if v.conversion == 114:
                        parts.append(repr(x))
                    else:
                        parts.append(format(x, "") if not isinstance(x, (list, tuple, dict)) else str(x))
            return "".join(parts)
        if isinstance(e, ast.Yield):
            v = self.eval(e.value, fr) if e.value is not None else None
            f2 = fr
            while f2.yields is None:
                f2 = f2.parent_frame
            hk = getattr(f2, "yield_hook", None)
            if hk is not None:
                hk(v)
                return None
            f2.yields.append(v)
            return None
        if isinstance(e, ast.Lambda):
            fn = ast.FunctionDef(name="<lambda>", args=e.args, body=[ast.Return(value=e.body)], decorator_list=[], returns=None, type_comment=None)
            return FuncVal(fn, fr.modname, closure=_Chain(fr))
        if isinstance(e, ast.Starred):
            raise AnalysisError("peval: bare starred expression")
        raise AnalysisError(f"peval: unsupported expression {type(e).__name__}: `{norm(e)[:80]}`")

    def _comp(self, gens, i, fr, emit):
        if i == len(gens):
            emit(fr)
            return
        g = gens[i]
        for x in self.iterate(self.eval(g.iter, fr), g.iter):
            f2 = Frame(fr.func, dict(fr.env), fr.modname)
            f2.closure = getattr(fr, "closure", None)
            f2.yields = fr.yields
            f2.parent_frame = fr
            self.assign(g.target, x, f2)
            if all(self.truth(self.eval(c, f2), c) for c in g.ifs):
                self._comp(gens, i + 1, f2, emit)

    def subscript(self, c, k, node=None):
        if isinstance(c, SArr):
            if isinstance(k, int):
                k = (k,)
            k = tuple(k)
            if len(k) < c.ndim and c.sym is None and all(isinstance(x, int) for x in k):
                # partial index: the sub-array (numpy semantics)
                sub = SArr(c.shape[len(k):])
                for idx, v in c.data.items():
                    if idx[: len(k)] == k:
                        sub.data[idx[len(k):]] = v
                return sub
            if len(k) != c.ndim:
                raise PyExc("IndexError", f"too many/few indices for array of rank {c.ndim}: {k}")
            for i, s in zip(k, c.shape):
                if isinstance(i, int) and not (-s <= i < s):
                    raise PyExc("IndexError", "out of bounds")
            k = tuple(i % s if isinstance(i, int) else i for i, s in zip(k, c.shape))
            if c.sym is not None and k not in c.data:
                return Sym(Poly.atom(f"{c.sym}[{', '.join(map(str, k))}]"))
            return c.data.get(k, Opaque("uninit"))
        if isinstance(c, (list, tuple, str)):
            if isinstance(k, int):
                try:
                    return c[k]
                except IndexError:
                    raise PyExc("IndexError", "list index")
            raise AnalysisError(f"peval: index {k!r} into sequence")
        if isinstance(c, dict):
            if k in c:
                return c[k]
            if getattr(c, "default_factory", None) is not None:
                return c[k]  # collections.defaultdict: creates and returns the default
            raise PyExc("KeyError", repr(k))
        if isinstance(c, Opaque):
            return Opaque(f"{c.tag}[{k}]")
        if isinstance(c, (Obj, ClassVal)):
            gi = self.getattr(c, "__getitem__", default=None)
            if gi is not None:
                return self.call(gi, [k], {})
        if c is None or isinstance(c, (bool, int, float)):
            raise PyExc("TypeError", f"'{type(c).__name__}' object is not subscriptable")
        raise AnalysisError(f"peval: subscript of {c!r} at `{norm(node)[:60] if node is not None else ''}`")

    def binop(self, op, a, b, node=None):
        if (isinstance(a, SArr) or isinstance(b, SArr)) and isinstance(op, (ast.Add, ast.Sub, ast.Mult)):
            # elementwise arithmetic of an array with a scalar / an array of the same shape (numpy semantics)
            A_, B_ = a, b
            if isinstance(A_, SArr) and isinstance(B_, SArr):
                if A_.sym is not None or B_.sym is not None or A_.shape != B_.shape:
                    raise AnalysisError("peval: arithmetic of arrays of different / symbolic shape")
                out = SArr(A_.shape)
                for idx in out.indices():
                    out.data[idx] = self.binop(op, A_.data.get(idx, Opaque("uninit")), B_.data.get(idx, Opaque("uninit")), node)
                return out
            arr, left = (A_, True) if isinstance(A_, SArr) else (B_, False)
            other = B_ if left else A_
            if arr.sym is not None or topoly(other) is None and not isinstance(other, float):
                raise AnalysisError(f"peval: arithmetic of an array with {other!r}")
            out = SArr(arr.shape)
            for idx in out.indices():
                x = arr.data.get(idx, Opaque("uninit"))
                out.data[idx] = self.binop(op, x, other, node) if left else self.binop(op, other, x, node)
            for at in ("itemsize", "dt"):
                if getattr(arr, at, None) is not None:
                    setattr(out, at, getattr(arr, at))
            return out
        pa, pb = topoly(a), topoly(b)
        if pa is not None and pb is not None:
            if isinstance(op, ast.Add):
                return fromp(pa + pb)
            if isinstance(op, ast.Sub):
                return fromp(pa - pb)
            if isinstance(op, ast.Mult):
                return fromp(pa * pb)
            if pa.is_const() and pb.is_const():
                x, y = pa.const_value(), pb.const_value()
                if isinstance(op, ast.FloorDiv):
                    return x // y
                if isinstance(op, ast.Mod):
                    return x % y
                if isinstance(op, ast.BitAnd):
                    return x & y
                if isinstance(op, ast.BitOr):
                    return x | y
                if isinstance(op, ast.Pow):
                    return x ** y
                if isinstance(op, ast.LShift):
                    return x << y
                if isinstance(op, ast.RShift):
                    return x >> y
                if isinstance(op, ast.Div):
                    return x / y
            if isinstance(op, ast.BitAnd) and self.roundup_hook is not None:
                r = self.roundup_hook(pa, pb)
                if r is not None:
                    return r
            nm = type(op).__name__.lower()
            return Sym(Poly.atom(f"{nm}({pa!r}, {pb!r})"))
        if isinstance(op, ast.Add):
            if isinstance(a, str) and isinstance(b, str):
                return a + b
            if isinstance(a, (bytes, bytearray)) and isinstance(b, (bytes, bytearray)):
                return a + b
            if isinstance(a, list) and isinstance(b, list):
                return a + b
            if isinstance(a, tuple) and isinstance(b, tuple):
                return a + b
        if isinstance(op, ast.Mult):
            if isinstance(a, (str, list, tuple, bytes)) and isinstance(b, int):
                return a * b
            if isinstance(b, (str, list, tuple)) and isinstance(a, int):
                return b * a
        if isinstance(op, ast.Mod) and isinstance(a, str):
            return a % b
        if isinstance(op, ast.BitOr) and isinstance(a, (set, frozenset)):
            return a | b
        if isinstance(op, ast.BitAnd) and isinstance(a, (set, frozenset)):
            return a & b
        if isinstance(op, ast.Sub) and isinstance(a, (set, frozenset)):
            return a - b
        if isinstance(a, Opaque) or isinstance(b, Opaque):
            return Opaque(f"({a!r} {type(op).__name__} {b!r})")
        concrete = (type(None), bool, int, float, str, bytes, list, tuple, dict, set, Sym)
        if isinstance(a, concrete) and isinstance(b, concrete):
            raise PyExc("TypeError", f"unsupported operand type(s) for {type(op).__name__}: {a!r} and {b!r}")
        raise AnalysisError(f"peval: binop {type(op).__name__} on {a!r}, {b!r} at `{norm(node)[:70] if node is not None else ''}`")

    def compare(self, op, a, b, node=None):
        if isinstance(op, (ast.Is, ast.IsNot)):
            if isinstance(a, Opaque) or isinstance(b, Opaque):
                if a is None or b is None:
                    r = Unk(f"{a!r} is {b!r}")
                    return r if isinstance(op, ast.Is) else Unk(f"not ({r.text})")
            same = a is b or (isinstance(a, (int, str, bool, type(None))) and isinstance(b, (int, str, bool, type(None))) and type(a) is type(b) and a == b)
            if isinstance(a, Sym) and isinstance(b, Sym):
                same = a == b
            return same if isinstance(op, ast.Is) else not same
        if (isinstance(a, SArr) or isinstance(b, SArr)) and isinstance(op, (ast.Eq, ast.NotEq, ast.Lt, ast.LtE, ast.Gt, ast.GtE)):
            return self._arr_compare(op, a, b)
        if isinstance(op, (ast.In, ast.NotIn)):
            if isinstance(b, (Obj, ClassVal)):
                ct = self.getattr(b, "__contains__", default=None)
                if ct is not None:
                    r = self.truth(self.call(ct, [a], {}))
                    return r if isinstance(op, ast.In) else not r
            if isinstance(b, Opaque):
                return Unk(f"{a!r} in {b.tag}")
            if isinstance(b, (list, tuple, dict, set, frozenset, str)):
                if isinstance(b, dict):
                    r = a in b
                elif isinstance(b, str):
                    r = a in b
                else:
                    r = any(self._eq(a, x) is True for x in b)
                return r if isinstance(op, ast.In) else not r
            raise AnalysisError(f"peval: `in` on {b!r}")
        pa, pb = topoly(a), topoly(b)
        if pa is not None and pb is not None:
            d = pa - pb
            if d.is_const():
                c = d.const_value()
                return {ast.Eq: c == 0, ast.NotEq: c != 0, ast.Lt: c < 0, ast.LtE: c <= 0, ast.Gt: c > 0, ast.GtE: c >= 0}[type(op)]
            if self.order_oracle is not None:
                sg = self.order_oracle(d)
                if sg is not None:
                    return {ast.Eq: sg == 0, ast.NotEq: sg != 0, ast.Lt: sg < 0, ast.LtE: sg <= 0, ast.Gt: sg > 0, ast.GtE: sg >= 0}[type(op)]
            if isinstance(op, (ast.Eq, ast.NotEq)) and getattr(self, "eq_oracle", None) is not None:
                r = self.eq_oracle(d)
                if r is not None:
                    return r if isinstance(op, ast.Eq) else not r
            if abs(d.const_value()) >= 2 ** 62 and isinstance(op, (ast.Eq, ast.NotEq)):
                # assumption: positions/sizes are far below 2**62, so they never equal the reserved null
                return isinstance(op, ast.NotEq)
            return Unk(f"{a!r} {_OPS[type(op)]} {b!r}")
        if isinstance(op, (ast.Eq, ast.NotEq)):
            r = self._eq(a, b)
            if isinstance(r, Unk):
                return r if isinstance(op, ast.Eq) else Unk(f"not ({r.text})")
            return r if isinstance(op, ast.Eq) else not r
        if isinstance(a, Opaque) or isinstance(b, Opaque):
            return Unk(f"{a!r} {_OPS[type(op)]} {b!r}")
        try:
            return {ast.Lt: lambda: a < b, ast.LtE: lambda: a <= b, ast.Gt: lambda: a > b, ast.GtE: lambda: a >= b}[type(op)]()
        except Exception:
            raise AnalysisError(f"peval: compare {a!r} {type(op).__name__} {b!r}")

    def _eq(self, a, b):
        if isinstance(a, Opaque) or isinstance(b, Opaque):
            return Unk(f"{a!r} == {b!r}")
        pa, pb = topoly(a), topoly(b)
        if pa is not None and pb is not None:
            d = pa - pb
            if d.is_const():
                return d.const_value() == 0
            if getattr(self, "eq_oracle", None) is not None:
                r = self.eq_oracle(d)
                if r is not None:
                    return r
            return Unk(f"{a!r} == {b!r}")
        if isinstance(a, (tuple, list)) and isinstance(b, (tuple, list)):
            if type(a) is not type(b):
                return False
            if len(a) != len(b):
                return False
            res = True
            for x, y in zip(a, b):
                r = self._eq(x, y)
                if r is False:
                    return False
                if isinstance(r, Unk):
                    res = r
            return res
        if isinstance(a, (Obj, ClassVal, FuncVal)) or isinstance(b, (Obj, ClassVal, FuncVal)):
            return a is b
        try:
            return a == b
        except Exception:
            return False

    # ------------------------------------------------------------------ builtins
    def _pymethod(self, v, name):
        if name == "__len__" and isinstance(v, (list, tuple, dict, str, bytes)):
            return Builtin("len", lambda: len(v))
        if name == "__class__":
            return Obj("pytype", {"__name__": type(v).__name__}, name=type(v).__name__)
        if name == "__getitem__" and isinstance(v, (list, tuple, dict)):
            return Builtin("getitem", lambda k: self.subscript(v, k))
        if isinstance(v, dict):
            if name == "items":
                return Builtin("dict.items", lambda: [(k, v[k]) for k in list(v.keys())])
            if name == "keys":
                return Builtin("dict.keys", lambda: list(v.keys()))
            if name == "values":
                return Builtin("dict.values", lambda: list(v.values()))
            if name == "get":
                return Builtin("dict.get", lambda k, d=None: v.get(k, d))
            if name == "update":
                return Builtin("dict.update", lambda o=None, **kw: v.update(o or {}, **kw))
            if name == "copy":
                return Builtin("dict.copy", lambda: dict(v))
            if name == "setdefault":
                return Builtin("dict.setdefault", lambda k, d=None: v.setdefault(k, d))
            if name == "pop":
                return Builtin("dict.pop", lambda k, *d: _native(v.pop, (k,) + d, {}))
            if name == "clear":
                return Builtin("dict.clear", lambda: v.clear())
            if name == "popitem":
                return Builtin("dict.popitem", lambda: _native(v.popitem, (), {}))
            if name == "__contains__":
                return Builtin("dict.__contains__", lambda k: k in v)
        if isinstance(v, list):
            if name == "append":
                return Builtin("list.append", lambda x: v.append(x))
            if name == "extend":
                return Builtin("list.extend", lambda x: v.extend(self.iterate(x)))
            if name == "index":
                return Builtin("list.index", lambda x: _index(self, v, x))
            if name == "copy":
                return Builtin("list.copy", lambda: list(v))
            if name == "remove":
                return Builtin("list.remove", lambda x: _native(v.remove, (x,), {}))
            if name == "insert":
                return Builtin("list.insert", lambda i, x: v.insert(i, x))
            if name == "pop":
                return Builtin("list.pop", lambda *a: _native(v.pop, a, {}))
            if name == "clear":
                return Builtin("list.clear", lambda: v.clear())
            if name == "reverse":
                return Builtin("list.reverse", lambda: v.reverse())
            if name == "count":
                return Builtin("list.count", lambda x: sum(1 for y in v if self._eq(y, x) is True))
        if isinstance(v, tuple):
            if name == "index":
                return Builtin("tuple.index", lambda x: _index(self, v, x))
        if isinstance(v, str):
            if name in ("join",):
                return Builtin("str.join", lambda it: v.join(str(x) if not isinstance(x, str) else x for x in self.iterate(it)))
            if name in ("endswith", "startswith", "upper", "lower", "strip", "split", "capitalize", "replace", "splitlines", "rstrip", "lstrip", "format", "find", "rfind", "rsplit", "partition", "rpartition", "index", "rindex",
                        "count", "encode", "isdigit", "isidentifier", "isalpha", "isalnum", "isspace", "title", "ljust", "rjust", "zfill", "center", "removeprefix", "removesuffix", "expandtabs", "casefold", "swapcase", "isupper", "islower"):
                return Builtin(f"str.{name}", lambda *a, **k: _native(getattr(v, name), a, k))
        if isinstance(v, (set, frozenset)):
            if name in ("union", "intersection", "difference", "symmetric_difference", "issubset", "issuperset", "isdisjoint", "copy"):
                return Builtin(f"set.{name}", lambda *a, _m=getattr(v, name): _m(*[x if isinstance(x, (set, frozenset)) else self.iterate(x) for x in a]))
            if name in ("add", "discard", "remove", "update", "clear", "pop"):
                return Builtin(f"set.{name}", lambda *a, _m=getattr(v, name): _m(*[(self.iterate(x) if name == "update" and not isinstance(x, (set, frozenset)) else x) for x in a]))
        if hasattr(type(v), name):
            # the real type has this method, the interpreter's model does not: a gap of the model, not an error of the program
            raise AnalysisError(f"peval: {type(v).__name__}.{name} is not modelled")
        raise PyExc("AttributeError", f"{type(v).__name__}.{name}")

    def _isinstance(self, v, c):
        if isinstance(c, tuple):
            rs = [self._isinstance(v, x) for x in c]
            if any(r is True for r in rs):
                return True
            unk = [r for r in rs if isinstance(r, Unk)]
            return unk[0] if unk else False
        if isinstance(c, Builtin):
            c = {"bool": bool, "type": type}.get(c.name, c)
        if c is type:
            # "is a class": classes of the analysed program (also the ones the rules make through the metaclasses)
            if isinstance(v, ClassVal) or (isinstance(v, Obj) and v.kind == "class"):
                return True
            if isinstance(v, Opaque):
                return Unk(f"isinstance({v.tag}, type)")
            return False
        if isinstance(v, NpInt):
            if isinstance(c, Opaque) and c.tag in ("np.integer", "np.number", "np.signedinteger", "np.generic", "np.int64"):
                return True
            if isinstance(c, Obj) and c.kind == "dtype":
                return c.attrs.get("name") == "int64"
            return False
        if c is int:
            return isinstance(v, int) and not isinstance(v, bool) or isinstance(v, Sym) or (isinstance(v, bool))
        if c is str:
            return isinstance(v, str)
        if c is float and isinstance(v, FloatSym):
            return True
        if c in (dict, list, tuple, float, set, bool):
            return isinstance(v, c)
        if isinstance(c, Opaque) and c.tag in ("np.floating", "np.float64", "np.number") and isinstance(v, FloatSym):
            return True
        if isinstance(c, Opaque) and c.tag == "np.ndarray" and (isinstance(v, SArr) or getattr(v, "pytag", None) == "np.ndarray"):
            return True
        if isinstance(v, Opaque):
            nm = getattr(c, "name", None) or getattr(c, "tag", None) or str(c)
            return Unk(f"isinstance({v.tag}, {nm})")
        if isinstance(c, Opaque):
            return False
        if isinstance(c, (ClassVal, Obj)):
            if isinstance(v, Obj) and v.kind != "class" and v.cls is not None:
                return self.is_subclass(v.cls, c)
            if isinstance(v, (ClassVal,)) or (isinstance(v, Obj) and v.kind == "class"):
                mm = self.class_meta(v)
                return mm is not None and self.is_subclass(mm, c)
            return False
        return False

    def _mk_builtins(self):
        I = self

        def _len(x):
            if isinstance(x, (list, tuple, dict, str, set, bytes, bytearray)):
                return len(x)
            if isinstance(x, SArr):
                return x.shape[0]
            if isinstance(x, Obj):
                ln = I.getattr(x, "__len__", default=None)
                if ln is not None:
                    return I.call(ln, [], {})
            if isinstance(x, Opaque):
                return Sym(Poly.atom(f"len({x.tag})"))
            raise AnalysisError(f"peval: len of {x!r}")

        def _range(*a):
            if all(isinstance(x, int) for x in a):
                return list(range(*a))
            raise AnalysisError(f"peval: symbolic range{a}")

        def _sum(it, start=0):
            acc = start
            for x in I.iterate(it):
                acc = I.binop(ast.Add(), acc, x)
            return acc

        def _getattr(o, n, *d):
            if d:
                return I.getattr(o, n, default=d[0])
            return I.getattr(o, n)

        def _setattr(o, n, v):
            if isinstance(o, (Obj, ClassVal)):
                I.setattr(o, n, v)
            return None

        def _delattr(o, n):
            if isinstance(o, Obj):
                if n not in o.attrs:
                    raise PyExc("AttributeError", n)
                del o.attrs[n]
            elif isinstance(o, ClassVal):
                I.class_attrs(o).pop(n, None)
            return None

        def _type(*a):
            if len(a) == 1:
                x = a[0]
                if isinstance(x, bool):
                    return bool
                if isinstance(x, NpInt):
                    return I.np_dtype("int64")
                if isinstance(x, int):
                    return int
                if isinstance(x, Sym):
                    return int
                for t in (str, list, tuple, dict, slice, float):
                    if isinstance(x, t):
                        return t
                if isinstance(x, Obj) and x.cls is not None:
                    return x.cls
                if x is None:
                    return type(None)
                return Opaque("type")
            name, bases, data = a
            # three-argument form: the metaclass of the bases builds the class (as `class name(*bases)` would)
            for b_ in bases:
                mm = I.class_meta(b_) if isinstance(b_, (Obj, ClassVal)) else None
                if mm is not None:
                    nw, owner = I.find_in_class(mm, "__new__")
                    if owner is not None and isinstance(nw, FuncVal):
                        return I.call_function(nw, [mm, name, tuple(bases), dict(data)], {})
                    return Obj("class", dict(data), meta=mm, bases=[b for b in bases], name=name)
            return Obj("class", dict(data), bases=[b for b in bases], name=name)

        def _type_new(meta, name, bases, data):
            return Obj("class", data, meta=meta, bases=list(bases), name=name)

        typ = Namespace("type", {"__new__": Builtin("type.__new__", _type_new)})
        typ_callable = Builtin("type", _type)
        typ_callable.ns = typ

        def _tuple(x=()):
            return tuple(I.iterate(x))

        def _list(x=()):
            return list(I.iterate(x))

        def _pick(vals, want_max):
            best = vals[0]
            for v in vals[1:]:
                pa, pb = topoly(v), topoly(best)
                if pa is None or pb is None:
                    raise AnalysisError(f"peval: min/max over non-integers {vals!r}")
                d = pa - pb
                if d.is_const():
                    sg = (d.const_value() > 0) - (d.const_value() < 0)
                else:
                    sg = I.order_oracle(d) if I.order_oracle is not None else None
                    if sg is None:
                        raise AnalysisError(f"peval: min/max of symbolic values {v!r}, {best!r} is not decided by the abstract state")
                if (sg > 0) == want_max and sg != 0:
                    best = v
            return best

        _NODEFAULT = object()

        def _next(it, default=_NODEFAULT):
            if not isinstance(it, IterVal):
                raise AnalysisError(f"peval: next() on {it!r}")
            ok, v = it.next()
            if ok:
                return v
            if default is _NODEFAULT:
                raise PyExc("StopIteration", "")
            return default

        def _min(*a):
            vals = I.iterate(a[0]) if len(a) == 1 else list(a)
            if all(isinstance(x, (int, float)) and not isinstance(x, bool) for x in vals):
                return min(vals)
            return _pick(list(vals), False)

        def _max(*a):
            vals = I.iterate(a[0]) if len(a) == 1 else list(a)
            if all(isinstance(x, (int, float)) and not isinstance(x, bool) for x in vals):
                return max(vals)
            return _pick(list(vals), True)

        def _str(x=""):
            return format(x, "") if isinstance(x, (Sym, Opaque, Obj, ClassVal)) else str(x)

        self.pytypes = {tuple: _tuple, list: _list, dict: (lambda *a, **k: dict(*a, **k)), set: (lambda x=(): set(I.iterate(x))), str: _str}
        b = {
            "len": Builtin("len", _len),
            "range": Builtin("range", _range),
            "enumerate": Builtin("enumerate", lambda it, start=0: LiveEnum(it, start) if isinstance(it, list) else [(i + start, x) for i, x in enumerate(I.iterate(it))]),
            "zip": Builtin("zip", lambda *its: list(zip(*[I.iterate(x) for x in its]))),
            "reversed": Builtin("reversed", lambda it: list(reversed(I.iterate(it)))),
            "sum": Builtin("sum", _sum),
            "isinstance": Builtin("isinstance", lambda v, c: I._isinstance(v, c)),
            "issubclass": Builtin("issubclass", lambda v, c: I.is_subclass(v, c) if isinstance(v, (ClassVal, Obj)) else False),
            "hasattr": Builtin("hasattr", lambda o, n: I.hasattr(o, n)),
            "getattr": Builtin("getattr", _getattr),
            "setattr": Builtin("setattr", _setattr),
            "delattr": Builtin("delattr", _delattr),
            "tuple": tuple,
            "list": list,
            "dict": dict,
            "slice": slice,
            "vars": Builtin("vars", lambda o: I.getattr(o, "__dict__")),
            "set": set,
            "str": str,
            "repr": Builtin("repr", lambda x: repr(x)),
            # identity of the abstract object (a number only ever used as a key / compared for equality)
            "id": Builtin("id", lambda x: id(x)),
            "int": int,
            "float": float,
            "bool": Builtin("bool", lambda x=False: I.truth(x)),
            "min": Builtin("min", _min),
            "max": Builtin("max", _max),
            "abs": Builtin("abs", abs),
            "next": Builtin("next", _next),
            "iter": Builtin("iter", lambda x: x if isinstance(x, IterVal) else IterVal(I.iterate(x))),
            "any": Builtin("any", lambda it: any(I.truth(x) for x in I.iterate(it))),
            "all": Builtin("all", lambda it: all(I.truth(x) for x in I.iterate(it))),
            "sorted": Builtin("sorted", lambda it, **k: sorted(I.iterate(it))),
            "print": Builtin("print", lambda *a, **k: None),
            "classmethod": Builtin("classmethod", lambda f: ClassMethodVal(f)),
            "staticmethod": Builtin("staticmethod", lambda f: f),
            "property": Builtin("property", lambda f: f),
            "object": Namespace("object", {"__new__": Builtin("object.__new__", lambda c, *a, **k: Obj("instance", {}, cls=c))}),
            "type": typ_callable,
            "ValueError": Opaque("ValueError"),
            "TypeError": Opaque("TypeError"),
            "NotImplementedError": Opaque("NotImplementedError"),
            "bytearray": Builtin("bytearray", lambda s=b"", enc=None: bytearray(s.encode(enc or "utf8")) if isinstance(s, str) else bytearray(s) if isinstance(s, (bytes, bytearray)) or (isinstance(s, int) and not isinstance(s, bool)) else s if type(s).__name__ == "Snapshot" else Opaque(f"bytearray({s!r})")),
            "bytes": Builtin("bytes", lambda s=b"", enc=None: s.encode(enc or "utf8") if isinstance(s, str) else bytes(s) if isinstance(s, (bytes, bytearray)) or (isinstance(s, int) and not isinstance(s, bool) and 0 <= s <= 1 << 20) else bytes(s) if isinstance(s, (list, tuple)) and all(isinstance(x, int) and not isinstance(x, bool) and 0 <= x < 256 for x in s) else s if type(s).__name__ == "Snapshot" else Opaque(f"bytes({s!r})")),
            "map": Builtin("map", lambda f, it: [I.call(f, [x], {}) for x in I.iterate(it)]),
            "isclass": Builtin("isclass", lambda x: isinstance(x, ClassVal) or (isinstance(x, Obj) and x.kind == "class")),
        }
        return b

    def _mk_np(self):
        I = self

        def prod(x):
            acc = 1
            for v in I.iterate(x):
                acc = I.binop(ast.Mult(), acc, v)
            return acc

        def empty(shape, dtype=None):
            if isinstance(shape, int):
                shape = (shape,)
            shape = list(I.iterate(shape))
            if not all(isinstance(s, int) for s in shape):
                return SArr([0] * len(shape), sym=f"empty{I._fresh()}")
            a = SArr(shape)
            # a freshly made array is C-contiguous: its strides follow from the item size of its dtype
            nm = dtype if isinstance(dtype, str) else dtype.attrs.get("name") if isinstance(dtype, Obj) and dtype.kind == "dtype" else "float64" if dtype is None else None
            nm = {"i8": "int64", "f8": "float64", "i4": "int32", "f4": "float32", "u8": "uint64", "u4": "uint32", "i2": "int16", "u2": "uint16", "i1": "int8", "u1": "uint8"}.get(nm, nm)
            sizes = {"float64": 8, "float32": 4, "int64": 8, "uint64": 8, "int32": 4, "uint32": 4, "int16": 2, "uint16": 2, "int8": 1, "uint8": 1}
            if nm in sizes:
                a.itemsize = sizes[nm]
            return a

        def _seq_items(e):
            """the items of e if numpy's array coercion would take e apart (a sequence), else None"""
            if isinstance(e, (list, tuple)):
                return list(e)
            if isinstance(e, SArr) and e.sym is None and e.ndim >= 1:
                if e.ndim == 1:
                    return [e.data.get((i,), Opaque("uninit")) for i in range(e.shape[0])]
                return None
            if isinstance(e, Obj) and e.kind == "instance" and e.cls is not None:
                ln, gi = I.getattr(e, "__len__", default=None), I.getattr(e, "__getitem__", default=None)
                if ln is not None and gi is not None:
                    n_ = I.call(ln, [], {})
                    if isinstance(n_, int):
                        return [I.call(gi, [i], {}) for i in range(n_)]
            return None

        def array(x, dtype=None):
            if isinstance(x, SArr):
                return x
            if isinstance(x, (int, float, Sym)) and not isinstance(x, bool) or isinstance(x, str) or (isinstance(x, Obj) and x.kind == "instance" and I.getattr(x, "__len__", default=None) is None and I.getattr(x, "__iter__", default=None) is None):
                z = SArr([])  # 0-d array (of the number / string / arbitrary object)
                z.data[()] = x
                return z
            xs = I.iterate(x)
            if (dtype is object or (isinstance(dtype, Namespace) and dtype.name == "object")) and xs:
                # numpy takes nested sequences of equal length apart, also with dtype=object
                rows = [_seq_items(e) for e in xs]
                if all(r is not None for r in rows) and len({len(r) for r in rows}) == 1 and len(rows[0]) > 0:
                    inner = [array(r, dtype=dtype) for r in rows]
                    if all(isinstance(r, SArr) and r.shape == inner[0].shape for r in inner):
                        a = SArr([len(xs)] + list(inner[0].shape))
                        for i, r in enumerate(inner):
                            for idx, v in r.data.items():
                                a.data[(i,) + idx] = v
                        return a
            a = SArr([len(xs)])
            for i, v in enumerate(xs):
                a.data[(i,)] = v
            return a

        def full(shape, fill_value, dtype=None):
            a = empty(shape)
            if a.sym is not None:
                raise AnalysisError("peval: np.full over symbolic dimensions")
            for i in a.indices():
                a.data[i] = fill_value
            return a

        def ndindex(*dims):
            if not all(isinstance(d, int) for d in dims):
                raise AnalysisError("peval: np.ndindex over symbolic dimensions")
            return list(itertools.product(*[range(d) for d in dims]))

        DT = {"float64": 8, "float32": 4, "int64": 8, "uint64": 8, "int32": 4, "uint32": 4, "int16": 2, "uint16": 2, "int8": 1, "uint8": 1, "complex64": 8, "complex128": 16}

        def _conv(n, v):
            # a numpy scalar made from a concrete number behaves as that number (of the dtype's kind)
            if isinstance(v, bool) or not isinstance(v, (int, float)):
                return Opaque(f"{n}({v!r})")
            if n.startswith(("int", "uint")):
                return int(v)
            if n.startswith("float"):
                return float(v)
            return Opaque(f"{n}({v!r})")

        _dtypes = {}

        def dtype(n):
            if isinstance(n, Obj):
                return n
            if n not in _dtypes:
                _dtypes[n] = Obj("dtype", {"itemsize": DT[n], "name": n, "type": Builtin(f"{n}.type", lambda v=0: _conv(n, v)), "str": n}, name=f"dtype({n})")
            return _dtypes[n]

        def _close(a, b, rtol=1e-05, atol=1e-08):
            import ast as _ast

            d = I._arr_compare(_ast.Eq(), a, b) if (isinstance(a, SArr) or isinstance(b, SArr)) else None

            def one(x, y):
                if isinstance(x, (int, float)) and isinstance(y, (int, float)):
                    return abs(x - y) <= atol + rtol * abs(y)
                raise AnalysisError(f"peval: np.isclose of non-concrete values {x!r}, {y!r}")

            if d is None:
                return one(a, b)
            # same broadcasting as ==, other predicate
            A = a if isinstance(a, SArr) else array(a)
            B = b if isinstance(b, SArr) else array(b)
            out = SArr(d.shape)
            nd = len(d.shape)
            sa, sb = (1,) * (nd - A.ndim) + A.shape, (1,) * (nd - B.ndim) + B.shape
            for idx in out.indices():
                ia = tuple(0 if dd == 1 else i for i, dd in zip(idx, sa))[nd - A.ndim:]
                ib = tuple(0 if dd == 1 else i for i, dd in zip(idx, sb))[nd - B.ndim:]
                out.data[idx] = one(A.data.get(ia), B.data.get(ib))
            return out

        def _anyall(x, red):
            if isinstance(x, (bool, int, float)):
                return bool(x)
            if isinstance(x, Unk):
                return x
            if isinstance(x, (list, tuple)):
                vals = [_anyall(y, red) for y in x]
                if any(isinstance(y, Unk) for y in vals):
                    return [y for y in vals if isinstance(y, Unk)][0]
                return red(vals)
            if isinstance(x, SArr) and x.sym is None:
                return _anyall(x.flat(), red)
            return Unk(f"np.{red.__name__}({x!r})")

        def _num1(fn, x):
            import math as _m
            if isinstance(x, bool) or not isinstance(x, (int, float)):
                raise AnalysisError(f"peval: np.{fn} of a non-concrete value {x!r}")
            return float(getattr(_m, fn)(x))

        tbl = {
            "prod": Builtin("np.prod", prod),
            "empty": Builtin("np.empty", empty),
            "zeros": Builtin("np.zeros", lambda shape, dtype=None: full(shape, 0)),
            "ones": Builtin("np.ones", lambda shape, dtype=None: full(shape, 1)),
            "full": Builtin("np.full", full),
            "array": Builtin("np.array", array),
            "asarray": Builtin("np.asarray", array),
            "ascontiguousarray": Builtin("np.ascontiguousarray", lambda x: x),
            "ndindex": Builtin("np.ndindex", ndindex),
            "dtype": Builtin("np.dtype", dtype),
            "integer": Opaque("np.integer"),
            "floating": Opaque("np.floating"),
            "number": Opaque("np.number"),
            "isfinite": Builtin("np.isfinite", lambda x: Unk(f"isfinite({x!r})") if isinstance(x, (Sym, Opaque)) else (x == x and abs(x) != float("inf"))),
            "isnan": Builtin("np.isnan", lambda x: Unk(f"isnan({x!r})") if isinstance(x, (Sym, Opaque)) else x != x),
            "isinf": Builtin("np.isinf", lambda x: Unk(f"isinf({x!r})") if isinstance(x, (Sym, Opaque)) else abs(x) == float("inf")),
            "ndarray": Opaque("np.ndarray"),
            "isclose": Builtin("np.isclose", _close),
            "allclose": Builtin("np.allclose", lambda a, b, **k: _anyall(_close(a, b, **k), all)),
            "float64": dtype("float64"),
            "float32": dtype("float32"),
            "int64": dtype("int64"),
            "int32": dtype("int32"),
            "any": Builtin("np.any", lambda x: _anyall(x, any)),
            "all": Builtin("np.all", lambda x: _anyall(x, all)),
            "ceil": Builtin("np.ceil", lambda x: _num1("ceil", x)),
            "floor": Builtin("np.floor", lambda x: _num1("floor", x)),
        }
        return Namespace("np", tbl)

    def _fresh(self):
        self.fresh += 1
        return self.fresh

    def _arr_compare(self, op, a, b):
        """elementwise comparison with numpy's broadcasting rules (incompatible shapes raise ValueError)"""
        def as_arr(x):
            if isinstance(x, SArr):
                if x.sym is not None:
                    raise AnalysisError("peval: comparison of a symbolic array")
                return x
            if isinstance(x, (list, tuple)):
                out = SArr([len(x)])
                for i, v in enumerate(x):
                    out.data[(i,)] = v
                return out
            if isinstance(x, (int, float, Sym)) or x is None:
                out = SArr([])
                out.data[()] = x
                return out
            if isinstance(x, Obj) and x.kind == "instance" and x.cls is not None and self.getattr(x, "__iter__", default=None) is None:
                gi, ln = self.getattr(x, "__getitem__", default=None), self.getattr(x, "__len__", default=None)
                if gi is not None and ln is not None:
                    # numpy's coercion of a sequence without __iter__: obj[0], obj[1], ... until IndexError
                    items = []
                    for i in range(64):
                        try:
                            items.append(self.call(gi, [i], {}))
                        except PyExc as e_:
                            if e_.etype == "IndexError":
                                break
                            raise
                    return as_arr(items)
            raise AnalysisError(f"peval: comparison of an array with {x!r} (numpy's implicit conversion of this object is not modelled)")

        A, B = as_arr(a), as_arr(b)
        nd = max(A.ndim, B.ndim)
        sa, sb = (1,) * (nd - A.ndim) + A.shape, (1,) * (nd - B.ndim) + B.shape
        shape = []
        for x, y in zip(sa, sb):
            if x == y or x == 1 or y == 1:
                shape.append(y if x == 1 else x)
            else:
                raise PyExc("ValueError", f"operands could not be broadcast together with shapes {A.shape} {B.shape}")
        out = SArr(shape)
        for idx in out.indices():
            ia = tuple(0 if d == 1 else i for i, d in zip(idx, sa))[nd - A.ndim:]
            ib = tuple(0 if d == 1 else i for i, d in zip(idx, sb))[nd - B.ndim:]
            out.data[idx] = self.compare(op, A.data.get(ia, Opaque("uninit")), B.data.get(ib, Opaque("uninit")))
        return out

    def _arr_method(self, v, name, a, k):
        if name == "transpose":
            perm = list(self.iterate(a[0])) if a else list(reversed(range(v.ndim)))
            if sorted(perm) != list(range(v.ndim)):
                raise PyExc("ValueError", "axes don't match array")
            out = SArr([v.shape[p] for p in perm], sym=v.sym)
            for idx, val in v.data.items():
                out.data[tuple(idx[p] for p in perm)] = val
            if getattr(v, "itemsize", None) is not None:
                out.itemsize = v.itemsize
                base = getattr(v, "perm", None) or list(range(v.ndim))
                out.perm = [base[p] for p in perm]
                out.base_shape = getattr(v, "base_shape", v.shape)
            if getattr(v, "origin", None) is not None:
                out.origin = v.origin  # a transposed array is a view of the same storage
            return out
        if name == "reshape":
            shp = list(self.iterate(a[0])) if len(a) == 1 and not isinstance(a[0], int) else list(a)
            n = 1
            for s in shp:
                n *= s
            flat = v.flat()
            if n != len(flat):
                raise PyExc("ValueError", "cannot reshape")
            out = SArr(shp, sym=v.sym)
            for idx, val in zip(out.indices(), flat):
                out.data[idx] = val
            if getattr(v, "origin", None) is not None and getattr(v, "perm", None) in (None, list(range(v.ndim))):
                out.origin = v.origin  # reshaping a contiguous array gives a view
            return out
        if name in ("copy",):
            out = SArr(v.shape, dict(v.data), sym=v.sym)
            return out
        if name == "flatten":
            out = SArr([len(v.flat())])
            for i, val in enumerate(v.flat()):
                out.data[(i,)] = val
            return out
        if name == "tobytes":
            return ("bytes-of", v)
        raise AnalysisError(f"peval: ndarray.{name}")


class _Chain:
    def __init__(self, frame):
        self.frame = frame


def _index(I, seq, x):
    for i, y in enumerate(seq):
        if I._eq(x, y) is True:
            return i
    raise PyExc("ValueError", "not in list")


def _as_load(t):
    import copy

    t2 = copy.copy(t)
    t2.ctx = ast.Load()
    return t2


_OPS = {ast.Eq: "==", ast.NotEq: "!=", ast.Lt: "<", ast.LtE: "<=", ast.Gt: ">", ast.GtE: ">="}
