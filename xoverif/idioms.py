"""Idiom tables: accepted forms and known-wrong neighbours (DESIGN section A0, K6)."""
import ast

from .linear import Poly


def match_roundup(lin, e, x, a, env=None):
    """is `e` round-up(x, a)?  returns ('ok'|'wrong', text) or None when the shape is unknown.

    accepted: (x+a-1) & -a ; (x+a-1) & ~(a-1) ; ((x+a-1)//a)*a ; -(-x//a)*a ; x + (-x % a)
    known-wrong: x & -a ; (x+a-1) & a ; any other bias constant ; (x//a)*a ; | instead of &
    """
    one = Poly.const(1)
    P = lambda n: lin.poly(n, env)
    if isinstance(e, ast.BinOp) and isinstance(e.op, (ast.BitAnd, ast.BitOr)):
        l, r = P(e.left), P(e.right)
        for p, q in ((l, r), (r, l)):
            if q == -a:
                if isinstance(e.op, ast.BitOr):
                    return ("wrong", "`|` used where `&` masks the low bits")
                if p == x + a - one:
                    return ("ok", "(x+a-1) & -a")
                if p == x:
                    return ("wrong", "x & -a rounds down")
                d = p - x
                return ("wrong", f"bias {d!r} instead of a-1")
            if q == a and (p - x).atoms() <= a.atoms():
                return ("wrong", "mask is a instead of -a")
            if q == a - one or q == -(a - one):
                return ("wrong", "mask keeps the low bits")
        return None
    if isinstance(e, ast.BinOp) and isinstance(e.op, ast.Mult):
        for m, o in ((e.left, e.right), (e.right, e.left)):
            if P(m) != a:
                continue
            if isinstance(o, ast.BinOp) and isinstance(o.op, ast.FloorDiv) and P(o.right) == a:
                num = P(o.left)
                if num == x + a - one:
                    return ("ok", "((x+a-1)//a)*a")
                if num == x:
                    return ("wrong", "(x//a)*a rounds down")
                return ("wrong", f"numerator {num!r}")
            if isinstance(o, ast.UnaryOp) and isinstance(o.op, ast.USub):
                i = o.operand
                if isinstance(i, ast.BinOp) and isinstance(i.op, ast.FloorDiv) and P(i.right) == a:
                    if P(i.left) == -x:
                        return ("ok", "-(-x//a)*a")
        return None
    if isinstance(e, ast.BinOp) and isinstance(e.op, ast.Add):
        for m, o in ((e.left, e.right), (e.right, e.left)):
            if P(m) == x and isinstance(o, ast.BinOp) and isinstance(o.op, ast.Mod):
                if P(o.right) == a and P(o.left) == -x:
                    return ("ok", "x + (-x % a)")
                if P(o.right) == a and P(o.left) == x:
                    return ("wrong", "x + (x % a) is not a round-up")
        return None
    return None


def match_ceildiv(lin, e, n, b, env=None):
    """ceil(n/b)?  accepted: int(np.ceil(n/b)), math.ceil(n/b), (n+b-1)//b, -(-n//b);
    known wrong: n//b, int(n/b), round(n/b), int(np.floor(n/b))"""
    one = Poly.const(1)
    P = lambda x: lin.poly(x, env)

    def is_div(x):
        return isinstance(x, ast.BinOp) and isinstance(x.op, ast.Div) and P(x.left) == n and P(x.right) == b

    if isinstance(e, ast.Call):
        fn = ast.unparse(e.func)
        if fn in ("int", "np.int64", "np.int32") and len(e.args) == 1:
            inner = e.args[0]
            if is_div(inner):
                return ("wrong", "int(n/b) truncates")
            r = match_ceildiv(lin, inner, n, b, env)
            return r
        if fn in ("np.ceil", "math.ceil", "numpy.ceil", "ceil") and len(e.args) == 1 and is_div(e.args[0]):
            return ("ok", "ceil(n/b)")
        if fn in ("np.floor", "math.floor", "round", "np.round", "np.rint", "floor") and e.args and is_div(e.args[0]):
            return ("wrong", f"{fn}(n/b) is not a ceiling")
        return None
    if isinstance(e, ast.BinOp) and isinstance(e.op, ast.FloorDiv):
        if P(e.right) == b:
            if P(e.left) == n + b - one:
                return ("ok", "(n+b-1)//b")
            if P(e.left) == n:
                return ("wrong", "n//b rounds down")
            return ("wrong", f"numerator {P(e.left)!r}")
        return None
    if isinstance(e, ast.UnaryOp) and isinstance(e.op, ast.USub):
        i = e.operand
        if isinstance(i, ast.BinOp) and isinstance(i.op, ast.FloorDiv) and P(i.right) == b and P(i.left) == -n:
            return ("ok", "-(-n//b)")
        return None
    return None
