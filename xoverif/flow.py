"""Structured control flow facts for one function: dominating conditions, dominance,
may-follow.  The repo uses only if/elif/else, for (break/continue/else), try, with, raise,
return, assert -- a syntax-directed walk with a small state decides the path rules.
"""
import ast

from .srcmodel import AnalysisError, norm, stmt_of, attr_chain


class Cond:
    __slots__ = ("test", "pol", "kind")

    def __init__(self, test, pol, kind="if"):
        self.test = test
        self.pol = pol
        self.kind = kind  # 'if' | 'assert' | 'loop-else' | 'bool' | 'compfilter'

    def text(self):
        t = norm(self.test)
        return t if self.pol else f"not ({t})"

    def __repr__(self):
        return f"<{self.text()}>"


def atoms(test, pol, kind="if"):
    """split a test under a polarity into a conjunction of atomic conditions"""
    if isinstance(test, ast.UnaryOp) and isinstance(test.op, ast.Not):
        return atoms(test.operand, not pol, kind)
    if isinstance(test, ast.BoolOp):
        if isinstance(test.op, ast.And) and pol:
            out = []
            for v in test.values:
                out.extend(atoms(v, True, kind))
            return out
        if isinstance(test.op, ast.Or) and not pol:
            out = []
            for v in test.values:
                out.extend(atoms(v, False, kind))
            return out
    return [Cond(test, pol, kind)]


_EXIT = (ast.Return, ast.Raise, ast.Continue, ast.Break)


def block_exits(stmts):
    """True when control never falls out of the end of this statement list"""
    for st in stmts:
        if isinstance(st, _EXIT):
            return True
        if isinstance(st, ast.If):
            if st.orelse and block_exits(st.body) and block_exits(st.orelse):
                return True
        if isinstance(st, ast.With) and block_exits(st.body):
            return True
        if isinstance(st, ast.Try):
            if st.finalbody and block_exits(st.finalbody):
                return True
            if block_exits(st.body) and all(block_exits(h.body) for h in st.handlers):
                if not st.orelse or block_exits(st.orelse):
                    return True
    return False


def func_exits(stmts):
    """True when every path through stmts leaves the *function* (return/raise), i.e. not
    merely the block (break/continue)"""
    for st in stmts:
        if isinstance(st, (ast.Return, ast.Raise)):
            return True
        if isinstance(st, ast.If):
            if st.orelse and func_exits(st.body) and func_exits(st.orelse):
                return True
        if isinstance(st, ast.With) and func_exits(st.body):
            return True
    return False


def _assigned_names(st):
    """textual lvalues (names / attribute chains) written by a statement (not nested blocks)"""
    out = set()

    def tgt(t):
        if isinstance(t, (ast.Tuple, ast.List)):
            for e in t.elts:
                tgt(e)
        elif isinstance(t, ast.Starred):
            tgt(t.value)
        elif isinstance(t, ast.Name):
            out.add(t.id)
        elif isinstance(t, ast.Attribute):
            c = attr_chain(t)
            if c:
                out.add(c)
        elif isinstance(t, ast.Subscript):
            c = attr_chain(t.value)
            if c:
                out.add(c + "[]")

    if isinstance(st, ast.Assign):
        for t in st.targets:
            tgt(t)
    elif isinstance(st, (ast.AugAssign, ast.AnnAssign)):
        tgt(st.target)
    elif isinstance(st, ast.For):
        tgt(st.target)
    elif isinstance(st, ast.With):
        for it in st.items:
            if it.optional_vars is not None:
                tgt(it.optional_vars)
    elif isinstance(st, ast.Delete):
        for t in st.targets:
            tgt(t)
    return out


def _mentions(test, names):
    for n in ast.walk(test):
        if isinstance(n, ast.Name) and n.id in names:
            return True
        if isinstance(n, ast.Attribute):
            c = attr_chain(n)
            if c and c in names:
                return True
    return False


def _all_assigned(stmts):
    out = set()
    for st in stmts:
        for n in ast.walk(st):
            if isinstance(n, ast.stmt):
                out |= _assigned_names(n)
    return out


class StmtInfo:
    __slots__ = ("conds", "loops", "path", "order")

    def __init__(self, conds, loops, path, order):
        self.conds = conds
        self.loops = loops
        self.path = path
        self.order = order


class Flow:
    """facts about one FunctionDef"""

    def __init__(self, func):
        self.func = func
        self.info = {}
        self._n = 0
        self._walk(func.body, [], [], [])

    # ------------------------------------------------------------------ construction
    def _rec(self, st, conds, loops, path):
        self.info[st] = StmtInfo(list(conds), list(loops), list(path), self._n)
        self._n += 1

    def _walk(self, stmts, conds, loops, path):
        conds = list(conds)
        bid = id(stmts)
        for i, st in enumerate(stmts):
            p = path + [(bid, i)]
            self._rec(st, conds, loops, p)
            if isinstance(st, ast.If):
                t = atoms(st.test, True)
                f = atoms(st.test, False)
                self._walk(st.body, conds + t, loops, p + [("body", 0)])
                self._walk(st.orelse, conds + f, loops, p + [("orelse", 0)])
                killed = _all_assigned(st.body) | _all_assigned(st.orelse)
                conds = [c for c in conds if not _mentions(c.test, killed)]
                be, oe = block_exits(st.body), (bool(st.orelse) and block_exits(st.orelse))
                if be and not oe and not _mentions(st.test, killed):
                    conds = conds + f
                elif oe and not be and not _mentions(st.test, killed):
                    conds = conds + t
            elif isinstance(st, (ast.For, ast.While)):
                killed = _all_assigned(st.body) | _assigned_names(st)
                inner = [c for c in conds if not _mentions(c.test, killed)]
                if isinstance(st, ast.While):
                    inner = inner + atoms(st.test, True)
                self._walk(st.body, inner, loops + [st], p + [("body", 0)])
                self._walk(st.orelse, inner, loops, p + [("orelse", 0)])
                conds = [c for c in conds if not _mentions(c.test, killed | _all_assigned(st.orelse))]
            elif isinstance(st, ast.Try):
                self._walk(st.body, conds, loops, p + [("body", 0)])
                killed = _all_assigned(st.body)
                after = [c for c in conds if not _mentions(c.test, killed)]
                for k, h in enumerate(st.handlers):
                    self._walk(h.body, after, loops, p + [("handler", k)])
                    killed |= _all_assigned(h.body)
                self._walk(st.orelse, after, loops, p + [("tryelse", 0)])
                killed |= _all_assigned(st.orelse)
                after = [c for c in conds if not _mentions(c.test, killed)]
                self._walk(st.finalbody, after, loops, p + [("finally", 0)])
                killed |= _all_assigned(st.finalbody)
                conds = [c for c in conds if not _mentions(c.test, killed)]
            elif isinstance(st, ast.With):
                self._walk(st.body, conds, loops, p + [("with", 0)])
                killed = _all_assigned(st.body) | _assigned_names(st)
                conds = [c for c in conds if not _mentions(c.test, killed)]
            elif isinstance(st, ast.Assert):
                conds = conds + atoms(st.test, True, "assert")
            else:
                killed = _assigned_names(st)
                if killed:
                    conds = [c for c in conds if not _mentions(c.test, killed)]

    # ------------------------------------------------------------------ queries
    def stmts(self):
        return sorted(self.info, key=lambda s: self.info[s].order)

    def stmt(self, node):
        s = stmt_of(node)
        while s is not None and s not in self.info:
            s = stmt_of(getattr(s, "parent", None))
        if s is None:
            raise AnalysisError(f"node {norm(node)[:60]} is not inside function {self.func.name}")
        return s

    def conds_at(self, node):
        """conditions known to hold when `node` (statement or sub-expression) is evaluated"""
        st = self.stmt(node)
        conds = list(self.info[st].conds)
        # expression-level short circuits between node and its statement
        child = node
        p = getattr(node, "parent", None)
        extra = []
        while child is not st and p is not None:
            if isinstance(p, ast.BoolOp):
                k = None
                for i, v in enumerate(p.values):
                    if v is child:
                        k = i
                if k:
                    for v in p.values[:k]:
                        extra.extend(atoms(v, isinstance(p.op, ast.And), "bool"))
            elif isinstance(p, ast.IfExp):
                if child is p.body:
                    extra.extend(atoms(p.test, True, "bool"))
                elif child is p.orelse:
                    extra.extend(atoms(p.test, False, "bool"))
            elif isinstance(p, (ast.ListComp, ast.SetComp, ast.GeneratorExp, ast.DictComp)):
                if child in (getattr(p, "elt", None), getattr(p, "key", None), getattr(p, "value", None)):
                    for g in p.generators:
                        for c in g.ifs:
                            extra.extend(atoms(c, True, "compfilter"))
            elif isinstance(p, ast.comprehension):
                pass
            child = p
            p = getattr(p, "parent", None)
        # a node inside the test of an If/While is evaluated before the test holds
        return conds + extra

    def loops_at(self, node):
        return list(self.info[self.stmt(node)].loops)

    def dominates(self, a, b):
        """statement a is executed before b on every path reaching b (structural)"""
        sa, sb = self.stmt(a), self.stmt(b)
        if sa is sb:
            return False
        pa, pb = self.info[sa].path, self.info[sb].path
        k = len(pa) - 1
        if len(pb) <= k:
            return False
        if pa[:k] != pb[:k]:
            return False
        (ba, ia), (bb, ib) = pa[k], pb[k]
        if ba != bb:
            return False
        if ia < ib:
            return True
        return False

    def ordered_before(self, a, b):
        """a (or the compound statement containing it) comes before b's in their common block:
        whenever both execute in one activation without a back edge, a executes first"""
        sa, sb = self.stmt(a), self.stmt(b)
        pa, pb = self.info[sa].path, self.info[sb].path
        n = 0
        while n < len(pa) and n < len(pb) and pa[n] == pb[n]:
            n += 1
        if n == len(pa) or n == len(pb):
            return False
        ea, eb = pa[n], pb[n]
        return ea[0] == eb[0] and not isinstance(ea[0], str) and ea[1] < eb[1]

    def may_follow(self, a, b):
        """b can be executed after a in one activation (program order, not on exclusive arms;
        also through a loop back edge)"""
        sa, sb = self.stmt(a), self.stmt(b)
        pa, pb = self.info[sa].path, self.info[sb].path
        # common loop => back edge
        la, lb = self.info[sa].loops, self.info[sb].loops
        if any(l in lb for l in la) and sa is not sb:
            back = True
        else:
            back = False
        n = 0
        while n < len(pa) and n < len(pb) and pa[n] == pb[n]:
            n += 1
        if n == len(pa) or n == len(pb):
            # one contains the other: a's compound statement contains b or vice versa
            return self.info[sa].order < self.info[sb].order or back
        ea, eb = pa[n], pb[n]
        if ea[0] != eb[0]:
            # different arms of the same compound statement
            if isinstance(ea[0], str) and isinstance(eb[0], str):
                kinds = {ea[0], eb[0]}
                if kinds <= {"body", "orelse"}:
                    return back
                # try/except/finally arms may follow one another
                return self.info[sa].order < self.info[sb].order or back
            return back
        if ea[1] < eb[1]:
            # a's ancestor statement precedes b's in the same block: check a's arm can fall out
            if self._falls_out(sa, n):
                return True
            return back
        return back

    def _falls_out(self, st, depth):
        """can control continue after the ancestor (at path depth `depth`) of st, having
        executed st?  False when every enclosing arm below that level always exits."""
        node = st
        path = self.info[st].path
        # walk up from st to the ancestor at `depth`
        cur = st
        level = len(path) - 1
        while level > depth:
            parent = cur.parent
            # find the block list containing cur
            blk = None
            for fld in ("body", "orelse", "finalbody"):
                b = getattr(parent, fld, None)
                if isinstance(b, list) and cur in b:
                    blk = b
            if blk is None and isinstance(parent, ast.ExceptHandler):
                blk = parent.body
            if blk is None:
                return True
            idx = blk.index(cur)
            if block_exits(blk[idx + 1 :]) or isinstance(cur, _EXIT):
                # leaves via return/raise/continue/break after cur
                rest = blk[idx + 1 :]
                if func_exits(rest) or isinstance(cur, (ast.Return, ast.Raise)):
                    return False
            cur = parent if not isinstance(parent, ast.ExceptHandler) else parent.parent
            level -= 2
        return True


# ---------------------------------------------------------------------- guard helpers
def find_cond(conds, pred):
    """first Cond for which pred(test_ast, polarity) is truthy"""
    for c in conds:
        r = pred(c.test, c.pol)
        if r:
            return c
    return None


def is_attr_test(test, attr):
    """test is `<x>.attr` ; returns the base expr text or None"""
    if isinstance(test, ast.Attribute) and test.attr == attr:
        return norm(test.value)
    return None


def compares(test):
    """yield (left, op, right) for simple (non-chained or chained pairwise) Compare"""
    if isinstance(test, ast.Compare):
        left = test.left
        for op, right in zip(test.ops, test.comparators):
            yield left, op, right
            left = right


# ---------------------------------------------------------------------- structured dataflow
class DF:
    """Forward must-analysis over structured statements.

    subclass and override: transfer(stmt, state) -> state ; refine(test, pol, state) -> state ;
    join(a, b) -> state ; visit_expr(node, state) (called for every expression owner before its
    effect).  States must be immutable values.  A block that always exits yields None.
    """

    def transfer(self, st, state):
        return state

    def refine(self, test, pol, state):
        return state

    def join(self, a, b):
        raise NotImplementedError

    def visit(self, st, state):
        pass

    def on_exit(self, st, state):
        pass

    def _refine_all(self, test, pol, state):
        for c in atoms(test, pol):
            state = self.refine(c.test, c.pol, state)
        return state

    def run(self, stmts, state):
        for st in stmts:
            if state is None:
                return None
            if isinstance(st, ast.If):
                self.visit(st.test, state)
                a = self.run(st.body, self._refine_all(st.test, True, state))
                b = self.run(st.orelse, self._refine_all(st.test, False, state))
                state = b if a is None else a if b is None else self.join(a, b)
            elif isinstance(st, (ast.For, ast.While)):
                self.visit(st.iter if isinstance(st, ast.For) else st.test, state)
                entry = self.transfer(st, state)  # loop target assignment
                out = self.run(st.body, entry)
                merged = entry if out is None else self.join(entry, out)
                # second pass for stability of must-facts
                out2 = self.run(st.body, merged)
                merged = merged if out2 is None else self.join(merged, out2)
                after = self.join(state, merged)
                oe = self.run(st.orelse, after) if st.orelse else after
                state = oe
            elif isinstance(st, ast.Try):
                a = self.run(st.body, state)
                outs = [a] if a is not None else []
                for h in st.handlers:
                    # handler may start from any point of the body: be conservative, start from entry joined with body end
                    hin = state if a is None else self.join(state, a)
                    o = self.run(h.body, hin)
                    if o is not None:
                        outs.append(o)
                if st.orelse and a is not None:
                    o = self.run(st.orelse, a)
                    outs = [x for x in outs if x is not a]
                    if o is not None:
                        outs.append(o)
                cur = None
                for o in outs:
                    cur = o if cur is None else self.join(cur, o)
                state = cur
                if st.finalbody:
                    state = self.run(st.finalbody, state if state is not None else state)
            elif isinstance(st, ast.With):
                self.visit(st, state)
                state = self.transfer(st, state)
                state = self.run(st.body, state)
            else:
                self.visit(st, state)
                state = self.transfer(st, state)
                if isinstance(st, ast.Return):
                    self.on_exit(st, state)
                if isinstance(st, (ast.Return, ast.Raise, ast.Continue, ast.Break)):
                    return None
        return state

    def run_function(self, func, state):
        out = self.run(func.body, state)
        if out is not None:
            self.on_exit(func, out)
        return out
