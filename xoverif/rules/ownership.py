"""FR -- who may give a region back to the allocator (C09, C04, C11).

`XBuffer.free(offset, size)` makes [offset, offset+size) available to the next request.  The object layer (structs,
arrays, strings, references, hybrid classes, type utilities) obtains its regions through `allocate_on_buffer`, which
hands an integer `_offset` given by the CALLER through as it is ("if offset is provided by the user we assume that we
can write there") -- such a region was never handed out by the allocator for this call and usually holds a live
object (rebuilding an object in place).  A `free` of it makes a live region reusable: the next object of a fitting
size is placed on top of it (copies that share storage with their original, C09; overlapping live allocations, C04;
a refused construction that changes the state of the buffer, C11).

Rule, over every call `<x>.free(a, n)` of the package outside the allocator classes themselves:

  owned     `a` is a local whose every definition in the function is the result of a direct `<buffer>.allocate(..)`
            call: the function frees what it allocated                                            -> ok
  foreign   `a` is (derived from) an `_offset` parameter / `self._offset` / the offset returned by
            `allocate_on_buffer(..)` or `get_a_buffer(..)`, and no enclosing test restricts the call to
            `_offset is None` (the allocator chose the place)                                     -> reported
  otherwise the origin of the region is not read by this rule                                     -> not decided (exit 2)

The pinned tree has no such call (expected count zero): the classifier is run on a built-in positive example and on a
built-in owned example on every run.
"""
import ast

from ..core import rule
from ..srcmodel import AnalysisError, norm, own_nodes

ALLOCATOR_CLASSES = {"XBuffer", "BufferNumpy", "BufferByteArray", "BufferCupy", "BufferPyopencl"}
PASS_THROUGH = {"allocate_on_buffer", "get_a_buffer"}

_POSITIVE = '''
class T:
    def __init__(self, *args, _context=None, _buffer=None, _offset=None):
        info = self._inspect_args(*args)
        self._buffer, self._offset = allocate_on_buffer(info.size, _context, _buffer, _offset)
        try:
            self._to_buffer(self._buffer, self._offset, info.value, info)
        except Exception:
            self._buffer.free(self._offset, info.size)
            raise
'''
_OWNED = '''
def scratch(buffer, n):
    tmp = buffer.allocate(n)
    try:
        work(buffer, tmp)
    finally:
        buffer.free(tmp, n)
'''
_GUARDED = '''
class T:
    def __init__(self, *args, _context=None, _buffer=None, _offset=None):
        info = self._inspect_args(*args)
        self._buffer, self._offset = allocate_on_buffer(info.size, _context, _buffer, _offset)
        try:
            self._to_buffer(self._buffer, self._offset, info.value, info)
        except Exception:
            if _offset is None:
                self._buffer.free(self._offset, info.size)
            raise
'''


def _parents(tree):
    for n in ast.walk(tree):
        for c in ast.iter_child_nodes(n):
            c._fr_parent = n


def _enclosing(node, kinds):
    p = getattr(node, "_fr_parent", None)
    while p is not None and not isinstance(p, kinds):
        p = getattr(p, "_fr_parent", None)
    return p


def _defs_of(fn, target_text):
    """right-hand sides (with the position inside a tuple target, if any) assigned to `target_text` in fn"""
    out = []
    for n in own_nodes(fn):
        if isinstance(n, ast.Assign):
            for t in n.targets:
                if norm(t) == target_text:
                    out.append((n.value, None))
                elif isinstance(t, (ast.Tuple, ast.List)):
                    for k, e in enumerate(t.elts):
                        if norm(e) == target_text:
                            out.append((n.value, k))
        elif isinstance(n, (ast.AnnAssign, ast.AugAssign)) and norm(n.target) == target_text and n.value is not None:
            out.append((n.value, None))
        elif isinstance(n, ast.NamedExpr) and norm(n.target) == target_text:
            out.append((n.value, None))
    return out


def _callee(e):
    if isinstance(e, ast.Call):
        f = e.func
        return f.id if isinstance(f, ast.Name) else f.attr if isinstance(f, ast.Attribute) else None
    return None


def classify(fn, call):
    """('owned'|'foreign'|'guarded'|'unknown', why)"""
    if not call.args and not call.keywords:
        return "unknown", "free() without arguments"
    a = call.args[0] if call.args else call.keywords[0].value
    params = {x.arg for x in fn.args.args + fn.args.kwonlyargs}
    seen = set()

    def origin(e, depth=0):
        txt = norm(e)
        if txt in seen or depth > 6:
            return set()
        seen.add(txt)
        if isinstance(e, ast.BinOp) and isinstance(e.op, (ast.Add, ast.Sub)):
            return origin(e.left, depth + 1) | origin(e.right, depth + 1) - {"const"}
        if isinstance(e, ast.Constant):
            return {"const"}
        if isinstance(e, ast.Name) and e.id in params and not _defs_of(fn, e.id):
            return {"foreign:parameter " + e.id} if "offset" in e.id else {"unknown:parameter " + e.id}
        if isinstance(e, (ast.Name, ast.Attribute)):
            ds = _defs_of(fn, txt)
            if not ds:
                if isinstance(e, ast.Attribute) and e.attr == "_offset":
                    return {"foreign:" + txt + " (the place of an existing object)"}
                return {"unknown:" + txt}
            out = set()
            for rhs, k in ds:
                c = _callee(rhs)
                if c == "allocate" and k is None:
                    out.add("owned")
                elif c in PASS_THROUGH:
                    out.add(f"foreign:{txt} = {c}(..) hands an integer _offset of the caller through as it is")
                else:
                    out |= origin(rhs, depth + 1)
            return out
        return {"unknown:" + txt}

    o = origin(a)
    foreign = sorted(x for x in o if x.startswith("foreign:"))
    unknown = sorted(x for x in o if x.startswith("unknown:"))
    if foreign:
        # restricted to the case in which the allocator chose the place?
        p = call
        while True:
            p = _enclosing(p, (ast.If, ast.IfExp, ast.While))
            if p is None or p is fn:
                break
            t = norm(p.test)
            if "_offset" in t and ("is None" in t or "is not None" in t or "isinstance" in t or "is_integer" in t):
                return "guarded", f"under `{t}`"
        return "foreign", foreign[0][8:]
    if unknown or not o:
        return "unknown", (unknown[0][8:] if unknown else norm(a))
    return "owned", "the result of an allocate(..) call of this function"


def _sites(tree):
    _parents(tree)
    for fn in ast.walk(tree):
        if not isinstance(fn, (ast.FunctionDef, ast.AsyncFunctionDef)):
            continue
        cls = _enclosing(fn, ast.ClassDef)
        for n in own_nodes(fn):
            if isinstance(n, ast.Call) and isinstance(n.func, ast.Attribute) and n.func.attr == "free":
                yield cls, fn, n


@rule("FR", ["C09", "C04", "C11"], "only a region the allocator handed out to THIS call is given back: no free() of a place the caller chose (an integer _offset is passed through by allocate_on_buffer and usually holds a live object)")
def fr(cx):
    m = cx.m
    # self-validation on the built-in examples
    for src, want in ((_POSITIVE, "foreign"), (_OWNED, "owned"), (_GUARDED, "guarded")):
        got = [classify(fn, c)[0] for _, fn, c in _sites(ast.parse(src))]
        cx.need(got == [want], f"FR: the built-in {want} example is classified {got}")
    n = 0
    for name in sorted(m.mods):
        mi = m.mod(name)
        tree = ast.parse(mi.source) if hasattr(mi, "source") else mi.tree
        for cls, fn, call in _sites(tree):
            if cls is not None and cls.name in ALLOCATOR_CLASSES:
                continue  # the allocator's own methods (decided by the A*/F*/AH rules)
            n += 1
            kind, why = classify(fn, call)
            where = f"{name}::{(cls.name + '.') if cls is not None else ''}{fn.name}"
            text = norm(call)[:120]
            loc = f"xobjects/{name}.py:{call.lineno}"
            if kind == "unknown":
                raise AnalysisError(f"[FR] {loc}: `{text}` in {where}: the origin of the freed region ({why}) is not read by this rule")
            if kind == "foreign":
                cx.bad(loc, construct=f"{where}: {text}", detail=f"gives back a region the allocator did not hand out to this call ({why}): when the caller named the place -- rebuilding an object in place with _offset=<int> -- the region holds a live object, and the next request of a fitting size is placed on top of it", anchor=where)
            else:
                cx.ok(loc, construct=f"{where}: {text}", detail=f"frees {why}", anchor=where)
    cx.ok(None, construct=f"{n} free() call(s) outside the allocator classes; built-in foreign / owned / guarded examples classified as such", detail="no region chosen by a caller is given back to the allocator", anchor="typeutils::allocate_on_buffer")
