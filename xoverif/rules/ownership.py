"""FR -- who may give a region back to the allocator (C09, C04, C11).

`XBuffer.free(offset, size)` makes [offset, offset+size) available to the next request.  The object layer (structs,
arrays, strings, references, hybrid classes, type utilities) obtains its regions through `allocate_on_buffer`, which
hands an integer `_offset` given by the CALLER through as it is ("if offset is provided by the user we assume that we
can write there") -- such a region was never handed out by the allocator for this call and usually holds a live
object (rebuilding an object in place).  A `free` of it makes a live region reusable: the next object of a fitting
size is placed on top of it (copies that share storage with their original, C09; overlapping live allocations, C04;
a refused construction that changes the state of the buffer, C11).

Rule, over every call `<x>.free(a, n)` of the package outside the allocator classes themselves:

  owned     `a` is a local whose every definition in the function is the result of a direct `<buffer>.allocate(..)`
            call: the function frees what it allocated                                            -> ok
  foreign   `a` is (derived from) an `_offset` parameter / `self._offset` / the offset returned by
            `allocate_on_buffer(..)` or `get_a_buffer(..)`, and no enclosing test restricts the call to
            `_offset is None` (the allocator chose the place)                                     -> reported
  otherwise the origin of the region is not read by this rule                                     -> not decided (exit 2)

The pinned tree has no such call (expected count zero): the classifier is run on a built-in positive example and on a
built-in owned example on every run.
"""
import ast

from ..core import rule
from ..srcmodel import AnalysisError, norm, own_nodes

ALLOCATOR_CLASSES = {"XBuffer", "BufferNumpy", "BufferByteArray", "BufferCupy", "BufferPyopencl"}
PASS_THROUGH = {"allocate_on_buffer", "get_a_buffer"}

_POSITIVE = '''
class T:
    def __init__(self, *args, _context=None, _buffer=None, _offset=None):
        info = self._inspect_args(*args)
        self._buffer, self._offset = allocate_on_buffer(info.size, _context, _buffer, _offset)
        try:
            self._to_buffer(self._buffer, self._offset, info.value, info)
        except Exception:
            self._buffer.free(self._offset, info.size)
            raise
'''
_OWNED = '''
def scratch(buffer, n):
    tmp = buffer.allocate(n)
    try:
        work(buffer, tmp)
    finally:
        buffer.free(tmp, n)
'''
_GUARDED = '''
class T:
    def __init__(self, *args, _context=None, _buffer=None, _offset=None):
        info = self._inspect_args(*args)
        self._buffer, self._offset = allocate_on_buffer(info.size, _context, _buffer, _offset)
        try:
            self._to_buffer(self._buffer, self._offset, info.value, info)
        except Exception:
            if _offset is None:
                self._buffer.free(self._offset, info.size)
            raise
'''


def _parents(tree):
    for n in ast.walk(tree):
        for c in ast.iter_child_nodes(n):
            c._fr_parent = n


def _enclosing(node, kinds):
    p = getattr(node, "_fr_parent", None)
    while p is not None and not isinstance(p, kinds):
        p = getattr(p, "_fr_parent", None)
    return p


def _defs_of(fn, target_text):
    """right-hand sides (with the position inside a tuple target, if any) assigned to `target_text` in fn"""
    out = []
    for n in own_nodes(fn):
        if isinstance(n, ast.Assign):
            for t in n.targets:
                if norm(t) == target_text:
                    out.append((n.value, None))
                elif isinstance(t, (ast.Tuple, ast.List)):
                    for k, e in enumerate(t.elts):
                        if norm(e) == target_text:
                            out.append((n.value, k))
        elif isinstance(n, (ast.AnnAssign, ast.AugAssign)) and norm(n.target) == target_text and n.value is not None:
            out.append((n.value, None))
        elif isinstance(n, ast.NamedExpr) and norm(n.target) == target_text:
            out.append((n.value, None))
    return out


def _callee(e):
    if isinstance(e, ast.Call):
        f = e.func
        return f.id if isinstance(f, ast.Name) else f.attr if isinstance(f, ast.Attribute) else None
    return None


def classify(fn, call):
    """('owned'|'foreign'|'guarded'|'unknown', why)"""
    if not call.args and not call.keywords:
        return "unknown", "free() without arguments"
    a = call.args[0] if call.args else call.keywords[0].value
    params = {x.arg for x in fn.args.args + fn.args.kwonlyargs}
    seen = set()

    def origin(e, depth=0):
        txt = norm(e)
        if txt in seen or depth > 6:
            return set()
        seen.add(txt)
        if isinstance(e, ast.BinOp) and isinstance(e.op, (ast.Add, ast.Sub)):
            return origin(e.left, depth + 1) | origin(e.right, depth + 1) - {"const"}
        if isinstance(e, ast.Constant):
            return {"const"}
        if isinstance(e, ast.Name) and e.id in params and not _defs_of(fn, e.id):
            return {"foreign:parameter " + e.id} if "offset" in e.id else {"unknown:parameter " + e.id}
        if isinstance(e, (ast.Name, ast.Attribute)):
            ds = _defs_of(fn, txt)
            if not ds:
                if isinstance(e, ast.Attribute) and e.attr == "_offset":
                    return {"foreign:" + txt + " (the place of an existing object)"}
                return {"unknown:" + txt}
            out = set()
            for rhs, k in ds:
                c = _callee(rhs)
                if c == "allocate" and k is None:
                    out.add("owned")
                elif c in PASS_THROUGH:
                    out.add(f"foreign:{txt} = {c}(..) hands an integer _offset of the caller through as it is")
                else:
                    out |= origin(rhs, depth + 1)
            return out
        return {"unknown:" + txt}

    o = origin(a)
    foreign = sorted(x for x in o if x.startswith("foreign:"))
    unknown = sorted(x for x in o if x.startswith("unknown:"))
    if foreign:
        # restricted to the case in which the allocator chose the place?
        p = call
        while True:
            p = _enclosing(p, (ast.If, ast.IfExp, ast.While))
            if p is None or p is fn:
                break
            t = norm(p.test)
            if "_offset" in t and ("is None" in t or "is not None" in t or "isinstance" in t or "is_integer" in t):
                return "guarded", f"under `{t}`"
        return "foreign", foreign[0][8:]
    if unknown or not o:
        return "unknown", (unknown[0][8:] if unknown else norm(a))
    return "owned", "the result of an allocate(..) call of this function"


def _sites(tree):
    _parents(tree)
    for fn in ast.walk(tree):
        if not isinstance(fn, (ast.FunctionDef, ast.AsyncFunctionDef)):
            continue
        cls = _enclosing(fn, ast.ClassDef)
        for n in own_nodes(fn):
            if isinstance(n, ast.Call) and isinstance(n.func, ast.Attribute) and n.func.attr == "free":
                yield cls, fn, n


@rule("FR", ["C09", "C04", "C11"], "only a region the allocator handed out to THIS call is given back: no free() of a place the caller chose (an integer _offset is passed through by allocate_on_buffer and usually holds a live object)")
def fr(cx):
    m = cx.m
    # self-validation on the built-in examples
    for src, want in ((_POSITIVE, "foreign"), (_OWNED, "owned"), (_GUARDED, "guarded")):
        got = [classify(fn, c)[0] for _, fn, c in _sites(ast.parse(src))]
        cx.need(got == [want], f"FR: the built-in {want} example is classified {got}")
    n = 0
    for name in sorted(m.mods):
        mi = m.mod(name)
        tree = ast.parse(mi.source) if hasattr(mi, "source") else mi.tree
        for cls, fn, call in _sites(tree):
            if cls is not None and cls.name in ALLOCATOR_CLASSES:
                continue  # the allocator's own methods (decided by the A*/F*/AH rules)
            n += 1
            kind, why = classify(fn, call)
            where = f"{name}::{(cls.name + '.') if cls is not None else ''}{fn.name}"
            text = norm(call)[:120]
            loc = f"xobjects/{name}.py:{call.lineno}"
            if kind == "unknown":
                raise AnalysisError(f"[FR] {loc}: `{text}` in {where}: the origin of the freed region ({why}) is not read by this rule")
            if kind == "foreign":
                cx.bad(loc, construct=f"{where}: {text}", detail=f"gives back a region the allocator did not hand out to this call ({why}): when the caller named the place -- rebuilding an object in place with _offset=<int> -- the region holds a live object, and the next request of a fitting size is placed on top of it", anchor=where)
            else:
                cx.ok(loc, construct=f"{where}: {text}", detail=f"frees {why}", anchor=where)
    cx.ok(None, construct=f"{n} free() call(s) outside the allocator classes; built-in foreign / owned / guarded examples classified as such", detail="no region chosen by a caller is given back to the allocator", anchor="typeutils::allocate_on_buffer")


# ------------------------------------------------------------------------------------------ PI placement independence
"""PI -- what a writer of the object layer writes, and where inside the object, does not depend on WHERE the object
lies (C03, C01: "wherever in that buffer it lands").

The layout is relative: sizes and part positions are functions of the type and the value, rounded to slots RELATIVE to
the object's start.  A rounding (`_to_slot_size`, `//`, `%`, `&`, `*` ...) applied to an ABSOLUTE position -- the
`offset` parameter of a function that also takes the buffer, `self._offset`, and what is derived from them by + and -
-- gives a quantity that changes with the placement; used as a position or length of a store it reaches past (or
stops short of) the object's extent for placements that are not multiples of the slot size (packed placement, explicit
offsets, any offset on a context with alignment 1 after an odd-sized allocation).

Two taints over each function, flow-insensitive fixed points through local assignments:
  A  absolute position      parameter `offset` / `_offset` of a function with a `buffer` parameter, `<x>._offset`,
                            closed under + and - and plain copies;
  R  rounded absolute       any expression in which an A-tainted operand meets a non-additive operator or a rounding
                            helper, closed under every operator.
Reported: an R-tainted argument of a storing call (`update_from_buffer / _nplike / _xbuffer / _native`, `_to_buffer`,
`_array_to_buffer`, `_update`, `_set_offsets`).  Alignment TESTS (`offset % 8 == 0` in an assert / if) store nothing and
are not reported.  Expected count on the pinned tree: zero; a built-in positive example is classified on every run.
"""
STORES = {"update_from_buffer", "update_from_nplike", "update_from_xbuffer", "update_from_native", "_to_buffer", "_array_to_buffer", "_set_offsets"}
ROUNDERS = {"_to_slot_size", "_align", "align", "round_up", "ceil", "floor"}
NONADD = (ast.FloorDiv, ast.Mod, ast.BitAnd, ast.BitOr, ast.BitXor, ast.RShift, ast.LShift, ast.Mult, ast.Div, ast.Pow)

_PI_POSITIVE = '''
class A:
    @classmethod
    def _to_buffer(cls, buffer, offset, value, info=None):
        coffset = offset + 16
        end = coffset + info.items * 2
        slack = _to_slot_size(end) - end
        if slack > 0:
            buffer.update_from_buffer(end, b"\\x00" * slack)
'''
_PI_NEGATIVE = '''
class A:
    @classmethod
    def _to_buffer(cls, buffer, offset, value, info=None):
        assert offset % 8 == 0
        size = _to_slot_size(info.items * 2)
        buffer.update_from_buffer(offset + 16, b"\\x00" * size)
'''


def _pi_function(fn):
    """-> list of (call node, argument text, why) for R-tainted arguments of storing calls"""
    params = [a.arg for a in fn.args.args + fn.args.kwonlyargs]
    A = set()
    if "buffer" in params or "_buffer" in params:
        A |= {p for p in params if p in ("offset", "_offset")}
    R = {}

    def is_A(e):
        if isinstance(e, ast.Name):
            return e.id in A
        if isinstance(e, ast.Attribute):
            return e.attr == "_offset"
        if isinstance(e, ast.BinOp) and isinstance(e.op, (ast.Add, ast.Sub)):
            return is_A(e.left) or is_A(e.right)
        if isinstance(e, ast.IfExp):
            return is_A(e.body) or is_A(e.orelse)
        return False

    def why_R(e):
        """None or a description of the rounding of an absolute position inside e"""
        if isinstance(e, ast.Name):
            return R.get(e.id)
        if isinstance(e, ast.BinOp):
            if isinstance(e.op, NONADD) and (is_A(e.left) or is_A(e.right)):
                return f"`{norm(e)[:60]}`"
            return why_R(e.left) or why_R(e.right)
        if isinstance(e, ast.UnaryOp):
            return why_R(e.operand)
        if isinstance(e, ast.Call):
            nm = _callee(e)
            if nm in ROUNDERS and any(is_A(a) for a in e.args):
                return f"`{norm(e)[:60]}`"
            for a in list(e.args) + [k.value for k in e.keywords]:
                w = why_R(a)
                if w and nm in ("int", "max", "min", "abs", "bytes", "bytearray", "range", "len") | ROUNDERS:
                    return w
            return None
        if isinstance(e, ast.IfExp):
            return why_R(e.body) or why_R(e.orelse)
        if isinstance(e, (ast.Tuple, ast.List)):
            for x in e.elts:
                w = why_R(x)
                if w:
                    return w
        return None

    changed = True
    while changed:
        changed = False
        for n in own_nodes(fn):
            if isinstance(n, ast.Assign) and len(n.targets) == 1 and isinstance(n.targets[0], ast.Name):
                t = n.targets[0].id
                if t not in A and is_A(n.value) and not why_R(n.value):
                    A.add(t)
                    changed = True
                w = why_R(n.value)
                if w and t not in R:
                    R[t] = w
                    changed = True
            elif isinstance(n, ast.AugAssign) and isinstance(n.target, ast.Name):
                t = n.target.id
                if isinstance(n.op, (ast.Add, ast.Sub)) and t not in A and is_A(n.value):
                    A.add(t)
                    changed = True
                w = why_R(n.value)
                if w and t not in R:
                    R[t] = w
                    changed = True
    out = []
    for n in own_nodes(fn):
        if isinstance(n, ast.Call) and _callee(n) in STORES:
            for a in list(n.args) + [k.value for k in n.keywords]:
                w = why_R(a)
                if w:
                    out.append((n, norm(a)[:60], w))
                    break
    return out, bool(A)


@rule("PI", ["C03", "C01"], "writers of the object layer round sizes, never absolute positions: no store whose position or length is a rounding of the object's absolute offset (placement independence of the layout)")
def pi(cx):
    m = cx.m
    for src, want in ((_PI_POSITIVE, 1), (_PI_NEGATIVE, 0)):
        tree = ast.parse(src)
        got = sum(len(_pi_function(fn)[0]) for fn in ast.walk(tree) if isinstance(fn, ast.FunctionDef))
        cx.need(got == want, f"PI: the built-in {'positive' if want else 'negative'} example gives {got} report(s)")
    nfun = nbad = 0
    for name in ("array", "struct", "string", "ref", "scalar", "hybrid_class", "typeutils"):
        mi = m.mod(name)
        tree = ast.parse(mi.source)
        _parents(tree)
        for fn in ast.walk(tree):
            if not isinstance(fn, ast.FunctionDef):
                continue
            reports, has_abs = _pi_function(fn)
            if not has_abs and not reports:
                continue
            nfun += 1
            cls = _enclosing(fn, ast.ClassDef)
            where = f"{name}::{(cls.name + '.') if cls is not None else ''}{fn.name}"
            for call, arg, why in reports:
                nbad += 1
                cx.bad(f"xobjects/{name}.py:{call.lineno}", construct=f"{where}: {norm(call)[:110]}", detail=f"the argument `{arg}` of a store derives from {why}, a rounding of an ABSOLUTE position: for an object that does not start on a multiple of the rounding unit (packed / explicit offsets, alignment 1 after an odd-sized allocation) the store reaches beyond what was planned relative to the object's start -- into the slack or the first bytes of whatever lies behind it", anchor=where)
    cx.need(nfun >= 10, f"PI: only {nfun} functions of the object layer take an absolute position")
    if not nbad:
        cx.ok(None, construct=f"{nfun} functions of the object layer that take an absolute position (buffer + offset, self._offset)", detail="no store whose position or length is a rounding of an absolute position", anchor="typeutils::_to_slot_size")


# ------------------------------------------------------------------------------------------ AO own offset tables
"""AO -- the item-offset table an array handle caches is its OWN array object (C03, C10, C06).

`Array._from_buffer` caches `_offsets` as a live numpy VIEW of the table stored in the buffer; a constructor handle
caches the table the planner made.  A new object that takes over `value._offsets` of the object it is built from --
without copying it -- caches a view of the SOURCE's table: a later re-layout of the source (fitting items of other
sizes) moves the copy's items under its handle, reads then land inside other items and a fitting assignment through
the copy writes outside the copy.  Rule over array.py: `<p>._offsets` of a parameter p other than self, and locals
assigned from it, never reach `Info(.., offsets=..)`, `<x>.offsets = ..`, `self._offsets = ..` or a `return` unless a
copying operation lies on the way (`.copy()`, `np.array(..)`, `list(..)`, an element-wise store `t[...] = ..`).
Expected count zero; a built-in positive and a built-in negative example are classified on every run."""
_AO_POSITIVE = '''
class Array:
    @classmethod
    def _inspect_args(cls, *args):
        value = args[0]
        if isinstance(value, cls) and not cls._has_refs:
            offsets = value._offsets
            offset = value._size
        return Info(size=offset, offsets=offsets)
'''
_AO_NEGATIVE = '''
class Array:
    @classmethod
    def _inspect_args(cls, *args):
        value = args[0]
        offsets = np.empty(shape, dtype="int64")
        if isinstance(value, cls) and not cls._has_refs:
            offsets[...] = value._offsets
            other = value._offsets.copy()
        return Info(size=offset, offsets=offsets, more=other)
'''
_AO_COPIES = {"copy", "array", "list", "tuple", "deepcopy", "tolist", "ascontiguousarray"}


def _ao_function(fn):
    params = {a.arg for a in fn.args.args + fn.args.kwonlyargs} - {"self", "cls"}
    if fn.args.vararg is not None:
        params.add(fn.args.vararg.arg)
    # locals bound to (an element of) a parameter: `value = args[0]`
    changed = True
    while changed:
        changed = False
        for n in own_nodes(fn):
            if isinstance(n, ast.Assign) and len(n.targets) == 1 and isinstance(n.targets[0], ast.Name) and n.targets[0].id not in params:
                v = n.value
                while isinstance(v, ast.Subscript):
                    v = v.value
                if isinstance(v, ast.Name) and v.id in params:
                    params.add(n.targets[0].id)
                    changed = True
    T = {}

    def src(e):
        """None or the text of the foreign table e may be"""
        if isinstance(e, ast.Attribute) and e.attr == "_offsets" and isinstance(e.value, ast.Name) and e.value.id in params:
            return norm(e)
        if isinstance(e, ast.Name):
            return T.get(e.id)
        if isinstance(e, ast.IfExp):
            return src(e.body) or src(e.orelse)
        if isinstance(e, ast.Call):
            nm = _callee(e)
            if nm in _AO_COPIES:
                return None
            if nm in ("asarray", "reshape", "view", "transpose", "ravel", "squeeze") :
                base = e.func.value if isinstance(e.func, ast.Attribute) and not (isinstance(e.func.value, ast.Name) and e.func.value.id in ("np", "numpy")) else (e.args[0] if e.args else None)
                return src(base) if base is not None else None
            return None
        if isinstance(e, ast.Subscript) and isinstance(e.slice, (ast.Slice, ast.Constant)) and getattr(e.slice, "value", None) is Ellipsis:
            return src(e.value)
        return None

    changed = True
    while changed:
        changed = False
        for n in own_nodes(fn):
            if isinstance(n, ast.Assign) and len(n.targets) == 1 and isinstance(n.targets[0], ast.Name):
                w = src(n.value)
                if w and n.targets[0].id not in T:
                    T[n.targets[0].id] = w
                    changed = True
    out = []
    for n in own_nodes(fn):
        if isinstance(n, ast.Call) and _callee(n) == "Info":
            for a in list(n.args) + [k.value for k in n.keywords]:
                w = src(a)
                if w:
                    out.append((n, f"Info(.. {norm(a)} ..)", w))
        elif isinstance(n, ast.Assign):
            for t in n.targets:
                if isinstance(t, ast.Attribute) and t.attr in ("offsets", "_offsets"):
                    w = src(n.value)
                    if w:
                        out.append((n, f"{norm(t)} = {norm(n.value)[:50]}", w))
        elif isinstance(n, ast.Return) and n.value is not None:
            w = src(n.value)
            if w:
                out.append((n, f"return {norm(n.value)[:50]}", w))
    return out


@rule("AO", ["C03", "C10", "C06"], "an array handle's cached item-offset table is its own object: the table of the object a new one is built from is copied, never taken over (a view-made handle's table is a live view of the buffer)")
def ao(cx):
    m = cx.m
    for srctext, want in ((_AO_POSITIVE, 1), (_AO_NEGATIVE, 0)):
        got = sum(len(_ao_function(fn)) for fn in ast.walk(ast.parse(srctext)) if isinstance(fn, ast.FunctionDef))
        cx.need(got == want, f"AO: the built-in {'positive' if want else 'negative'} example gives {got} report(s)")
    mi = m.mod("array")
    tree = ast.parse(mi.source)
    _parents(tree)
    nfun = nbad = nuse = 0
    for fn in ast.walk(tree):
        if not isinstance(fn, ast.FunctionDef):
            continue
        nfun += 1
        nuse += sum(1 for n in own_nodes(fn) if isinstance(n, ast.Attribute) and n.attr == "_offsets" and not (isinstance(n.value, ast.Name) and n.value.id == "self"))
        cls = _enclosing(fn, ast.ClassDef)
        where = f"array::{(cls.name + '.') if cls is not None else ''}{fn.name}"
        for node, what, w in _ao_function(fn):
            nbad += 1
            cx.bad(f"xobjects/array.py:{node.lineno}", construct=f"{where}: {what}", detail=f"the new object's offset table IS `{w}`, the table cached by the object it is built from (for a handle made by _from_buffer: a live view of the table in the buffer) -- a later re-layout of the source moves the new object's items under its handle: reads land inside other items, a fitting assignment writes outside the object", anchor=where)
    cx.need(nuse >= 1, "AO: array.py no longer reads the offset table of another object anywhere (the rule has nothing to look at)")
    if not nbad:
        cx.ok(None, construct=f"{nfun} functions of array.py, {nuse} read(s) of another object's `_offsets`", detail="each is copied element-wise / read for a value; none is taken over as the new object's table", anchor="array::Array._inspect_args")


# ------------------------------------------------------------------------------------------ P6 slots vs pickling
_P6_POSITIVE = '''
class Chunk:
    __slots__ = ("start", "end")

    def __init__(self, start, end):
        self.start = start
        self.end = end
'''
_P6_NEGATIVE = '''
class Chunk:
    __slots__ = ("start", "end")

    def __getstate__(self):
        return (self.start, self.end)

    def __setstate__(self, st):
        self.start, self.end = st
'''


def _p6_classes(tree):
    """[(ClassDef, has_slots, has_state_protocol)] -- base classes of the same module are followed for the protocol"""
    classes = {c.name: c for c in ast.walk(tree) if isinstance(c, ast.ClassDef)}

    def own(c, names):
        for st in c.body:
            if isinstance(st, ast.FunctionDef) and st.name in names:
                return True
            if isinstance(st, ast.Assign) and any(isinstance(t, ast.Name) and t.id in names for t in st.targets):
                return True
        return False

    def has_protocol(c, seen=()):
        if own(c, {"__getstate__", "__reduce__", "__reduce_ex__", "__getnewargs__", "__getnewargs_ex__"}):
            return True
        for b in c.bases:
            bn = b.id if isinstance(b, ast.Name) else b.attr if isinstance(b, ast.Attribute) else None
            if bn in classes and bn not in seen and has_protocol(classes[bn], seen + (c.name,)):
                return True
        return False

    return [(c, own(c, {"__slots__"}), has_protocol(c)) for c in classes.values()]


@rule("P6", ["C20"], "classes whose instances travel inside a pickled buffer / context (free-list chunks, buffers, contexts, kernels' descriptions) do not declare __slots__ without a state protocol: such a class cannot be pickled with protocols 0 and 1")
def p6(cx):
    """Buffers are pickled through their instance dictionary, which holds the free list (`chunks`: Chunk objects), the
    context, the storage.  CPython pickles an instance of a class with `__slots__` and no `__getstate__` / `__reduce__`
    only with protocol >= 2: with protocols 0 and 1 `pickle.dumps` of ANY object whose buffer has a non-empty free list
    raises TypeError -- nothing comes back.  Decided structurally over context.py and context_cpu.py; expected count
    zero, built-in positive and negative examples classified on every run."""
    m = cx.m
    for src, want in ((_P6_POSITIVE, 1), (_P6_NEGATIVE, 0)):
        got = sum(1 for c, slots, proto in _p6_classes(ast.parse(src)) if slots and not proto)
        cx.need(got == want, f"P6: the built-in {'positive' if want else 'negative'} example gives {got} report(s)")
    n = nbad = 0
    for name in ("context", "context_cpu"):
        mi = m.mod(name)
        for c, slots, proto in _p6_classes(ast.parse(mi.source)):
            n += 1
            if slots and not proto:
                nbad += 1
                cx.bad(f"xobjects/{name}.py:{c.lineno}", construct=f"class {c.name}: __slots__ without __getstate__ / __reduce__", detail="instances are part of the state of a pickled buffer or context; pickle protocols 0 and 1 refuse such a class (TypeError: a class that defines __slots__ without defining __getstate__ cannot be pickled), so pickling any object whose buffer holds one fails", anchor=f"{name}::{c.name}")
    cx.need(n >= 8, f"P6: only {n} classes found in context.py / context_cpu.py")
    if not nbad:
        cx.ok(None, construct=f"{n} classes of context.py / context_cpu.py", detail="none declares __slots__ without a state protocol", anchor="context::Chunk")
