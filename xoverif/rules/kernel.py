"""Kernel call rules K1-K6, scalar/C type tables T5/K3 (DESIGN 4.C17, 4.C16 launch geometry)."""
import ast

from ..core import rule
from ..flow import Flow
from ..idioms import match_ceildiv
from ..linear import Defs, Lin, Poly
from ..srcmodel import str_template, AnalysisError, call_name, get_arg, norm, own_nodes, param_names, short

# oracle: numpy dtype name -> (C type, bytes, signed, float)
CTYPE = {
    "float64": ("double", 8, True, True),
    "float32": ("float", 4, True, True),
    "int64": ("int64_t", 8, True, False),
    "uint64": ("uint64_t", 8, False, False),
    "int32": ("int32_t", 4, True, False),
    "uint32": ("uint32_t", 4, False, False),
    "int16": ("int16_t", 2, True, False),
    "uint16": ("uint16_t", 2, False, False),
    "int8": ("int8_t", 1, True, False),
    "uint8": ("uint8_t", 1, False, False),
}


@rule("T5", ["C02", "C07", "C17", "C01"], "scalar <-> C type tables agree with the width/signedness oracle")
def t5(cx):
    m = cx.m
    tree = m.mod("scalar").tree
    n = 0
    for st in tree.body:
        if isinstance(st, ast.Assign) and isinstance(st.value, ast.Call) and call_name(st.value) == "NumpyScalar":
            a = st.value.args
            cx.need(len(a) == 2 and all(isinstance(x, ast.Constant) for x in a), f"NumpyScalar declaration `{short(st)}` not literal")
            dt, ct = a[0].value, a[1].value
            name = norm(st.targets[0])
            if dt.startswith("complex"):
                cx.note(st, detail="complex kinds are not exported numeric kinds of the property (exempt)")
                continue
            n += 1
            cx.need(dt in CTYPE, f"unknown dtype {dt} in scalar table")
            cx.check(CTYPE[dt][0] == ct, st, construct=f"{name} = NumpyScalar({dt!r}, {ct!r})", detail=f"{dt} <-> {ct}: {CTYPE[dt][1]} bytes",
                     bad_detail=f"{dt} declared with C type {ct!r}, expected {CTYPE[dt][0]!r}: width/signedness of the C access differs from the Python one")
            cx.check(name.lower() == dt, st, construct=f"{name} names dtype {dt}", detail="exported name matches its dtype", bad_detail=f"{name} is bound to dtype {dt}", sub="name")
    cx.need(n == 10, f"expected the 10 numeric scalar kinds, found {n}")
    # evaluated: the table as it stands after the module body has run, and dtype2ctype on every numeric kind
    from ..peval import Interp, Obj as _Obj, PyExc as _PyExc
    I = Interp(m)
    f = m.func("context_cpu::dtype2ctype")
    dd = I.global_lookup("context_cpu", "dtype_dict")
    cx.recog(isinstance(dd, dict) and all(isinstance(k, str) and isinstance(v, str) for k, v in dd.items()), f, "context_cpu.dtype_dict: not a table of strings")
    for k, v in dd.items():
        if k not in CTYPE:
            cx.note(None, detail=f"dtype_dict[{k!r}] = {v!r}: not one of the 10 numeric kinds of the property (not judged)")
            continue
        cx.check(CTYPE[k][0] == v, None, construct=f"dtype_dict[{k!r}] = {v!r}", detail="ndarray dtype -> C pointer type",
                 bad_detail=f"dtype_dict maps {k} to {v!r}, expected {CTYPE.get(k, ('?',))[0]!r}", sub="dtype_dict", anchor="context_cpu::")
    fv = I.global_lookup("context_cpu", "dtype2ctype")
    for k in sorted(CTYPE):
        try:
            got = I.call(fv, [_Obj("instance", {"name": k}, name="dtype")], {})
        except _PyExc as e:
            got = f"raises {e.etype}"
        cx.check(got == CTYPE[k][0], None, construct=f"dtype2ctype(dtype('{k}'))", detail=f"-> {CTYPE[k][0]}", bad_detail=f"an array of {k} is passed to C as `{got}`, expected `{CTYPE[k][0]}`", sub="dtype_dict", anchor="context_cpu::dtype2ctype")


@rule("K1", ["C17", "C02", "C07"], "kernel arguments: xobjects are passed as address(current storage)+current offset, arrays as a pointer to their first element with the element's C type")
def k1(cx):
    m = cx.m
    fn = m.func("context_cpu::KernelCpu.to_function_arg")
    fl = Flow(fn)
    d = Defs(fn)
    lin = Lin(d.resolver())
    MAYCOPY = {"ascontiguousarray", "asfortranarray", "copy", "astype", "array", "asarray", "tobytes", "flatten", "require", "asanyarray", "bytes", "bytearray"}
    casts = [c for c in own_nodes(fn) if isinstance(c, ast.Call) and call_name(c) == "cast"]
    kinds = {}
    for c in casts:
        txt = " & ".join(x.text() for x in fl.conds_at(c) if x.kind == "if")
        if "arg.pointer" in txt and "hasattr(value, 'dtype')" in txt and "not (hasattr(value, 'dtype'))" not in txt:
            kinds["ndarray"] = c
        elif "arg.pointer" in txt and "hasattr(value, '_shape')" in txt:
            kinds["xoarray"] = c
        elif "not (arg.pointer)" in txt and "_size" in txt:
            kinds["compound"] = c
    # the ndarray arm, whatever its shape: the pointer must be taken from `value`'s own memory -- a call that may copy
    # (ascontiguousarray, astype, copy, np.array ...) hands the kernel a temporary: its writes are lost, its reads stale
    nd_rets = []
    for r in own_nodes(fn):
        if isinstance(r, ast.Return) and r.value is not None:
            txt = " & ".join(x.text() for x in fl.conds_at(r) if x.kind == "if")
            if "arg.pointer" in txt and "hasattr(value, 'dtype')" in txt and "not (hasattr(value, 'dtype'))" not in txt:
                nd_rets.append(r)
    cx.need(len(nd_rets) >= 1, "to_function_arg: the ndarray arm (arg.pointer, scalar type, value has dtype) not found")
    for r in nd_rets:
        exprs = [r.value]
        seen = set()
        copies = []
        while exprs:
            e = exprs.pop()
            for n in ast.walk(e):
                if isinstance(n, ast.Name) and n.id not in seen and d.single(n.id) is not None:
                    seen.add(n.id)
                    exprs.append(d.single(n.id))
                if isinstance(n, ast.Call) and call_name(n) in MAYCOPY and any(isinstance(q, ast.Name) and q.id == "value" for a in list(n.args) + [n.func] for q in ast.walk(a)):
                    copies.append(n)
        cx.check(not copies, copies[0] if copies else r, construct=f"ndarray arm: {short(r.value, 110)}", detail="the pointer is derived from the caller's array itself (no copying call on the way)",
                 bad_detail=f"`{call_name(copies[0]) if copies else ''}` may copy the caller's array (it does for strided / reversed / F-ordered / transposed arrays): the kernel then works on a temporary, everything it writes is lost and x[i] reads the compacted copy", sub="ndarray.nocopy")
    if set(kinds) != {"ndarray", "xoarray", "compound"}:
        if any(i.verdict == "violation" for i in cx.insts):
            return  # already decided; the shape-specific checks below do not apply to this shape
        cx.need(False, f"to_function_arg: arms not recognised ({sorted(kinds)})")
    # K1 compound
    c = kinds["compound"]
    cx.need(len(c.args) == 2, "compound cast arity")
    ty, ptr = c.args
    cx.check(norm(ty) == "arg.atype._c_type", c, construct=f"cast({norm(ty)}, ...)", detail="typed as the declared class", bad_detail="compound pointer not typed by arg.atype._c_type", sub="compound.type")
    p = lin.poly(ptr)
    has_off = p.coeff("value._offset") == 1
    bases = [a for a in p.atoms() if a != "value._offset"]
    base_ok = False
    if len(bases) == 1 and p.coeff(bases[0]) == 1 and ("ctypes.data" in bases[0] or "from_buffer" in bases[0] or "address" in bases[0]):
        btxt = bases[0]
        root = btxt.split(".")[0].split("(")[0]
        if d.single(root) is not None:
            btxt = btxt + " <- " + norm(d.single(root))
        base_ok = "value._buffer.buffer" in btxt
    cx.check(has_off and base_ok and len(p.t) == 2, c, construct=f"ptr = {short(ptr)}", nf=repr(p),
             detail="pointer = address of the current native storage + current offset, read from the value at call time",
             bad_detail=("the object's offset is not added: every object is passed as the start of its buffer" if not has_off else f"pointer is {p!r}, expected address(value._buffer.buffer) + value._offset"), sub="compound.ptr")
    # K2 ndarray
    c = kinds["ndarray"]
    ty, ptr = c.args
    cx.check(str_template(ty) == (("expr", "dtype2ctype(value.dtype)"), ("lit", "*")), c, construct=f"cast({norm(ty)}, ...)", detail="pointer type derives from the array's own dtype, so cffi refuses arrays of another element type",
             bad_detail="ndarray pointer type does not derive from value.dtype: an array of the wrong element type would be reinterpreted silently", sub="ndarray.type")
    fb = ptr
    ok = False
    if isinstance(fb, ast.Call) and call_name(fb) == "from_buffer" and len(fb.args) == 1:
        a = fb.args[0]
        if isinstance(a, ast.Attribute) and a.attr == "data":
            src = a.value
            if isinstance(src, ast.Name) and d.single(src.id) is not None:
                src = d.single(src.id)
            s = norm(src)
            if isinstance(src, ast.Subscript) and norm(src.value) == "value" and "slice(0, 1)" in s and "value.ndim" in s:
                ok = True
            if s == "value" :
                ok = False
        if norm(a) == "value.ctypes.data":
            ok = True
    cx.check(ok, c, construct=f"from_buffer({short(fb.args[0]) if isinstance(fb, ast.Call) and fb.args else short(fb)})", detail="pointer to the first element of the (possibly sliced) array",
             bad_detail="the pointer is not taken from the first element of `value` (value[(slice(0,1),)*ndim].data)", sub="ndarray.ptr")
    # K2 xobject array
    c = kinds["xoarray"]
    ty, ptr = c.args
    tytxt = norm(ty)
    cx.check(str_template(ty) in ((("expr", "value._itemtype._c_type"), ("lit", "*")), (("expr", "dtype2ctype(value._itemtype._dtype)"), ("lit", "*"))), c, construct=f"cast({tytxt}, ...)",
             detail="pointer type derives from the array's item type (cffi then refuses a wrong element type)",
             bad_detail=("`value._c_type` is the array typedef name, not an element type: cffi rejects it (undefined type)" if tytxt.startswith("value._c_type") else "pointer type does not derive from the array's own item type: a wrong element type would pass silently"), sub="xoarray.type")
    ok = False
    if isinstance(ptr, ast.Call) and call_name(ptr) == "from_buffer" and len(ptr.args) == 1:
        a = ptr.args[0]
        if isinstance(a, ast.Subscript) and norm(a.value) == "value._buffer.buffer" and isinstance(a.slice, ast.Slice) and a.slice.lower is not None:
            lo = lin.poly(a.slice.lower)
            ok = lo == Poly.atom("value._offset") + Poly.atom("value._data_offset")
    cx.check(ok, c, construct=f"from_buffer({short(ptr.args[0]) if isinstance(ptr, ast.Call) and ptr.args else '?'})", detail="first element = current storage at offset + data offset",
             bad_detail="xobject array pointer does not start at value._offset + value._data_offset of the current storage", sub="xoarray.ptr")
    # scalar by value
    rets = [r for r in own_nodes(fn) if isinstance(r, ast.Return) and r.value is not None and norm(r.value) == "arg.atype(value)"]
    cx.check(len(rets) == 1 and any(x.text() == "not (arg.pointer)" for x in fl.conds_at(rets[0])), rets[0] if rets else fn, construct="scalar by value: arg.atype(value)",
             detail="converted with the declared scalar type", bad_detail="by-value scalars are not converted with the declared type", sub="scalar")
    # refusals: arms that cannot convert raise
    raises = [r for r in own_nodes(fn) if isinstance(r, ast.Raise)]
    cx.check(len(raises) >= 2, fn, construct=f"{len(raises)} refusing arms", detail="unsupported argument kinds raise", bad_detail="an unsupported argument kind no longer raises", sub="refuse")


@rule("NC", ["C08", "C17", "C02", "C07"], "nobody caches native storage or addresses: handles keep (buffer object, offset) only")
def nc(cx):
    m = cx.m
    fn = m.func("context_cpu::KernelCpu.to_function_arg")
    bad = 0
    for modname in ("struct", "array", "ref", "string", "hybrid_class", "scalar"):
        for st in ast.walk(m.mod(modname).tree):
            if isinstance(st, ast.Assign):
                for t in st.targets:
                    if isinstance(t, ast.Attribute):
                        v = norm(st.value)
                        if ".buffer.buffer" in v or "._buffer.buffer" in v or "to_pointer_arg(" in v or "ctypes.data" in v:
                            cx.bad(st, detail="a handle caches native storage / an address: it dangles after the buffer grows", sub="no-cache")
                            bad += 1
    if not bad:
        cx.ok(fn, construct="no attribute of a handle is assigned native storage or an address", detail="handles keep (buffer object, offset) only; pointers are derived at call time", sub="no-cache")




@rule("K4", ["C17"], "kernel calls: positional refusal, arity check before conversion, declared order, identity return, cffi signature")
def k4(cx):
    m = cx.m
    f = m.func("context::KernelDispatcher.__call__")
    fl = Flow(f)
    rs = [r for r in own_nodes(f) if isinstance(r, ast.Raise)]
    ok = False
    for r in rs:
        if any(norm(c.test) == "args" and c.pol for c in fl.conds_at(r)):
            ok = True
    calls = [r for r in own_nodes(f) if isinstance(r, ast.Return) and r.value is not None]
    cx.check(ok, rs[0] if rs else f, construct="KernelDispatcher.__call__: raise if args", detail="positional arguments are refused", bad_detail="positional arguments are not refused", sub="positional")
    good = len(calls) == 1 and norm(calls[0].value) == "self._kernels[self._name](**kwargs)" and rs and fl.ordered_before(rs[0], calls[0])
    cx.check(good, calls[0] if calls else f, construct="return self._kernels[self._name](**kwargs)", detail="all named arguments forwarded unchanged, after the refusal", bad_detail="dispatcher does not forward **kwargs to the named kernel", sub="forward")
    f = m.func("context_cpu::KernelCpu.__call__")
    fl = Flow(f)
    loops = [l for l in f.body if isinstance(l, ast.For)]
    cx.need(len(loops) == 1 and norm(loops[0].iter) == "self.description.args", "KernelCpu.__call__: loop over self.description.args not found")
    lp = loops[0]
    av = norm(lp.target)
    arity = [s for s in f.body if isinstance(s, (ast.Assert, ast.If)) and "len(kwargs" in norm(s.test) and "num_args" in norm(s.test)]
    ok = False
    if arity:
        s = arity[0]
        t = s.test
        eq = isinstance(t, ast.Compare) and len(t.ops) == 1 and isinstance(t.ops[0], (ast.Eq, ast.NotEq))
        ok = eq and fl.info[s].order < fl.info[lp].order
        if isinstance(s, ast.If):
            ok = ok and any(isinstance(x, ast.Raise) for x in s.body)
    cx.check(ok, arity[0] if arity else f, construct="len(kwargs) == number of declared args, before any conversion", detail="missing or extra arguments are refused",
             bad_detail="no arity comparison precedes the argument conversion: extra arguments are ignored silently", sub="arity")
    body_txt = [norm(s) for s in lp.body]
    look = any(f"kwargs[{av}.name]" in t for t in body_txt)
    conv = [c for s in lp.body for c in ast.walk(s) if isinstance(c, ast.Call) and call_name(c) == "to_function_arg"]
    app = [c for s in lp.body for c in ast.walk(s) if isinstance(c, ast.Call) and call_name(c) == "append"]
    conv_ok = len(conv) == 1 and norm(conv[0].args[0]) == av and len(app) == 1
    cx.check(look and conv_ok, lp, construct=f"for {av} in self.description.args: append(to_function_arg({av}, kwargs[{av}.name]))", detail="each declared argument looked up by name, converted, delivered in declared order",
             bad_detail="arguments are not looked up by declared name / converted one by one in declared order", sub="order")
    lst = norm(app[0].func.value) if app else "?"
    fc = [c for c in own_nodes(f) if isinstance(c, ast.Call) and norm(c.func) == "self.function"]
    cx.check(len(fc) == 1 and [norm(a) for a in fc[0].args] == [f"*{lst}"] and not fc[0].keywords, fc[0] if fc else f, construct=f"self.function(*{lst})", detail="exactly the converted list is passed", bad_detail="the C function is not called with exactly the converted argument list", sub="call")
    rets = [r for r in own_nodes(f) if isinstance(r, ast.Return) and r.value is not None]
    d = Defs(f)
    ok = False
    if len(rets) == 1 and isinstance(rets[0].value, ast.Call) and call_name(rets[0].value) == "from_function_arg":
        a = rets[0].value.args
        if len(a) == 2 and norm(a[0]) == "self.description.ret" and isinstance(a[1], ast.Name) and d.single(a[1].id) is fc[0]:
            ok = True
    cx.check(ok, rets[0] if rets else f, construct="return from_function_arg(description.ret, <result of the call>)", detail="declared return value comes back", bad_detail="the function result is not what is returned", sub="return")
    ffa = m.func("context_cpu::KernelCpu.from_function_arg")
    r = [x for x in own_nodes(ffa) if isinstance(x, ast.Return)]
    cx.check(len(r) == 1 and norm(r[0].value) == param_names(ffa)[2], r[0] if r else ffa, construct="from_function_arg returns its value", detail="identity", bad_detail="from_function_arg alters the returned value", sub="return")
    # cffi signature: evaluated (the current cdef_from_kernel / Arg.get_c_type on abstract kernels), not matched
    from ..peval import Builtin, Interp, Obj

    I = Interp(m)

    def mkarg(t):
        return Obj("arg", {"get_c_type": Builtin("get_c_type", lambda: t)})

    cases = [("double", ["T1", "T2*", "int64_t"], "double kfun(T1,T2*,int64_t);"), (None, ["T1"], "void kfun(T1);"), (None, [], "void kfun();")]
    cd = m.func("context_cpu::cdef_from_kernel")
    for ret, args, want in cases:
        k = Obj("kernel", {"c_name": "kfun", "ret": mkarg(ret) if ret else None, "args": [mkarg(t) for t in args]})
        res = I.explore(lambda: I.call(I.global_lookup("context_cpu", "cdef_from_kernel"), [k], {}), max_paths=4)
        cx.need(len(res) == 1 and res[0]["exc"] is None, f"cdef_from_kernel cannot be evaluated: {res[0]['exc'].msg if res[0]['exc'] else res[0]['conds']}")
        got = res[0]["result"]
        cx.check(isinstance(got, str) and "".join(got.split()) == "".join(want.split()), cd, construct=f"cdef_from_kernel(ret={ret}, args={args}) = {got!r}", detail="signature = <ret type | void> name(<argument types in declared order>);",
                 bad_detail=f"cffi signature is {got!r}, expected {want!r}: arguments would be delivered in another order / with another type", sub="cdef")
    k = Obj("kernel", {"c_name": None, "ret": None, "args": []})
    res = I.explore(lambda: I.call(I.global_lookup("context_cpu", "cdef_from_kernel"), [k, "pyk"], {}), max_paths=4)
    cx.check(res[0]["exc"] is None and "".join(str(res[0]["result"]).split()) == "voidpyk();", cd, construct=f"cdef_from_kernel(c_name=None, pyname='pyk') = {res[0]['result']!r}", detail="python name used when no C name is declared", bad_detail="the kernel's python name is not used as C name when c_name is None", sub="cdef")
    gt = m.func("context::Arg.get_c_type")
    Arg = I.global_lookup("context", "Arg")
    at = Obj("atype", {"_c_type": "double"})
    for ptr, want in ((False, "double"), (True, "double*")):
        res = I.explore(lambda: I.call(I.getattr(I.call(Arg, [at], {"pointer": ptr}), "get_c_type"), [], {}), max_paths=4)
        cx.need(len(res) == 1 and res[0]["exc"] is None, f"Arg.get_c_type cannot be evaluated: {res[0]['exc'].msg if res[0]['exc'] else res[0]['conds']}")
        cx.check("".join(str(res[0]["result"]).split()) == want, gt, construct=f"Arg(atype, pointer={ptr}).get_c_type() = {res[0]['result']!r}", detail="'*' appended exactly for pointer arguments", bad_detail=f"declared C type is {res[0]['result']!r}, expected {want!r}", sub="cdef")


@rule("K4e", ["C17"], "kernel calls, evaluated: every declared argument converted and delivered in declared order, the return value handed back, malformed calls refused before the C function runs")
def k4e(cx):
    """`KernelCpu.__call__` (serial and OpenMP context), `KernelCupy.__call__`, `KernelPyopencl.__call__` and
    `KernelDispatcher.__call__` of the current source are run with a recording argument converter and a recording C
    function on a three-argument kernel (x: pointer, n: int, scale: double), with and without a declared return value:
    a well-formed call (keywords in any order) calls the function exactly once with the three converted arguments in
    DECLARED order and returns what the function returned; a call with a missing, an extra, a misspelt or a
    positional argument raises and the function is never called."""
    from ..peval import Interp, Obj as _Obj, Opaque as _Op, Builtin as _B, PyExc as _PyExc
    m = cx.m
    ncase = 0
    RAW = _Op("raw-return")
    for spec in ("context_cpu::KernelCpu", "context_cupy::KernelCupy", "context_pyopencl::KernelPyopencl"):
        fnode = m.func(spec + ".__call__")
        gpu = not spec.startswith("context_cpu")
        for with_ret in ((False, True) if not gpu else (False,)):
            for omp in ((False, True) if not gpu else (False,)):
                def world():
                    I = Interp(m)
                    K = I.global_lookup(*spec.split("::"))
                    calls, convs = [], []

                    def fn(*a, **k):
                        calls.append((a, k))
                        return _Obj("instance", {"wait": _B("event.wait", lambda: None)}, name="event") if gpu else RAW

                    args = [_Obj("instance", {"name": nm}, name=f"arg_{nm}") for nm in ("x", "n", "scale")]
                    desc = _Obj("instance", {"args": args, "n_threads": 7, "ret": (_Obj("instance", {"name": "ret"}, name="ret") if with_ret else None), "pyname": "k"}, name="description")
                    ctx = _Obj("instance", {"queue": _Op("queue"), "openmp_enabled": omp, "omp_num_threads": 2, "omp_set_num_threads": _B("omp_set_num_threads", lambda n_: None)}, name="ctx")

                    def conv(arg, v):
                        convs.append(I.getattr(arg, "name"))
                        return ("conv", I.getattr(arg, "name"), v)

                    me = _Obj("instance", {"description": desc, "function": _B("C function", fn), "context": ctx, "block_size": 8, "shared_mem_size_bytes": 0, "wait_on_call": True,
                                           "to_function_arg": _B("to_function_arg", conv), "ffi_interface": _Op("ffi")}, cls=K)
                    return I, me, calls, convs

                label0 = f"{spec.split('::')[1]}" + (" (OpenMP context)" if omp else "") + (", declared return value" if with_ret else "")
                VX, VN, VS = _Op("xdata"), 5, 0.5
                good = {"scale": VS, "x": VX, "n": VN}
                for what, kw in (("well-formed, keywords in another order", good), ("missing argument", {"x": VX, "n": VN}), ("extra argument", dict(good, extra=1)),
                                 ("misspelt argument (same count)", {"x": VX, "n": VN, "scal": VS}), ("misspelt pointer argument", {"xx": VX, "n": VN, "scale": VS})):
                    I, me, calls, convs = world()
                    try:
                        res = I.explore(lambda: I.call(I.getattr(me, "__call__"), [], dict(kw)), max_paths=8)
                    except AnalysisError as e:
                        cx.recog(False, fnode, f"{label0}: {e}")
                    cx.recog(len(res) == 1, fnode, f"{label0}, {what}: {len(res)} evaluation paths")
                    r = res[0]
                    ncase += 1
                    if what.startswith("well-formed"):
                        why = ""
                        if r["exc"] is not None:
                            why = f"raises {r['exc'].etype}: {r['exc'].msg}"
                        elif len(calls) != 1:
                            why = f"the C function is called {len(calls)} times"
                        else:
                            a, k = calls[0]
                            flat = [x for x in a if isinstance(x, tuple) and x and x[0] == "conv"] + [y for x in a if isinstance(x, list) for y in x]
                            if [x[1:] for x in flat] != [("x", VX), ("n", VN), ("scale", VS)]:
                                why = f"the function receives {flat!r}, expected the converted x, n, scale in declared order"
                            elif not gpu and with_ret and r["result"] is not RAW:
                                why = f"returns {r['result']!r}, the function returned {RAW!r}"
                        cx.check(not why, None, construct=f"{label0}: {what}", detail="one call of the C function with the converted arguments in declared order; its return value handed back", bad_detail=why, anchor=spec + ".__call__", sub="deliver")
                    else:
                        why = ""
                        if r["exc"] is None:
                            why = "the call is accepted" + (f" (the function received {calls[0][0]!r})" if calls else "")
                        elif calls:
                            why = f"refused with {r['exc'].etype} only after the C function had been called"
                        cx.check(not why, None, construct=f"{label0}: {what}", detail="refused before the C function runs", bad_detail=why + ": the kernel runs with a missing / wrong argument", anchor=spec + ".__call__", sub="refuse")
    # dispatcher: positional arguments refused, keywords forwarded unchanged
    I = Interp(m)
    KD = I.global_lookup("context", "KernelDispatcher")
    got = []
    kern = _B("kernel", lambda *a, **k: (got.append((a, k)), "ret")[1])
    d = I.call(KD, ["k", {"k": kern}], {})
    for what, a, k in (("positional argument", [1], {"n": 2}), ("only positional", [1, 2], {}), ("keywords", [], {"x": 1, "n": 2})):
        got.clear()
        res = I.explore(lambda: I.call(I.getattr(d, "__call__"), list(a), dict(k)), max_paths=4)
        cx.recog(len(res) == 1, m.func("context::KernelDispatcher.__call__"), f"KernelDispatcher.__call__ ({what}): {len(res)} paths")
        ncase += 1
        if a:
            cx.check(res[0]["exc"] is not None and not got, None, construct=f"KernelDispatcher.__call__: {what}", detail="refused before the kernel is called", bad_detail="a positional argument is accepted / the kernel is called before the refusal", anchor="context::KernelDispatcher.__call__", sub="positional")
        else:
            cx.check(res[0]["exc"] is None and got == [((), dict(k))] and res[0]["result"] == "ret", None, construct=f"KernelDispatcher.__call__: {what}", detail="all named arguments forwarded unchanged, the kernel's result returned", bad_detail=f"keywords are not forwarded unchanged to the named kernel: {got!r}", anchor="context::KernelDispatcher.__call__", sub="forward")
    # dispatcher: every KIND of argument reaches the kernel as the caller's own object (C17: arrays "as a pointer to
    # their first element" -- of the caller's array, whatever its strides; a compacted temporary loses the kernel's writes)
    from ..peval import Namespace as _NS

    def _nd(tag, contiguous):
        a = _Obj("ndarray", {"ndim": 1, "flags": _Obj("flags", {"c_contiguous": contiguous, "f_contiguous": contiguous, "contiguous": contiguous, "writeable": True, "__getitem__": _B("flags[]", lambda k_: contiguous if "CONTIG" in str(k_).upper() else True)}, name=f"{tag}.flags")}, name=tag)
        a.pytag = "np.ndarray"
        return a

    I = Interp(m)
    copies = []

    def _copy(a, *r, **k):
        c = _nd(f"copy-of({getattr(a, 'name', a)})", True)
        copies.append(c)
        return c

    I.np = _NS("np", dict(I.np.table, ascontiguousarray=_B("np.ascontiguousarray", lambda a, *r, **k: a if (isinstance(a, _Obj) and a.attrs["flags"].attrs["c_contiguous"]) else _copy(a)),
                          array=_B("np.array", _copy), copy=_B("np.copy", _copy), require=_B("np.require", _copy), asfortranarray=_B("np.asfortranarray", _copy)))
    KD = I.global_lookup("context", "KernelDispatcher")
    got = []
    kern = _B("kernel", lambda *a, **k: (got.append((a, k)), "ret")[1])
    d = I.call(KD, ["k", {"k": kern}], {})
    vals = {"strided": _nd("a[1::2]", False), "dense": _nd("a", True), "xobj": _Obj("instance", {"_offset": 8, "_buffer": _Op("buffer")}, name="xobject"), "zero": 0.0, "negzero": -0.0, "one": 1, "flag": True, "none": None}
    res = I.explore(lambda: I.call(I.getattr(d, "__call__"), [], dict(vals)), max_paths=4)
    cx.recog(len(res) == 1, m.func("context::KernelDispatcher.__call__"), f"KernelDispatcher.__call__ (argument kinds): {len(res)} paths")
    ncase += 1
    why = ""
    if res[0]["exc"] is not None:
        e_ = res[0]["exc"]
        if e_.etype in ("AttributeError", "NameError"):
            raise AnalysisError(f"[K4e] KernelDispatcher.__call__ cannot be evaluated on the argument kinds: {e_.etype}: {e_.msg}")
        why = f"raises {e_.etype}: {e_.msg}"
    elif len(got) != 1 or got[0][0] or set(got[0][1]) != set(vals):
        why = f"the kernel is called {len(got)} time(s) with {got!r}"
    else:
        for k_, v_ in vals.items():
            g_ = got[0][1][k_]
            if g_ is not v_ and not (isinstance(v_, float) and isinstance(g_, float) and repr(g_) == repr(v_)):
                why = f"argument `{k_}` ({getattr(v_, 'name', v_)!r}) reaches the kernel as {getattr(g_, 'name', g_)!r}" + (": a temporary copy -- the kernel's writes never reach the caller's array and it reads compacted elements" if g_ in copies else "")
                break
    cx.check(not why, None, construct="KernelDispatcher.__call__: strided / dense numpy array, xobject, 0.0, -0.0, 1, True, None", detail="every named argument reaches the kernel as the caller's own object", bad_detail=why, anchor="context::KernelDispatcher.__call__", sub="identity")
    cx.need(ncase >= 31, f"only {ncase} kernel-call cases")


@rule("K6", ["C16"], "launch geometry: CUDA grid = ceil(n/block) blocks of block_size, OpenCL global size n; n resolved from the named argument")
def k6(cx):
    """evaluated: both launchers are run with recording device functions, the thread count given as a constant and as
    the name of a kernel argument, over thread counts around multiples of the block size.  CUDA must launch
    ceil(n/block) blocks of `block` threads (with the in-kernel `if (i < n)` guard every index is then computed exactly
    once); OpenCL must launch a global size of exactly n (the generated OpenCL body has no guard)."""
    from ..peval import Interp, Obj as _Obj, Opaque as _Op, Builtin as _B, PyExc as _PyExc
    m = cx.m
    NS = (0, 1, 2, 7, 8, 9, 63, 64, 65, 1000, 1024, 1025)
    ncase = 0
    for spec, kind in (("context_cupy::KernelCupy", "cuda"), ("context_pyopencl::KernelPyopencl", "opencl")):
        fnode = m.func(spec + ".__call__")
        for named in (True, False):
            for block in ((1, 8, 64, 96) if kind == "cuda" else (None,)):
                bad = []
                for nthr in NS:
                    I = Interp(m)
                    K = I.global_lookup(*spec.split("::"))
                    launches = []

                    def fn(*a, **k):
                        launches.append((a, k))
                        return _Obj("instance", {"wait": _B("event.wait", lambda: None)}, name="event")

                    argn = _Obj("instance", {"name": "n"}, name="arg_n")
                    argx = _Obj("instance", {"name": "x"}, name="arg_x")
                    desc = _Obj("instance", {"args": [argx, argn], "n_threads": "n" if named else nthr}, name="description")
                    me = _Obj("instance", {"description": desc, "num_args": 2, "function": _B("device function", fn), "block_size": block, "shared_mem_size_bytes": 0,
                                           "context": _Obj("instance", {"queue": _Op("queue")}, name="ctx"), "wait_on_call": True,
                                           "to_function_arg": _B("to_function_arg", lambda arg, v: ("arg", I.getattr(arg, "name"), v))}, cls=K)
                    res = []
                    try:
                        res = I.explore(lambda: I.call(I.getattr(me, "__call__"), [], {"x": _Op("xdata"), "n": (nthr if named else 5)}), max_paths=8)
                    except AnalysisError as e:
                        cx.recog(False, fnode, f"{spec}.__call__: {e}")
                    ncase += 1
                    if nthr == 0 and len(res) == 1 and not launches:
                        continue  # nothing to run, nothing launched
                    cx.recog(len(res) == 1 and res[0]["exc"] is None and len(launches) == 1, fnode, f"{spec}.__call__(n={nthr}): not one launch on one normal path ({res[0]['exc'] if res else ''})")
                    a, k = launches[0]
                    if kind == "cuda":
                        wantg = -(-nthr // block)
                        grid = a[0] if a else k.get("grid")
                        blk = a[1] if len(a) > 1 else k.get("block")
                        if not (isinstance(grid, tuple) and len(grid) == 1 and isinstance(grid[0], int) and not isinstance(grid[0], bool) and grid[0] >= wantg and isinstance(blk, tuple) and blk == (block,)):
                            bad.append(f"n={nthr}: launch(grid={grid!r}, block={blk!r}), needed at least ({wantg},) x ({block},)")
                    else:
                        gsz = a[1] if len(a) > 1 else None
                        lsz = a[2] if len(a) > 2 else None
                        if not (isinstance(gsz, tuple) and gsz == (nthr,)):
                            bad.append(f"n={nthr}: global size {gsz!r}, needed ({nthr},)")
                        elif lsz is not None:
                            bad.append(f"n={nthr}: local size {lsz!r} given (global size must then be a multiple of it)")
                label = f"{spec.split('::')[1]}: n_threads {'named argument' if named else 'constant'}" + (f", block_size {block}" if block else "")
                if kind == "cuda":
                    cx.check(not bad, None, construct=label + f": grid >= ceil(n/{block}) for n in {list(NS)}", detail="enough blocks to cover every index < n (with the in-kernel bound guard: exactly once each)",
                             bad_detail="launch geometry does not cover 0..n-1 exactly: " + "; ".join(bad[:3]), anchor=spec + ".__call__", sub="launch")
                else:
                    cx.check(not bad, None, construct=label + f": global size = n for n in {list(NS)}", detail="one work item per index (no guard needed)",
                             bad_detail="OpenCL work items do not match indices 0..n-1: " + "; ".join(bad[:3]), anchor=spec + ".__call__", sub="launch")
    cx.need(ncase >= 100, f"only {ncase} launch cases evaluated")


@rule("K7", ["C07", "C02", "C17"], "add_kernels over sequences of calls: every call builds exactly the kernels it is given, and the context then holds, under each name, what the LATEST build returned for it")
def k7(cx):
    """A context is used for many classes over its life; class names (and therefore accessor names) are not unique --
    array classes are named after shape and item type only, a struct can be defined again under its name.  The compiled
    accessor the context holds under a name must therefore always be the one built from the description given LAST.
    `add_kernels` of ContextCpu and of the base class (used by the CUDA / OpenCL contexts) is evaluated with a recording
    `build_kernels` on the sequences  [add {k1: D1, k2: D2}] ; [add {k1: D1'}]  (same name, another description) with and
    without user sources."""
    from ..peval import Interp, Obj as _Obj, Opaque as _Op, Builtin as _B

    m = cx.m
    n = 0
    for spec, clsname in (("context_cpu::ContextCpu.add_kernels", ("context_cpu", "ContextCpu")), ("context::XContext.add_kernels", ("context", "XContext"))):
        fnode = m.func(spec)
        for with_sources in (False, True):
            I = Interp(m)
            C = I.global_lookup(*clsname)
            builds = []

            def build(*a, **k):
                cx.need(not a, "K7: build_kernels is called with positional arguments (not modelled)")
                desc = k.get("kernel_descriptions")
                names = list(I.iterate(desc)) if desc is not None else []
                builds.append({"names": names, "descs": {nm: desc[nm] for nm in names}, "sources": k.get("sources")})
                return {nm: ("built", len(builds), desc[nm]) for nm in names}

            KD = I.global_lookup("context", "KernelDict")
            me = _Obj("instance", {"_kernels": {}, "build_kernels": _B("build_kernels", build)}, cls=C)
            D1, D2, D1b = _Op("description-1"), _Op("description-2"), _Op("description-1-of-another-layout")
            src = ["/*gpufun*/ void f(){}"] if with_sources else None

            def thunk():
                kw = {"kernels": {"k1": D1, "k2": D2}}
                if src:
                    kw["sources"] = list(src)
                I.call(I.getattr(me, "add_kernels"), [], kw)
                kw = {"kernels": {"k1": D1b}}
                if src:
                    kw["sources"] = list(src)
                I.call(I.getattr(me, "add_kernels"), [], kw)
                return I.getattr(me, "kernels")

            try:
                res = I.explore(thunk, max_paths=8)
            except AnalysisError as e:
                cx.recog(False, fnode, f"add_kernels cannot be evaluated: {e}")
            cx.recog(len(res) == 1, fnode, f"{len(res)} evaluation paths in add_kernels")
            r = res[0]
            if r["exc"] is not None:
                cx.recog(r["exc"].etype not in ("AttributeError", "NameError", "TypeError", "KeyError"), fnode, f"add_kernels raises {r['exc'].etype}: {r['exc'].msg} (model gap)")
                cx.bad(fnode, construct=f"{clsname[1]}.add_kernels twice" + (" with sources" if with_sources else ""), detail=f"raises {r['exc'].etype}: {r['exc'].msg}", sub="sequence")
                continue
            held = r["result"]
            n += 1
            probs = []
            if len(builds) != 2:
                probs.append(f"{len(builds)} builds for two add_kernels calls")
            else:
                if sorted(builds[0]["names"]) != ["k1", "k2"]:
                    probs.append(f"the first call builds {builds[0]['names']}, it was given k1, k2")
                if builds[1]["names"] != ["k1"] or builds[1]["descs"].get("k1") is not D1b:
                    probs.append(f"the second call builds {builds[1]['names']}, it was given k1 with a new description")
            k1 = held.get("k1") if isinstance(held, dict) else None
            if not probs and not (isinstance(k1, tuple) and k1[1] == 2 and k1[2] is D1b):
                probs.append(f"after the second call the context holds {k1!r} under `k1`, not what was built from the description given last")
            k2 = held.get("k2") if isinstance(held, dict) else None
            if not probs and not (isinstance(k2, tuple) and k2[1] == 1 and k2[2] is D2):
                probs.append(f"`k2` is {k2!r} after the second call")
            cx.check(not probs, fnode, construct=f"{clsname[1]}.add_kernels({{k1, k2}}) ; add_kernels({{k1: another description}})" + (" with user sources" if with_sources else ""),
                     detail="each call builds what it is given; the context holds the latest build under each name",
                     bad_detail="; ".join(probs) + ": a kernel name does not identify a layout (same-named array classes of another axis order, a struct defined again): the accessor kept from the earlier build addresses other bytes", sub="sequence")
    cx.need(n == 4, f"only {n} of 4 add_kernels sequences evaluated")


_COPYING = {"bytes", "bytearray", "int", "len", "float", "str", "bool", "copy", "tobytes", "tolist", "hex", "id", "repr", "type", "isinstance", "hasattr"}


def _native_expr(node, in_buffer_class):
    """does the expression read native storage of a buffer: X.buffer.buffer / X._buffer.buffer anywhere, self.buffer
    inside a buffer class"""
    for n in ast.walk(node):
        if isinstance(n, ast.Attribute) and n.attr == "buffer":
            inner = n.value
            if isinstance(inner, ast.Attribute) and inner.attr in ("buffer", "_buffer"):
                return True
            if in_buffer_class and isinstance(inner, ast.Name) and inner.id == "self":
                return True
            if isinstance(inner, ast.Name) and "buf" in inner.id.lower() and inner.id != "self":
                return True  # `xbuffer.buffer`, `buf.buffer`: the storage of a buffer object held in a local / parameter
    return False


def _tainted(node, tainted, in_buffer_class):
    """may the value of `node` alias native storage: mentions it (or a tainted local) outside a copying call"""
    if isinstance(node, ast.Call):
        nm = node.func.attr if isinstance(node.func, ast.Attribute) else node.func.id if isinstance(node.func, ast.Name) else ""
        if nm in _COPYING:
            return False
        if nm in ("_new_buffer", "zeros", "empty"):
            return False
        parts = list(node.args) + [k.value for k in node.keywords] + ([node.func.value] if isinstance(node.func, ast.Attribute) else [])
        return any(_tainted(p, tainted, in_buffer_class) for p in parts)
    if isinstance(node, ast.Name):
        return node.id in tainted
    if isinstance(node, ast.Attribute):
        if _native_expr(node, in_buffer_class):
            return node.attr not in ("nbytes", "size", "shape", "dtype", "itemsize", "ndim")
        return _tainted(node.value, tainted, in_buffer_class) and node.attr not in ("nbytes", "size", "shape", "dtype", "itemsize", "ndim", "context")
    if isinstance(node, ast.Subscript):
        return _tainted(node.value, tainted, in_buffer_class)
    if isinstance(node, (ast.Tuple, ast.List)):
        return any(_tainted(e, tainted, in_buffer_class) for e in node.elts)
    if isinstance(node, ast.IfExp):
        return _tainted(node.body, tainted, in_buffer_class) or _tainted(node.orelse, tainted, in_buffer_class)
    if isinstance(node, ast.BinOp):
        return False  # arithmetic yields numbers / new arrays
    if isinstance(node, ast.Starred):
        return _tainted(node.value, tainted, in_buffer_class)
    return False


@rule("NC2", ["C04", "C13", "C08", "C17", "C10", "C06", "C18", "C20", "C09", "C02", "C07"], "may-alias analysis over the whole package: nothing that aliases a buffer's native storage (the storage itself, a memoryview / frombuffer / slice view of it, a pointer into it) is kept in an attribute, a module-level container or a closure -- the storage is replaced when the buffer grows")
def nc2(cx):
    """`XBuffer.grow` rebinds `self.buffer` to new storage.  Any object that aliases the OLD storage and outlives the call
    that made it reads and writes abandoned memory afterwards.  Per function: locals assigned from an expression that
    mentions native storage (`self.buffer` inside a buffer class, `x.buffer.buffer` / `x._buffer.buffer` anywhere, results
    of to_nplike / to_nparray / to_pointer_arg / memoryview / frombuffer on them) outside a copying call are tainted
    (fixed point over the function's assignments); a store of a tainted value into an attribute, a subscript of a
    non-local container or a `global` is reported.  The only exemption is the storage attribute itself
    (`self.buffer = ...` in buffer classes)."""
    m = cx.m
    nfun = nsink = 0
    found = []
    VIEWERS = ("to_nplike", "to_nparray", "to_pointer_arg")
    for modname in sorted(m.modules if hasattr(m, "modules") else []):
        pass
    mods = ["context", "context_cpu", "context_cupy", "context_pyopencl", "struct", "array", "ref", "string", "scalar", "hybrid_class", "typeutils", "capi", "linkedarray"]
    for modname in mods:
        try:
            tree = m.mod(modname).tree
        except Exception:
            continue
        for cls_or_fn in ast.walk(tree):
            if not isinstance(cls_or_fn, (ast.FunctionDef,)):
                continue
            fn = cls_or_fn
            qual = m.qualname(fn) if hasattr(fn, "modname") else f"{modname}::{fn.name}"
            clsname = qual.split("::")[-1].split(".")[0] if "." in qual.split("::")[-1] else ""
            in_buf = clsname.startswith("Buffer") or clsname == "XBuffer"
            nfun += 1
            tainted = set()
            assigns = [s for s in ast.walk(fn) if isinstance(s, (ast.Assign, ast.AugAssign, ast.AnnAssign, ast.NamedExpr))]

            def val_tainted(v):
                if v is None:
                    return False
                if _tainted(v, tainted, in_buf):
                    return True
                # views handed out by the buffer API alias the storage as well (not inside the buffer class, whose own
                # primitives RETURN them by contract)
                for c in ast.walk(v):
                    if isinstance(c, ast.Call) and isinstance(c.func, ast.Attribute) and c.func.attr in VIEWERS and not in_buf:
                        return True
                return False

            for _ in range(4):
                before = len(tainted)
                for s in assigns:
                    v = s.value
                    tg = s.targets if isinstance(s, ast.Assign) else [s.target]
                    if val_tainted(v):
                        for t in tg:
                            for nme in ([t] if isinstance(t, ast.Name) else [e for e in getattr(t, "elts", []) if isinstance(e, ast.Name)]):
                                tainted.add(nme.id)
                if len(tainted) == before:
                    break
            globs = {n for s in ast.walk(fn) if isinstance(s, ast.Global) for n in s.names}
            local_names = {a.arg for a in fn.args.args + fn.args.kwonlyargs} | {t.id for s in assigns for t in (s.targets if isinstance(s, ast.Assign) else [s.target]) if isinstance(t, ast.Name)}
            for s in assigns:
                if not val_tainted(s.value):
                    continue
                for t in (s.targets if isinstance(s, ast.Assign) else [s.target]):
                    if isinstance(t, ast.Attribute):
                        if t.attr == "buffer" and in_buf:
                            continue  # the storage attribute itself
                        nsink += 1
                        found.append((s, qual, f"attribute `{norm(t)}`"))
                    elif isinstance(t, ast.Subscript):
                        base = t.value
                        while isinstance(base, (ast.Subscript, ast.Attribute)):
                            base = base.value
                        if isinstance(base, ast.Name) and base.id in local_names and base.id not in globs and not isinstance(t.value, ast.Attribute):
                            continue  # filling a local container / writing INTO a local array
                        nsink += 1
                        found.append((s, qual, f"container `{norm(t.value)}`"))
                    elif isinstance(t, ast.Name) and t.id in globs:
                        nsink += 1
                        found.append((s, qual, f"global `{t.id}`"))
    for s, qual, where in found[:6]:
        cx.bad(s, construct=f"{qual}: {norm(s)[:140]}", detail=f"a value that may alias the buffer's native storage is kept in {where}: after the buffer grows (its storage is replaced) this alias reads and writes the abandoned storage -- data written through the buffer are not seen, growth copies stale bytes", sub="alias")
    if not found:
        cx.ok(None, construct=f"{nfun} functions: no alias of native storage is stored in an attribute, a non-local container or a global", detail="every view / pointer is derived from the buffer's CURRENT storage at the point of use", anchor="context::XBuffer.grow", sub="alias")
    cx.need(nfun >= 250, f"only {nfun} functions analysed")
    # live positive example: the rule must recognise the form it is written for
    probe = ast.parse("class BufferProbe:\n    def view(self):\n        if self._v is None:\n            mv = memoryview(self.buffer)\n            self._v = mv\n        return self._v[1:2]\n")
    pf = probe.body[0].body[0]
    t = set()
    for _ in range(2):
        for s in [x for x in ast.walk(pf) if isinstance(x, ast.Assign)]:
            if _tainted(s.value, t, True):
                for tg in s.targets:
                    if isinstance(tg, ast.Name):
                        t.add(tg.id)
    hit = any(isinstance(s, ast.Assign) and isinstance(s.targets[0], ast.Attribute) and _tainted(s.value, t, True) for s in ast.walk(pf))
    cx.need(hit, "NC2: the built-in positive example (self._v = memoryview(self.buffer)) is no longer recognised")
