"""Rule modules; importing ALL registers every rule."""
from . import alloc  # noqa: F401

ALL = True
