"""Rule modules; importing ALL registers every rule."""
from . import alloc, buffers, guards  # noqa: F401

ALL = True
