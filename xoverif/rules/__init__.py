"""Rule modules; importing ALL registers every rule."""
from . import alloc, buffers, guards, kernel, deps, hybrid, misc, layout, ctemplate, specialise, allocmodel, hyeval, objhist, bufeval, refhist, effects, allochist, storagealias, ownership  # noqa: F401

ALL = True
