"""Rule modules; importing ALL registers every rule."""
from . import alloc, buffers, guards, kernel, deps, hybrid  # noqa: F401

ALL = True
