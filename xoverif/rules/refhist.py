"""RV -- references (Ref, UnionRef, arrays of Ref) decided over histories of the operations property C08 names:
{construct, bind to an existing object of the same buffer, bind to a value, bind to an object of another buffer,
bind to null, write through the reference, write through the original, copy the holder (same buffer / other buffer)}.

The CURRENT source of ref.py / struct.py / array.py is interpreted on the abstract memory (nothing of /repo runs).
A small reference model written from the property text is advanced alongside: which object each reference denotes
(an existing one, shared; a new one; none) and what every object holds.  After every step, for every holder:

  * a null reference stores the reserved words (and member index -1 for unions) and reads None;
  * a bound reference stores `position of the object - position of the slot`, the object lies in the HOLDER'S buffer,
    reading it gives a view of the recorded member class exactly there;
  * binding to an object of the same buffer allocates nothing (shared); binding to a value or to an object of another
    buffer allocates exactly one new object in the holder's buffer and leaves the source where and as it was;
  * every leaf read through the reference is the model's value of the object it denotes -- so a write through the
    reference shows through the original handle and vice versa when, and only when, they are the same object;
  * an operation changes no known word outside the slot it assigns / the object it writes (frame).
"""
import itertools
import os

from ..core import rule
from ..linear import Poly
from ..peval import Obj, Opaque, PyExc, Sym
from ..srcmodel import AnalysisError
from .layout import pol
from .objhist import ObjWorld, _Bad

NULLV = -(2 ** 63)


class RefHist:
    def __init__(self, model):
        self.ow = ObjWorld(model)
        self.I = self.ow.I
        self.W = self.ow.W
        self.h = {}      # name -> handle
        self.vals = {}   # object name -> {field: value}
        self.cls = {}    # object name -> class name
        self.ref = {}    # (holder, slot) -> object name | None
        self.union = set()  # slots that are union references
        self.uclass = {}    # union slot -> its union class (default: U)
        self.found = []
        self.nnew = 0

    # ------------------------------------------------------------ zoo
    def build(self):
        I, ow = self.I, self.ow
        lab = ow.lab
        F = I.global_lookup("scalar", "Float64")
        Ref = I.global_lookup("ref", "Ref")
        MU = I.global_lookup("ref", "MetaUnionRef")
        U0 = I.global_lookup("ref", "UnionRef")
        self.T = lab.struct("T", [("v", F), ("w", F)])
        self.T2 = lab.struct("T2", [("q", F)])
        self.R = I.call(Ref, [self.T], {})
        self.U = I.call(I.class_attrs(MU)["__new__"], [MU, "U", (U0,), {"_reftypes": (self.T, self.T2)}], {})
        self.H = lab.struct("H", [("k", F), ("r", self.R), ("u", self.U)])
        self.RA = lab.array("RefArr", [3], (0,), self.R)
        A, B = ow.buf("A"), ow.buf("B")
        self.new_obj("t1", self.T, {"v": 1.5, "w": 2.5}, A)
        self.new_obj("t2", self.T, {"v": 3.5, "w": 4.5}, A)
        self.new_obj("tz", self.T2, {"q": 5.5}, A)
        self.new_obj("tB", self.T, {"v": 6.5, "w": 7.5}, B)
        self.h["h"] = I.call(self.H, [], {"k": 0.5, "_buffer": A})
        self.ref[("h", "r")] = None
        self.ref[("h", "u")] = None
        self.union.add(("h", "u"))
        self.h["ra"] = I.call(self.RA, [], {"_buffer": A})
        for k in range(3):
            self.ref[("ra", k)] = None
        # a second holder whose references are bound at construction, and a default-initialised array of union references
        self.h["h2"] = I.call(self.H, [], {"k": 0.75, "r": self.h["t2"], "u": self.h["tz"], "_buffer": A})
        self.ref[("h2", "r")] = "t2"
        self.ref[("h2", "u")] = "tz"
        self.union.add(("h2", "u"))
        # a 2-D array of references with two bound entries (copied as a whole by the copy operations)
        self.RA2 = lab.array("RefArr2x2", [2, 2], (0, 1), self.R)
        self.h["ra2"] = I.call(self.RA2, [], {"_buffer": A})
        for idx in ((0, 0), (0, 1), (1, 0), (1, 1)):
            self.ref[("ra2", idx)] = None
        I.call(I.getattr(self.h["ra2"], "__setitem__"), [(0, 1), self.h["t1"]], {})
        I.call(I.getattr(self.h["ra2"], "__setitem__"), [(1, 0), self.h["t2"]], {})
        self.ref[("ra2", (0, 1))] = "t1"
        self.ref[("ra2", (1, 0))] = "t2"
        # a second union class with the SAME members at OTHER positions (member ids are positions in the class's own
        # list: anything kept per member name across union classes records the other class's id -- seeded C08-g)
        self.V = I.call(I.class_attrs(MU)["__new__"], [MU, "V", (U0,), {"_reftypes": (self.T2, self.T)}], {})
        self.HV = lab.struct("HV", [("k", F), ("u", self.V)])
        self.h["hv"] = I.call(self.HV, [], {"k": 0.25, "_buffer": A})
        self.ref[("hv", "u")] = None
        self.union.add(("hv", "u"))
        self.uclass[("hv", "u")] = self.V
        self.UA = lab.array("URefArr", [2], (0,), self.U)
        self.h["rau"] = I.call(self.UA, [], {"_buffer": A})
        for k in range(2):
            self.ref[("rau", k)] = None
            self.union.add(("rau", k))

    def new_obj(self, name, cls, vals, buf):
        self.h[name] = self.I.call(cls, [], dict(vals, _buffer=buf))
        self.vals[name] = dict(vals)
        self.cls[name] = cls.name

    # ------------------------------------------------------------ observation
    def slot(self, holder, key):
        I = self.I
        h = self.h[holder]
        if holder.startswith("ra"):
            return h.attrs["_buffer"], pol(I.call(I.getattr(h, "_get_offset"), [key], {}))
        f = [f for f in h.cls.attrs["_fields"] if I.getattr(f, "name") == key][0]
        return h.attrs["_buffer"], pol(I.call(I.getattr(f, "get_offset"), [h], {})[1])

    def read(self, holder, key):
        I = self.I
        h = self.h[holder]
        v = I.call(I.getattr(h, "__getitem__"), [key], {}) if holder.startswith("ra") else I.getattr(h, key)
        if (holder, key) in self.union and isinstance(v, Obj) and v.cls is self.uclass.get((holder, key), self.U):
            return I.call(I.getattr(v, "get"), [], {})
        return v

    def word(self, pos, k=0):
        v = self.I.mem.get(repr(pos + Poly.const(8 * k)))
        return None if v is None else pol(v)

    def check(self, step, opn):
        I = self.I
        n0 = len(I.effects)
        try:
            for (holder, key), tgt in self.ref.items():
                buf, sp = self.slot(holder, key)
                is_union = (holder, key) in self.union
                w0 = self.word(sp)
                label = f"{holder}.{key}" if isinstance(key, str) else f"{holder}[{key}]"
                got = self.read(holder, key)
                if tgt is None:
                    if w0 != Poly.const(NULLV):
                        self.found.append((step, opn, f"{label} is null in the history but the slot holds {w0!r} (reserved null: -2**63)"))
                    elif is_union and self.word(sp, 1) != Poly.const(-1):
                        self.found.append((step, opn, f"{label}: a null union reference records member index {self.word(sp, 1)!r}, not -1"))
                    elif got is not None:
                        self.found.append((step, opn, f"{label} is null but reads {got!r}"))
                    continue
                th = self.h[tgt]
                tpos = pol(th.attrs["_offset"])
                # liveness: a region given back to the allocator may be handed out again by the next request
                freed = [e for e in I.effects[:n0] if e.kind == "free" and e.buf is th.attrs["_buffer"] and e.args and pol(e.args[0]) == tpos]
                if freed:
                    self.found.append((step, opn, f"{label} denotes {tgt} at {tpos!r}, but that region was given back to the allocator (free({tpos!r}, {freed[0].args[1] if len(freed[0].args) > 1 else '?'!r})): the reference dangles -- the next allocation that fits is placed over the object"))
                    continue
                if th.attrs["_buffer"] is not buf:
                    self.found.append((step, opn, f"{label} denotes {tgt}, which lives in buffer {th.attrs['_buffer'].name}, not in the holder's buffer {buf.name}"))
                    continue
                if w0 != tpos - sp:
                    self.found.append((step, opn, f"{label} denotes {tgt} at {tpos!r}: the slot at {sp!r} holds {w0!r}, not the relative position {(tpos - sp)!r}"))
                    continue
                if is_union:
                    ucls = self.uclass.get((holder, key), self.U)
                    want_id = [c.name for c in ucls.attrs["_reftypes"]].index(self.cls[tgt])
                    if self.word(sp, 1) != Poly.const(want_id):
                        self.found.append((step, opn, f"{label} denotes a {self.cls[tgt]}: member index {self.word(sp, 1)!r} recorded, {want_id} expected (its position among the members {[c.name for c in ucls.attrs['_reftypes']]} of {ucls.name})"))
                        continue
                if not (isinstance(got, Obj) and got.cls is not None and got.cls.name == self.cls[tgt]):
                    self.found.append((step, opn, f"{label} reads {got!r}, not a view of class {self.cls[tgt]}"))
                    continue
                if got.attrs["_buffer"] is not buf or pol(got.attrs["_offset"]) != tpos:
                    self.found.append((step, opn, f"{label} reads a view at {got.attrs['_buffer'].name}+{pol(got.attrs['_offset'])!r}, the object it denotes is at {buf.name}+{tpos!r}"))
                    continue
                for fn, val in self.vals[tgt].items():
                    g = I.getattr(got, fn)
                    if I._eq(g, val) is not True:
                        self.found.append((step, opn, f"{label}.{fn} reads {g!r}; {tgt}.{fn} is {val!r} in the history (they are the same object)"))
                        break
            # every object reads its own values through its own handle
            for name, vals in self.vals.items():
                for fn, val in vals.items():
                    g = I.getattr(self.h[name], fn)
                    if I._eq(g, val) is not True:
                        self.found.append((step, opn, f"{name}.{fn} reads {g!r} through its own handle; the history gives {val!r}"))
                        break
        except PyExc as e:
            self.found.append((step, opn, f"reading raises {e.etype}: {e.msg}"))
        finally:
            del I.effects[n0:]

    def frame(self, before, allowed, label):
        out = []
        after = self.I.mem
        for k in {k for k in set(before) | set(after) if not k.startswith("#")}:
            if before.get(k, "<unknown>") == after.get(k, "<unknown>") or (k in before and k in after and self.I._eq(before[k], after[k]) is True):
                continue
            p = self.W.polys.get(k)
            if p is None:
                continue
            if k not in after and self.I.mem.get("#imprecise"):
                raise AnalysisError(f"{label}: the word at {p!r} cannot be followed through a bulk store (update_from_nplike / data of unknown length)")
            if not any((p - pos).is_const() and 0 <= (p - pos).const_value() < nb for pos, nb in allowed):
                out.append(f"{label}: the word at {p!r} changes from {before.get(k, '<unknown>')!r} to {after.get(k, '<unknown>')!r}, outside what the operation may touch")
        return out[:2]

    # ------------------------------------------------------------ operations
    def assign(self, holder, key, value):
        I = self.I
        h = self.h[holder]
        if holder.startswith("ra"):
            I.call(I.getattr(h, "__setitem__"), [key, value], {})
        else:
            I.setattr(h, key, value)

    def bind(self, holder, key, how):
        I = self.I
        label = f"{holder}.{key}" if not isinstance(key, int) else f"{holder}[{key}]"
        buf, sp = self.slot(holder, key)
        is_union = (holder, key) in self.union
        nslot = 16 if is_union else 8
        before = dict(I.mem)
        n0 = len(I.effects)
        out = []
        if how in ("t1", "t2", "tz"):
            self.assign(holder, key, self.h[how])
            if any(e.kind == "alloc" for e in I.effects[n0:]):
                out.append(f"{label} = {how} (same buffer): something is allocated -- the object must be shared, not duplicated")
            self.ref[(holder, key)] = how
            out += self.frame(before, [(sp, nslot)], f"{label} = {how}")
        elif how == "null":
            self.assign(holder, key, None)
            self.ref[(holder, key)] = None
            out += self.frame(before, [(sp, nslot)], f"{label} = None")
        elif how in ("value", "foreign"):
            if how == "value":
                vals = {"v": 8.25, "w": 9.25}
                arg = dict(vals) if not is_union else ("T", dict(vals))
            else:
                vals = dict(self.vals["tB"])
                arg = self.h["tB"]
                src = (arg.attrs["_buffer"], pol(arg.attrs["_offset"]))
            self.assign(holder, key, arg)
            al = [e for e in I.effects[n0:] if e.kind == "alloc"]
            if len(al) != 1 or al[0].buf is not buf:
                out.append(f"{label} = <{how}>: {len(al)} allocation(s) in {[e.buf.name for e in al]}; exactly one new object in the holder's buffer {buf.name} is needed")
                raise _Bad("; ".join(out))
            self.nnew += 1
            name = f"new{self.nnew}"
            self.h[name] = I.call(I.getattr(self.T, "_from_buffer"), [buf, al[0].pos], {})
            self.vals[name] = vals
            self.cls[name] = "T"
            self.ref[(holder, key)] = name
            if how == "foreign":
                now = (arg.attrs["_buffer"], pol(arg.attrs["_offset"]))
                if now[0] is not src[0] or now[1] != src[1]:
                    out.append(f"{label} = tB: the source object was relocated")
            out += self.frame(before, [(sp, nslot), (pol(al[0].pos), 16)], f"{label} = <{how}>")
        return out

    def rebind_after_sharing(self, how):
        """h.r is bound to a value (the reference builds its own object O); a second reference ra[0] is bound to O (the
        object h.r reads); then h.r is bound to something else.  ra[0] still denotes O, O is live and keeps its values
        (seeded C08-h: the object "built by" a reference was given back to the allocator when that reference was rebound)"""
        out = self.bind("h", "r", "value")
        name = self.ref[("h", "r")]
        shared = self.read("h", "r")
        self.assign("ra", 0, shared)
        self.ref[("ra", 0)] = name
        out += self.bind("h", "r", how)
        return out

    def bind_unionref_object(self, bound):
        """the value is itself a stand-alone UnionRef OBJECT living in the holder's buffer: bound to t1 / null"""
        I = self.I
        buf, sp = self.slot("h", "u")
        src = I.call(self.U, [self.h["t1"]] if bound else [], {"_buffer": buf})
        before = dict(I.mem)
        n0 = len(I.effects)
        I.setattr(self.h["h"], "u", src)
        out = []
        if any(e.kind == "alloc" for e in I.effects[n0:]):
            out.append("h.u = <UnionRef object of the same buffer>: something is allocated")
        self.ref[("h", "u")] = "t1" if bound else None
        return out + self.frame(before, [(sp, 16)], "h.u = <UnionRef object>")

    def copy_unionref_object(self, where):
        """U(u): a stand-alone union reference copy-constructed from another one (bound to t1 / null)"""
        I = self.I
        out = []
        A = self.ow.buf("A")
        dest = A if where == "same" else self.ow.buf("B")
        for bound in (True, False):
            src = I.call(self.U, [self.h["t1"]] if bound else [], {"_buffer": A})
            n0 = len(I.effects)
            c = I.call(self.U, [src], {"_buffer": dest})
            got = I.call(I.getattr(c, "get"), [], {})
            if not bound:
                if got is not None:
                    out.append(f"U(<null U>, {where} buffer) is not null: {got!r}")
                continue
            if not (isinstance(got, Obj) and got.cls is self.T):
                out.append(f"U(<U bound to t1>, {where} buffer) resolves to {got!r}")
                continue
            if got.attrs["_buffer"] is not dest:
                out.append(f"U(<U bound to t1>, {where} buffer) denotes an object of buffer {got.attrs['_buffer'].name}")
            if where == "same" and pol(got.attrs["_offset"]) != pol(self.h["t1"].attrs["_offset"]):
                out.append("U(<U bound to t1>) in the same buffer does not denote t1 itself")
            for fn, val in self.vals["t1"].items():
                if I._eq(I.getattr(got, fn), val) is not True:
                    out.append(f"U(<U bound to t1>, {where} buffer).{fn} reads {I.getattr(got, fn)!r}, t1.{fn} is {val!r}")
        return out

    def update_from_holder(self):
        """whole-struct assignment from another holder of the same buffer: the references must denote the same objects
        as the source's (shared), re-encoded relative to the destination's own slots"""
        I = self.I
        h, h2 = self.h["h"], self.h["h2"]
        before = dict(I.mem)
        pos = pol(h.attrs["_offset"])
        size = int(pol(I.call(I.getattr(h, "_get_size"), [], {})).const_value())
        n0 = len(I.effects)
        I.call(I.getattr(h, "_update"), [h2], {})
        out = []
        if any(e.kind == "alloc" for e in I.effects[n0:]):
            out.append("h._update(h2) (same buffer): something is allocated -- the referents must be shared")
        self.ref[("h", "r")] = self.ref[("h2", "r")]
        self.ref[("h", "u")] = self.ref[("h2", "u")]
        return out + self.frame(before, [(pos, size)], "h._update(h2)")

    def refused_late(self, which):
        """a whole-value update whose LAST part is not a member of the union (a refusal that is a TypeError, raised
        after the earlier parts were written): it must raise and leave the target as it was (seeded C11-e narrowed
        the rollback to ValueError / IndexError)"""
        I = self.I
        if not hasattr(self, "X"):
            F = I.global_lookup("scalar", "Float64")
            self.X = self.ow.lab.struct("X", [("z", F)])
        tx = I.call(self.X, [], {"z": 8.5, "_buffer": self.ow.buf("A")})
        before = dict(I.mem)
        # the three spellings of a union value: the object, (object,), (type name, data): they are refused by
        # different exceptions (ValueError / TypeError)
        bad = {"": tx, "-tuple": (tx,), "-named": ("X", {"z": 8.5})}[which[which.index("-"):] if "-" in which else ""]
        if which.startswith("struct"):
            h, label = self.h["h"], f"h._update({{k: 9.5, r: t1, u: <X, not a member of the union, given as {which}>}})"
            value = {"k": 9.5, "r": self.h["t1"], "u": bad}
        else:
            h, label = self.h["rau"], f"rau._update([tz, <X, not a member of the union, given as {which}>])"
            value = [self.h["tz"], bad]
        out = []
        try:
            I.call(I.getattr(h, "_update"), [value], {})
            out.append(f"{label} is accepted")
        except PyExc:
            pass
        return out + self.frame(before, [], "refused " + label)

    def write_through_ref(self):
        I = self.I
        tgt = self.ref[("h", "r")]
        if tgt is None:
            return []
        before = dict(I.mem)
        v = I.getattr(self.h["h"], "r")
        I.setattr(v, "v", 11.75)
        self.vals[tgt]["v"] = 11.75
        return self.frame(before, [(pol(self.h[tgt].attrs["_offset"]), 8)], "h.r.v = 11.75")

    def write_through_original(self):
        I = self.I
        before = dict(I.mem)
        I.setattr(self.h["t1"], "w", 12.75)
        self.vals["t1"]["w"] = 12.75
        return self.frame(before, [(pol(self.h["t1"].attrs["_offset"]) + Poly.const(8), 8)], "t1.w = 12.75")

    def copy_holder(self, where):
        """field-wise copy of the holder: same buffer -> the referents are shared; other buffer -> duplicated there"""
        I = self.I
        src = self.h["h"]
        buf = self.ow.buf("A" if where == "same" else "B")
        n0 = len(I.effects)
        c = I.call(self.H, [src], {"_buffer": buf})
        name = f"h_copy{len([k for k in self.h if k.startswith('h_copy')])}"
        self.h[name] = c
        allocs = [e for e in I.effects[n0:] if e.kind == "alloc"]
        out = []
        k = 1
        for key in ("r", "u"):
            tgt = self.ref[("h", key)]
            if tgt is None:
                self.ref[(name, key)] = None
            elif where == "same":
                self.ref[(name, key)] = tgt
            else:
                # a duplicate of the referent must have been made in B
                cand = [e for e in allocs[1:] if e.buf is buf]
                if len(cand) < k:
                    raise _Bad(f"H(h, _buffer=B): the referent of .{key} was not duplicated in the copy's buffer ({len(cand)} new object(s) there)")
                self.nnew += 1
                nn = f"new{self.nnew}"
                cls = self.T if self.cls[tgt] == "T" else self.T2
                self.h[nn] = I.call(I.getattr(cls, "_from_buffer"), [buf, cand[k - 1].pos], {})
                self.vals[nn] = dict(self.vals[tgt])
                self.cls[nn] = self.cls[tgt]
                self.ref[(name, key)] = nn
                k += 1
        if where == "same" and len(allocs) != 1:
            out.append(f"H(h) in the same buffer allocates {len(allocs)} objects: the referents must be shared, only the holder is new")
        return out


def _copy_refarray(H, where, which="ra"):
    """element-wise copy of an array of references: null entries stay null; bound entries are shared in the same
    buffer and duplicated in another one"""
    I = H.I
    src = H.h[which]
    buf = H.ow.buf("A" if where == "same" else "B")
    n0 = len(I.effects)
    c = I.call(H.RA if which == "ra" else H.RA2, [src], {"_buffer": buf})
    name = f"{which}_copy{len([k for k in H.h if k.startswith(which + '_copy')])}"
    H.h[name] = c
    allocs = [e for e in I.effects[n0:] if e.kind == "alloc"]
    out = []
    new_objs = [e for e in allocs[1:] if e.buf is buf]
    k = 0
    keys = list(range(3)) if which == "ra" else [(0, 0), (0, 1), (1, 0), (1, 1)]
    for i in keys:
        tgt = H.ref[(which, i)]
        if tgt is None or where == "same":
            H.ref[(name, i)] = tgt
            continue
        if k >= len(new_objs):
            raise _Bad(f"{which} copied into B: the referent of item {i} was not duplicated in the copy's buffer")
        H.nnew += 1
        nn = f"new{H.nnew}"
        H.h[nn] = I.call(I.getattr(H.T, "_from_buffer"), [buf, new_objs[k].pos], {})
        H.vals[nn] = dict(H.vals[tgt])
        H.cls[nn] = "T"
        H.ref[(name, i)] = nn
        k += 1
    if where == "same" and len(allocs) != 1:
        out.append(f"RefArr(ra) in the same buffer allocates {len(allocs)} objects: the referents must be shared")
    return out


OPS = {
    "copy-refarray-same-buffer": lambda H: _copy_refarray(H, "same"),
    "copy-refarray-other-buffer": lambda H: _copy_refarray(H, "other"),
    "copy-2d-refarray-same-buffer": lambda H: _copy_refarray(H, "same", "ra2"),
    "copy-2d-refarray-other-buffer": lambda H: _copy_refarray(H, "other", "ra2"),
    "bind-existing": lambda H: H.bind("h", "r", "t1"),
    "bind-other-existing": lambda H: H.bind("h", "r", "t2"),
    "bind-value": lambda H: H.bind("h", "r", "value"),
    "bind-foreign": lambda H: H.bind("h", "r", "foreign"),
    "bind-null": lambda H: H.bind("h", "r", "null"),
    "share-built-then-null": lambda H: H.rebind_after_sharing("null"),
    "share-built-then-value": lambda H: H.rebind_after_sharing("value"),
    "share-built-then-existing": lambda H: H.rebind_after_sharing("t1"),
    "union-bind-first-member": lambda H: H.bind("h", "u", "t1"),
    "union-bind-second-member": lambda H: H.bind("h", "u", "tz"),
    "union-bind-value": lambda H: H.bind("h", "u", "value"),
    "union-bind-foreign": lambda H: H.bind("h", "u", "foreign"),
    "union-null": lambda H: H.bind("h", "u", "null"),
    "union-bind-bound-unionref-object": lambda H: H.bind_unionref_object(True),
    "union-bind-null-unionref-object": lambda H: H.bind_unionref_object(False),
    "update-from-holder": lambda H: H.update_from_holder(),
    "copy-unionref-same-buffer": lambda H: H.copy_unionref_object("same"),
    "copy-unionref-other-buffer": lambda H: H.copy_unionref_object("other"),
    "union-item-bind": lambda H: H.bind("rau", 1, "tz"),
    "union2-bind-first-member": lambda H: H.bind("hv", "u", "tz"),
    "union2-bind-second-member": lambda H: H.bind("hv", "u", "t1"),
    "union2-bind-value": lambda H: H.bind("hv", "u", "value"),
    "item-bind-existing": lambda H: H.bind("ra", 1, "t2"),
    "item-bind-value": lambda H: H.bind("ra", 2, "value"),
    "item-null": lambda H: H.bind("ra", 1, "null"),
    "write-through-ref": lambda H: H.write_through_ref(),
    "write-through-original": lambda H: H.write_through_original(),
    "copy-holder-same-buffer": lambda H: H.copy_holder("same"),
    "copy-holder-other-buffer": lambda H: H.copy_holder("other"),
    "holder-update-refused-late": lambda H: H.refused_late("struct") + H.refused_late("struct-tuple") + H.refused_late("struct-named"),
    "unionarray-update-refused-late": lambda H: H.refused_late("array") + H.refused_late("array-tuple") + H.refused_late("array-named"),
}


def run_history(model, hist):
    H = RefHist(model)
    I = H.I

    def thunk():
        H.build()
        H.check(-1, "construct")
        if H.found:
            return
        for k, opn in enumerate(hist):
            try:
                for b in OPS[opn](H):
                    H.found.append((k, opn, b))
            except PyExc as e:
                H.found.append((k, opn, f"raises {e.etype}: {e.msg}"))
                return
            except _Bad as e:
                H.found.append((k, opn, str(e)))
                return
            if H.found:
                return
            H.check(k, opn)
            if H.found:
                return

    try:
        res = I.explore(thunk, max_paths=4)
    except (AnalysisError, _Bad) as e:
        return H.found, str(e)
    if len(res) != 1:
        gen = [r for r in res if all(not (("==" in t and v is True and "!=" not in t) or ("!=" in t and v is False)) for t, v in r["conds"])]
        return H.found, f"{len(res)} evaluation paths ({len(gen)} generic): {res[0]['conds'][:2]}"
    if res[0]["exc"] is not None:
        return H.found, f"construction raises {res[0]['exc'].etype}: {res[0]['exc']}"
    return H.found, None


_MODEL_CACHE = {}


def _worker(args):
    root, hists = args
    from ..srcmodel import Model

    if root not in _MODEL_CACHE:
        _MODEL_CACHE.clear()
        _MODEL_CACHE[root] = Model(root)
    return [(h,) + run_history(_MODEL_CACHE[root], h) for h in hists]


@rule("RV", ["C08", "C09", "C11", "C10", "C01", "C05"], "references over histories of {bind to existing / value / foreign object / null, write through reference and original, copy the holder}: shared when and only when documented, always inside the holder's buffer, null reads None")
def rv(cx):
    m = cx.m
    for _mod in ('struct', 'array', 'ref', 'scalar', 'typeutils'):
        m.mod(_mod)  # interpreted by the worker processes: recorded as consulted
    for q in ("ref::Ref._to_buffer", "ref::Ref._from_buffer", "ref::MetaUnionRef._to_buffer", "ref::MetaUnionRef._from_buffer", "ref::UnionRef.get", "struct::Struct._to_buffer"):
        m.func(q)
    maxlen = 3 if cx.tier == "thorough" else 2
    hs = [h for n in range(1, maxlen + 1) for h in itertools.product(list(OPS), repeat=n)]
    focus = {"C11": ("holder-update-refused-late", "unionarray-update-refused-late", "bind-foreign", "union-bind-foreign"), "C09": ("copy-holder-same-buffer", "copy-holder-other-buffer", "copy-refarray-same-buffer", "copy-refarray-other-buffer", "copy-2d-refarray-same-buffer", "copy-2d-refarray-other-buffer", "update-from-holder", "copy-unionref-same-buffer", "copy-unionref-other-buffer"),
             # C10: an assignment to a reference slot stores exactly the assigned value and leaves every other slot alone
             # C01: a reference part built from another xobject (same / other buffer) reads back that object's value
             "C01": ("bind-foreign", "union-bind-foreign", "copy-holder-other-buffer", "copy-refarray-other-buffer", "copy-unionref-other-buffer", "bind-value"),
             # C05: an update refused half-way must not leave a header / offset table that no longer describes the parts
             "C05": ("holder-update-refused-late", "unionarray-update-refused-late"),
             "C10": ("bind-value", "bind-foreign", "union-bind-value", "union-bind-foreign", "item-bind-value", "item-bind-existing", "union-item-bind", "write-through-ref", "write-through-original")}.get(cx.prop)
    if focus and cx.tier != "thorough":
        # C09 also speaks of LATER writes ("a later write to either never shows through the other"): a copy followed
        # by a rebinding of / a write through a reference of the original, the copies being checked afterwards
        later = ("bind-foreign", "bind-value", "bind-other-existing", "bind-null", "write-through-ref", "union-bind-foreign", "union-bind-value", "item-bind-value") if cx.prop == "C09" else ()
        hs = [h for h in hs if h[-1] in focus or (len(h) >= 2 and h[-2] in focus and h[-1] in later)]
        cx.partial = True
    from concurrent.futures import ProcessPoolExecutor

    jobs = int(os.environ.get("XOVERIF_JOBS", min(16, os.cpu_count() or 1)))
    chunks = [hs[i::jobs * 2] for i in range(jobs * 2)]
    results = []
    with ProcessPoolExecutor(max_workers=jobs) as ex:
        for part in ex.map(_worker, [(m.root, c) for c in chunks if c]):
            results.extend(part)
    errs = [(h, e) for h, f, e in results if e]
    if errs:
        cx.recog(False, None, f"RV: {len(errs)} histories cannot be evaluated, first {errs[0][0]}: {errs[0][1]}")
    cons = [(h, f) for h, f, e in results if f and f[0][1] == "construct"]
    cx.check(not cons, None, construct="construction: H{k, r: Ref(T), u: UnionRef(T, T2)}, Ref(T)[3], objects t1, t2 (T), tz (T2) in A, tB (T) in B", detail="never-assigned references are null and read None",
             bad_detail=cons[0][1][0][2] if cons else "", anchor="ref::Ref._to_buffer", sub="construct")
    if cons:
        return
    by_op = {o: [] for o in OPS}
    for h, f, e in results:
        if f:
            k, opn, b = f[0]
            by_op[opn].append((len(h), h, k, b))
    for o in OPS:
        anchor = "struct::Struct._update" if o == "holder-update-refused-late" else "array::Array._update" if o == "unionarray-update-refused-late" else "ref::MetaUnionRef._to_buffer" if o.startswith("union") else "struct::Struct._to_buffer" if o.startswith("copy") else "ref::Ref._to_buffer"
        n_with = sum(1 for h, f, e in results if o in h)
        if not n_with:
            continue
        fails = sorted(by_op[o], key=lambda t: (t[0], t[1]))
        if fails:
            ln, h, k, b = fails[0]
            cx.bad(None, construct=f"history {' ; '.join(h)} (step {k + 1}: {o})", detail=f"{b}  [{len(fails)} of the {n_with} histories with this operation fail at it]", anchor=anchor, sub=o)
        else:
            cx.ok(None, construct=f"{o}: {n_with} histories of length <= {maxlen} containing it", detail="sharing, placement, null encoding, values through reference and original, frame", anchor=anchor, sub=o)
    cx.note(None, detail=f"{len(results)} histories of length <= {maxlen} over {len(OPS)} operations evaluated")
