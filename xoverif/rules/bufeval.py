"""B1e -- the copy primitives of the two CPU buffer classes, decided by evaluating the CURRENT source of
context_cpu.py on an abstract native storage.

The storage of a buffer is an abstract object that records every slice read and every slice store with symbolic
bounds.  What distinguishes the two storage kinds is modelled, because the property depends on it:

    bytearray   a slice read COPIES; a slice store of a value of another byte length RESIZES the bytearray (every
                following byte moves -- "all other bytes untouched" is lost);
    ndarray     a slice read is a VIEW; a slice store of a value of another length raises (broadcast error).

Sources are abstract too and come in every kind the docstrings name: bytes-like objects of n bytes (len == nbytes),
TYPED memoryviews such as numpy's array.data (len == number of ITEMS, nbytes == items * itemsize), regions of another
native storage, numpy arrays of C, Fortran and strided layout with the destination's dtype or another one
(`view('int8')` of an array whose last axis is not contiguous raises, as numpy's does; `flatten()` is a C-ordered copy;
`astype` keeps the layout).

For every primitive x buffer class x source kind the rule requires: no exception, exactly one store, to
[offset, offset + byte length of the data) of the right storage, of data whose byte length equals the extent (no
resize), coming from the requested place of the source; extracting primitives return a copy, viewing ones a view.
"""
from ..core import rule
from ..linear import Poly
from ..peval import Builtin, Interp, Namespace, Obj, Opaque, PyExc, Sym
from ..srcmodel import AnalysisError


def P(x):
    from ..peval import topoly

    p = topoly(x)
    if p is None:
        raise AnalysisError(f"B1e: {x!r} is not an integer expression")
    return p


class Lab:
    def __init__(self, model, clsname):
        self.I = I = Interp(model)
        self.log = []
        self.cls = I.global_lookup("context_cpu", clsname)
        self.kind = "bytearray" if clsname == "BufferByteArray" else "ndarray"
        np_ = I.np
        I.np = Namespace("np", dict(np_.table, frombuffer=Builtin("np.frombuffer", self.frombuffer), array=Builtin("np.array", lambda a, *r, **k: a), asarray=Builtin("np.asarray", lambda a, *r, **k: a),
                                    prod=Builtin("np.prod", self.prod)))
        self.buf = Obj("instance", {"buffer": self.storage("self.buffer", self.kind), "capacity": Sym(Poly.atom("capacity"))}, cls=self.cls)
        # bytearray(x): an independent copy of the bytes of x
        I.builtins["bytearray"] = Builtin("bytearray", lambda x=None: self.data(f"bytearray({getattr(x, 'name', x)})", x.nbytes, origin=getattr(x, "origin", None) or x, view=False) if isinstance(x, Obj) else bytearray(x or 0))

    def prod(self, x):
        acc = 1
        for v in self.I.iterate(x):
            acc = self.I.binop(__import__("ast").Mult(), acc, v)
        return acc

    # ------------------------------------------------------------ abstract data
    def data(self, tag, nbytes, length=None, copy_of=None, origin=None, layout="C", view=False):
        """a run of bytes: `nbytes` (Poly) long; len() gives `length` (items)"""
        I = self.I
        d = Obj("data", {}, name=tag)
        d.nbytes, d.origin, d.layout, d.is_view = nbytes, origin, layout, view
        d.attrs["__len__"] = Builtin("len", lambda: Sym(length if length is not None else nbytes))
        if length is not None:  # typed memoryview / ndarray: has .nbytes
            d.attrs["nbytes"] = Sym(nbytes)
        d.attrs["copy"] = Builtin("copy", lambda: self.data(f"copy({tag})", nbytes, length, origin=origin or d, view=False))
        d.attrs["tobytes"] = Builtin("tobytes", lambda: self.data(f"bytes({tag})", nbytes, origin=origin or d, view=False))

        def getitem(k):
            if not isinstance(k, slice):
                raise AnalysisError(f"B1e: item access {k!r} on {tag}")
            lo, hi = P(k.start if k.start is not None else 0), P(k.stop)
            return self.data(f"{tag}[{lo!r}:{hi!r}]", hi - lo, origin=(origin or d, lo), view=True)

        d.attrs["__getitem__"] = Builtin("getitem", getitem)
        d.attrs["cast"] = Builtin("cast", lambda fmt, *a: self.data(f"{tag}.cast({fmt})", nbytes, origin=origin or d, view=True))
        return d

    def storage(self, tag, kind):
        I = self.I
        s = Obj("storage", {}, name=tag)
        s.kind = kind

        def getitem(k):
            if not isinstance(k, slice):
                raise AnalysisError(f"B1e: item access {k!r} on the storage")
            lo, hi = P(k.start if k.start is not None else 0), P(k.stop)
            self.log.append(("read", s, lo, hi))
            return self.data(f"{tag}[{lo!r}:{hi!r}]", hi - lo, origin=(s, lo), view=(kind == "ndarray"))

        def setitem(k, v):
            if not isinstance(k, slice):
                raise AnalysisError(f"B1e: item store {k!r} on the storage")
            lo, hi = P(k.start if k.start is not None else 0), P(k.stop)
            nb = getattr(v, "nbytes", None)
            if nb is None:
                raise AnalysisError(f"B1e: store of {v!r}")
            if kind == "ndarray" and nb != hi - lo:
                raise PyExc("ValueError", f"could not broadcast input array of {nb!r} bytes into {hi - lo!r}")
            self.log.append(("store", s, lo, hi, v, nb != hi - lo))

        s.attrs["__getitem__"] = Builtin("storage[]", getitem)
        s.attrs["__setitem__"] = Builtin("storage[]=", setitem)
        s.attrs["__len__"] = Builtin("len", lambda: Sym(Poly.atom("capacity")))
        return s

    def frombuffer(self, b, *a, **k):
        vals = dict(zip(("dtype", "count", "offset"), a))
        vals.update(k)
        self.log.append(("frombuffer", b, vals.get("dtype"), vals.get("count", -1), vals.get("offset", 0)))
        v = Obj("ndview", {}, name="frombuffer")
        v.attrs["reshape"] = Builtin("reshape", lambda *s, **kk: (self.log.append(("reshape", s)), v)[1])
        return v

    def ndarray(self, tag, items, dtype, layout):
        """abstract numpy array: `items` elements of `dtype`, memory layout C / F / strided"""
        I = self.I
        nb = items * Poly.const(I.getattr(dtype, "itemsize"))
        a = Obj("ndarray", {"dtype": dtype, "nbytes": Sym(nb), "size": Sym(items)}, name=tag)
        a.nbytes, a.layout, a.items, a.origin, a.is_view = nb, layout, items, None, False

        def astype(*x, **k):
            dt = x[0] if x else k.get("dtype")
            self.log.append(("astype", a, dt))
            r = self.ndarray(f"{tag}.astype({I.getattr(dt, 'name')})", items, dt, layout)
            r.origin = ("converted", a, dt)
            return r

        def view(dt):
            if layout != "C":
                raise PyExc("ValueError", "To change to a dtype of a different size, the last axis must be contiguous")
            r = self.data(f"{tag}.view({dt})", nb, length=nb, origin=a, view=True)
            return r

        def flatten(*x, **k):
            r = self.ndarray(f"{tag}.flatten()", items, dtype, "C")
            r.origin = ("flat", a)
            return r

        a.attrs["astype"] = Builtin("astype", astype)
        a.attrs["view"] = Builtin("view", view)
        a.attrs["flatten"] = Builtin("flatten", flatten)
        a.attrs["ravel"] = Builtin("ravel", flatten)
        a.attrs["tobytes"] = Builtin("tobytes", lambda *x, **k: self.data(f"{tag}.tobytes()", nb, origin=a))
        a.attrs["copy"] = Builtin("copy", lambda *x, **k: a)
        # .data: typed memoryview (len counts the items of the first axis; slicing is by item)
        mv = self.data(f"{tag}.data", nb, length=items, origin=a, layout=layout, view=True)

        def mv_get(k):
            # item-wise slice of a typed memoryview: [0 : n] with n >= items gives the whole
            lo, hi = P(k.start if k.start is not None else 0), P(k.stop)
            if lo != Poly.const(0):
                raise AnalysisError("B1e: typed memoryview sliced from a non-zero item")
            return self.data(f"{tag}.data[:]", nb, length=items, origin=a, layout=layout, view=True)

        mv.attrs["__getitem__"] = Builtin("mv[]", mv_get)
        a.attrs["data"] = mv
        return a

    def dtype(self, name, itemsize):
        return Obj("dtype", {"name": name, "itemsize": itemsize}, name=f"dtype({name})")

    def run(self, meth, args, kwargs=None):
        I = self.I
        self.log.clear()
        res = I.explore(lambda: I.call(I.getattr(self.buf, meth), list(args), dict(kwargs or {})), max_paths=8)
        return res


def _root(v):
    """(root object, byte offset inside it or None, converted?) of abstract data"""
    conv = False
    off = Poly.const(0)
    seen = 0
    while seen < 12:
        seen += 1
        o = getattr(v, "origin", None)
        if o is None:
            return v, off, conv
        if isinstance(o, tuple) and o and o[0] == "converted":
            conv = o[2]
            v = o[1]
        elif isinstance(o, tuple) and o and o[0] == "flat":
            v = o[1]
        elif isinstance(o, tuple):
            v, off = o[0], off + o[1]
        else:
            v = o
    return v, off, conv


@rule("B1e", ["C13", "C04", "C09"], "CPU buffer copy primitives, evaluated on an abstract storage for every kind of source: exact extents, no resize, copies vs views")
def b1e(cx):
    m = cx.m
    OFF, SOFF, DOFF, NB = (Sym(Poly.atom(x)) for x in ("offset", "source_offset", "dest_offset", "nbytes"))
    pO, pS, pD, pN = (P(x) for x in (OFF, SOFF, DOFF, NB))
    n = 0
    for clsname in ("BufferByteArray", "BufferNumpy"):
        for meth in ("update_from_native", "to_native", "copy_to_native", "update_from_buffer", "to_nplike", "update_from_nplike", "to_bytearray"):
            m.func(f"context_cpu::{clsname}.{meth}")
        anchor = f"context_cpu::{clsname}"

        def stores(lab):
            return [e for e in lab.log if e[0] == "store"]

        def one_path(res, what, lab):
            cx.recog(len(res) == 1, None, f"{clsname}.{what}: {len(res)} evaluation paths")
            return res[0]

        # ---- update_from_buffer, every kind of bytes-like source
        N, K = Poly.atom("n"), Poly.atom("k")
        for label, mk in (("bytes / bytearray of n bytes", lambda L: L.data("src", N)),
                          ("typed memoryview (numpy array.data) of k float64 items", lambda L: L.data("src", K * Poly.const(8), length=K)),
                          ("typed memoryview of k int16 items", lambda L: L.data("src", K * Poly.const(2), length=K)),
                          ("memoryview of n bytes (itemsize 1)", lambda L: L.data("src", N, length=N))):
            L = Lab(m, clsname)
            src = mk(L)
            r = one_path(L.run("update_from_buffer", [OFF, src]), "update_from_buffer", L)
            st = stores(L)
            n += 1
            why = ""
            if r["exc"] is not None:
                why = f"raises {r['exc'].etype}: {r['exc']}"
            elif len(st) != 1 or st[0][1] is not L.buf.attrs["buffer"]:
                why = f"{len(st)} stores to the storage"
            else:
                _, s_, lo, hi, v, resized = st[0]
                root, roff, conv = _root(v)
                if lo != pO or hi - lo != src.nbytes:
                    why = f"writes [{lo!r}, {hi!r}) for a source of {src.nbytes!r} bytes"
                elif resized:
                    why = f"stores {v.nbytes!r} bytes into a slice of {hi - lo!r}: the bytearray is resized and every following byte moves"
                elif root is not src or roff != Poly.const(0) or v.nbytes != src.nbytes:
                    why = "the stored data is not the whole source"
            cx.check(not why, None, construct=f"{clsname}.update_from_buffer(offset, <{label}>)", detail="exactly the source's bytes at [offset, offset + nbytes)", bad_detail=why, anchor=anchor + ".update_from_buffer", sub="update_from_buffer")

        # ---- update_from_native / copy_to_native
        L = Lab(m, clsname)
        other = L.storage("source", L.kind)
        r = one_path(L.run("update_from_native", [OFF, other, SOFF, NB]), "update_from_native", L)
        st = stores(L)
        n += 1
        ok = r["exc"] is None and len(st) == 1 and st[0][1] is L.buf.attrs["buffer"] and st[0][2] == pO and st[0][3] == pO + pN and not st[0][5]
        if ok:
            root, roff, conv = _root(st[0][4])
            ok = root is other and roff == pS and st[0][4].nbytes == pN
        cx.check(ok, None, construct=f"{clsname}.update_from_native(offset, source, source_offset, nbytes)", detail="storage[offset : offset+nbytes] = source[source_offset : source_offset+nbytes]",
                 bad_detail=f"not the nbytes bytes at source_offset of the source stored at offset: {[(e[0], repr(e[2]), repr(e[3])) for e in L.log]}" + (f" raises {r['exc'].etype}" if r["exc"] else ""), anchor=anchor + ".update_from_native", sub="update_from_native")
        L = Lab(m, clsname)
        dest = L.storage("dest", L.kind)
        r = one_path(L.run("copy_to_native", [dest, DOFF, SOFF, NB]), "copy_to_native", L)
        st = stores(L)
        n += 1
        ok = r["exc"] is None and len(st) == 1 and st[0][1] is dest and st[0][2] == pD and st[0][3] == pD + pN and not st[0][5]
        if ok:
            root, roff, conv = _root(st[0][4])
            ok = root is L.buf.attrs["buffer"] and roff == pS and st[0][4].nbytes == pN
        cx.check(ok, None, construct=f"{clsname}.copy_to_native(dest, dest_offset, source_offset, nbytes)", detail="dest[dest_offset : +nbytes] = storage[source_offset : +nbytes]",
                 bad_detail=f"not the nbytes bytes at source_offset stored at dest_offset of dest: {[(e[0], repr(e[2]), repr(e[3])) for e in L.log]}", anchor=anchor + ".copy_to_native", sub="copy_to_native")

        # ---- extracting primitives: a COPY of [offset, offset+nbytes)
        for meth in ("to_native", "to_bytearray"):
            L = Lab(m, clsname)
            r = one_path(L.run(meth, [OFF, NB]), meth, L)
            v = r["result"]
            n += 1
            why = ""
            if r["exc"] is not None:
                why = f"raises {r['exc'].etype}"
            elif not isinstance(v, Obj) or getattr(v, "nbytes", None) is None:
                why = f"returns {v!r}"
            else:
                root, roff, conv = _root(v)
                if root is not L.buf.attrs["buffer"] or roff != pO or v.nbytes != pN:
                    why = f"returns {v.nbytes!r} bytes from {roff!r}, requested nbytes from offset"
                elif v.is_view:
                    why = "returns a VIEW of the storage (a later write to the buffer changes the extracted data, and vice versa); an extracted copy must be independent"
            cx.check(not why, None, construct=f"{clsname}.{meth}(offset, nbytes)", detail="independent copy of [offset, offset+nbytes)", bad_detail=why, anchor=anchor + "." + meth, sub=meth)

        # ---- to_nplike: a typed VIEW of the storage at offset
        L = Lab(m, clsname)
        dt = L.dtype("float64", 8)
        r = one_path(L.run("to_nplike", [OFF, dt, (Sym(Poly.atom("d0")), 3)]), "to_nplike", L)
        fb = [e for e in L.log if e[0] == "frombuffer"]
        n += 1
        ok = r["exc"] is None and len(fb) == 1 and fb[0][1] is L.buf.attrs["buffer"] and fb[0][2] is dt and P(fb[0][4]) == pO and P(fb[0][3]) == Poly.atom("d0") * Poly.const(3)
        cx.check(ok, None, construct=f"{clsname}.to_nplike(offset, dtype, shape)", detail="frombuffer(storage, dtype, count=prod(shape), offset=offset): aliases the bytes it covers",
                 bad_detail=f"not a view of prod(shape) items of dtype at offset: {[(e[0],) + tuple(repr(x) for x in e[2:]) for e in fb]}", anchor=anchor + ".to_nplike", sub="to_nplike")

        # ---- update_from_nplike: layouts x conversion
        for layout in ("C", "F", "last axis strided"):
            for convert in (False, True):
                L = Lab(m, clsname)
                f8, f4 = L.dtype("float64", 8), L.dtype("float32", 4)
                ITEMS = Poly.atom("items")
                val = L.ndarray("value", ITEMS, f8, layout)
                dest = f4 if convert else f8
                r = one_path(L.run("update_from_nplike", [OFF, dest, val]), "update_from_nplike", L)
                st = stores(L)
                n += 1
                want_nb = ITEMS * Poly.const(4 if convert else 8)
                why = ""
                if r["exc"] is not None:
                    why = f"raises {r['exc'].etype}: {r['exc']}"
                elif len(st) != 1 or st[0][1] is not L.buf.attrs["buffer"]:
                    why = f"{len(st)} stores to the storage"
                else:
                    _, s_, lo, hi, v, resized = st[0]
                    root, roff, conv = _root(v)
                    if lo != pO or hi - lo != want_nb:
                        why = f"writes [{lo!r}, {hi!r}), the converted value has {want_nb!r} bytes"
                    elif resized or v.nbytes != want_nb:
                        why = f"stores {v.nbytes!r} bytes into a slice of {hi - lo!r}"
                    elif root is not val or roff != Poly.const(0):
                        why = "the stored data is not the whole value"
                    elif bool(conv) != convert or (convert and conv is not dest):
                        why = "dtype conversion missing / not to the destination dtype" if convert else "converted although the dtypes agree"
                cx.check(not why, None, construct=f"{clsname}.update_from_nplike(offset, {'float32' if convert else 'float64'}, <float64 array, {layout} layout>)", detail="the value's bytes (converted first when the dtypes differ) at [offset, offset + nbytes)",
                         bad_detail=why, anchor=anchor + ".update_from_nplike", sub="update_from_nplike")
    cx.need(n >= 30, f"only {n} primitive cases evaluated")
