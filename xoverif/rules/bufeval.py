"""B1e -- the copy primitives of the two CPU buffer classes, decided by evaluating the CURRENT source of
context_cpu.py on an abstract native storage.

The storage of a buffer is an abstract object that records every slice read and every slice store with symbolic
bounds.  What distinguishes the two storage kinds is modelled, because the property depends on it:

    bytearray   a slice read COPIES; a slice store of a value of another byte length RESIZES the bytearray (every
                following byte moves -- "all other bytes untouched" is lost);
    ndarray     a slice read is a VIEW; a slice store of a value of another length raises (broadcast error).

Sources are abstract too and come in every kind the docstrings name: bytes-like objects of n bytes (len == nbytes),
TYPED memoryviews such as numpy's array.data (len == number of ITEMS, nbytes == items * itemsize), regions of another
native storage, numpy arrays of C, Fortran and strided layout with the destination's dtype or another one
(`view('int8')` of an array whose last axis is not contiguous raises, as numpy's does; `flatten()` is a C-ordered copy;
`astype` keeps the layout).

For every primitive x buffer class x source kind the rule requires: no exception, exactly one store, to
[offset, offset + byte length of the data) of the right storage, of data whose byte length equals the extent (no
resize), coming from the requested place of the source; extracting primitives return a copy, viewing ones a view.
"""
import re

from ..core import rule
from ..linear import Poly
from ..peval import Builtin, Interp, Namespace, Obj, Opaque, PyExc, Sym, fromp
from ..srcmodel import AnalysisError


def P(x):
    from ..peval import topoly

    p = topoly(x)
    if p is None:
        raise AnalysisError(f"B1e: {x!r} is not an integer expression")
    return p


class Lab:
    def __init__(self, model, clsname):
        self.I = I = Interp(model)
        self.log = []
        self.cls = I.global_lookup("context_cpu", clsname)
        self.kind = "bytearray" if clsname == "BufferByteArray" else "ndarray"
        np_ = I.np
        I.np = Namespace("np", dict(np_.table, frombuffer=Builtin("np.frombuffer", self.frombuffer), array=Builtin("np.array", lambda a, *r, **k: a), asarray=Builtin("np.asarray", lambda a, *r, **k: a),
                                    prod=Builtin("np.prod", self.prod), can_cast=Builtin("np.can_cast", Lab.can_cast)))
        self.buf = Obj("instance", {"buffer": self.storage("self.buffer", self.kind), "capacity": Sym(Poly.atom("capacity"))}, cls=self.cls)
        def _memoryview(x):
            if isinstance(x, Obj) and getattr(x, "nbytes", None) is not None and getattr(x, "pykind", "buffer") != "list":
                v = self.data(f"memoryview({x.name})", x.nbytes, length=getattr(x, "items", None) or x.nbytes, origin=getattr(x, "origin", None) or x, layout=getattr(x, "layout", "C"), view=True)
                v.pykind = "memoryview"
                v.itemsize_items = getattr(x, "itemsize_items", None)
                if getattr(x, "zero_dim", False):
                    v.zero_dim = True
                return v
            if isinstance(x, Obj) and x.kind in ("ndarray", "bytearray") and "__setitem__" in x.attrs:
                w = self.storage(f"memoryview({x.name})", "ndarray")
                w.base = x
                w.pykind = "memoryview"
                return w
            raise PyExc("TypeError", "memoryview: a bytes-like object is required")

        I.builtins["memoryview"] = Builtin("memoryview", _memoryview)
        # bytearray(x): an independent copy of the bytes of x
        I.builtins["bytearray"] = Builtin("bytearray", lambda x=None: self.data(f"bytearray({getattr(x, 'name', x)})", x.nbytes, origin=getattr(x, "origin", None) or x, view=False) if isinstance(x, Obj) else bytearray(x or 0))

    def prod(self, x):
        acc = 1
        for v in self.I.iterate(x):
            acc = self.I.binop(__import__("ast").Mult(), acc, v)
        return acc

    # ------------------------------------------------------------ abstract data
    def data(self, tag, nbytes, length=None, copy_of=None, origin=None, layout="C", view=False):
        """a run of bytes: `nbytes` (Poly) long; len() gives `length` (items)"""
        I = self.I
        d = Obj("data", {}, name=tag)
        d.nbytes, d.origin, d.layout, d.is_view = nbytes, origin, layout, view
        d.items = length
        d.pykind = "buffer"
        d.attrs["__len__"] = Builtin("len", lambda: Sym(length if length is not None else nbytes))
        if length is not None:  # typed memoryview / ndarray: has .nbytes
            d.attrs["nbytes"] = Sym(nbytes)
        d.attrs["copy"] = Builtin("copy", lambda: self.data(f"copy({tag})", nbytes, length, origin=origin or d, view=False))
        d.attrs["tobytes"] = Builtin("tobytes", lambda: self.data(f"bytes({tag})", nbytes, origin=origin or d, view=False))

        def getitem(k):
            if getattr(d, "zero_dim", False):
                raise PyExc("TypeError", "invalid indexing of 0-dim memory")
            if not isinstance(k, slice):
                raise AnalysisError(f"B1e: item access {k!r} on {tag}")
            lo, hi = P(k.start if k.start is not None else 0), P(k.stop)
            if getattr(d, "items", None) is not None and d.items != d.nbytes:
                # typed memory: the slice counts ITEMS; [0 : n] with n >= items is the whole
                if lo != Poly.const(0):
                    raise AnalysisError("B1e: typed memory sliced from a non-zero item")
                r_ = self.data(f"{tag}[:]", d.nbytes, length=d.items, origin=origin or d, layout=layout, view=True)
                return r_
            return self.data(f"{tag}[{lo!r}:{hi!r}]", hi - lo, origin=(origin or d, lo), view=True)

        d.attrs["__getitem__"] = Builtin("getitem", getitem)
        d.attrs["cast"] = Builtin("cast", lambda fmt, *a: self.data(f"{tag}.cast({fmt})", nbytes, origin=origin or d, view=True))
        return d

    def storage(self, tag, kind):
        I = self.I
        s = Obj("storage", {}, name=tag)
        s.kind = kind

        def getitem(k):
            if not isinstance(k, slice):
                raise AnalysisError(f"B1e: item access {k!r} on the storage")
            lo, hi = P(k.start if k.start is not None else 0), (P(k.stop) if k.stop is not None else Poly.atom("capacity"))
            self.log.append(("read", s, lo, hi))
            r_ = self.data(f"{tag}[{lo!r}:{hi!r}]", hi - lo, origin=(getattr(s, "base", s), lo), view=(kind == "ndarray"))
            r_.pykind = "ndarray" if (kind == "ndarray" and getattr(s, "pykind", None) != "memoryview") else "buffer"
            return r_

        def setitem(k, v):
            if not isinstance(k, slice):
                raise AnalysisError(f"B1e: item store {k!r} on the storage")
            lo, hi = P(k.start if k.start is not None else 0), P(k.stop)
            nb = getattr(v, "nbytes", None)
            if nb is None:
                raise AnalysisError(f"B1e: store of {v!r}")
            if kind == "ndarray" and nb != hi - lo:
                raise PyExc("ValueError", f"could not broadcast input array of {nb!r} bytes into {hi - lo!r}")
            if kind == "bytearray" and getattr(v, "pykind", "buffer") == "ndarray":
                raise PyExc("TypeError", "can assign only bytes, buffers, or iterables of ints in range(0, 256)")
            self.log.append(("store", s, lo, hi, v, nb != hi - lo))

        s.attrs["__getitem__"] = Builtin("storage[]", getitem)
        s.attrs["__setitem__"] = Builtin("storage[]=", setitem)
        s.attrs["__len__"] = Builtin("len", lambda: Sym(Poly.atom("capacity")))
        return s

    def frombuffer(self, b, *a, **k):
        vals = dict(zip(("dtype", "count", "offset"), a))
        vals.update(k)
        self.log.append(("frombuffer", b, vals.get("dtype"), vals.get("count", -1), vals.get("offset", 0)))
        v = Obj("ndview", {}, name="frombuffer")
        v.attrs["reshape"] = Builtin("reshape", lambda *s, **kk: (self.log.append(("reshape", s)), v)[1])
        # the address of the first byte viewed (symbolic): address(storage) + offset
        off = vals.get("offset", 0)
        v.attrs["ctypes"] = Obj("ctypes", {"data": Sym(Poly.atom(f"address({getattr(b, 'name', b)})") + P(off))}, name="ctypes")
        return v

    def ndarray(self, tag, items, dtype, layout, ndim=None):
        """abstract numpy array: `items` elements of `dtype`, memory layout C / F / strided; ndim 0 = a 0-d array"""
        I = self.I
        nb = items * Poly.const(I.getattr(dtype, "itemsize"))
        ndim = ndim if ndim is not None else (1 if layout == "C" else 2)
        a = Obj("ndarray", {"dtype": dtype, "nbytes": Sym(nb), "size": Sym(items), "ndim": ndim}, name=tag)
        a.nbytes, a.layout, a.items, a.origin, a.is_view = nb, layout, items, None, False
        a.attrs["reshape"] = Builtin("reshape", lambda *s_, **k_: self._reshaped(a, tag, items, dtype, layout))

        def astype(*x, **k):
            dt = x[0] if x else k.get("dtype")
            self.log.append(("astype", a, dt))
            r = self.ndarray(f"{tag}.astype({I.getattr(dt, 'name')})", items, dt, layout, ndim)
            r.origin = ("converted", a, dt)
            return r

        def view(dt):
            if layout != "C":
                raise PyExc("ValueError", "To change to a dtype of a different size, the last axis must be contiguous")
            r = self.data(f"{tag}.view({dt})", nb, length=nb, origin=a, view=True)
            return r

        def flatten(*x, **k):
            # the elements in INDEX order (order 'C', the default), or in the order they lie in memory ('K' / 'A': the
            # same thing for a C-contiguous array only), or in Fortran order
            order = x[0] if x else k.get("order", "C")
            if order not in ("C", "K", "A", "F"):
                raise AnalysisError(f"B1e: flatten/ravel(order={order!r})")
            r = self.ndarray(f"{tag}.flatten({'' if order == 'C' else order})", items, dtype, "C")
            # ('K' keeps the axes in the order of decreasing stride: index order unless the array is Fortran-like)
            in_index_order = order == "C" or (order in ("K", "A") and layout != "F") or (ndim <= 1 and layout == "C")
            r.origin = ("flat", a) if in_index_order else ("memorder", a, order)
            return r

        a.attrs["astype"] = Builtin("astype", astype)
        a.attrs["view"] = Builtin("view", view)
        a.attrs["flatten"] = Builtin("flatten", flatten)
        a.attrs["ravel"] = Builtin("ravel", flatten)
        a.attrs["tobytes"] = Builtin("tobytes", lambda *x, **k: self.data(f"{tag}.tobytes()", nb, origin=a))
        a.attrs["copy"] = Builtin("copy", lambda *x, **k: a)
        # .data: typed memoryview (len counts the items of the first axis; slicing is by item)
        mv = self.data(f"{tag}.data", nb, length=items, origin=a, layout=layout, view=True)

        def mv_get(k):
            if ndim == 0:
                raise PyExc("TypeError", "invalid indexing of 0-dim memory")
            # item-wise slice of a typed memoryview: [0 : n] with n >= items gives the whole
            lo, hi = P(k.start if k.start is not None else 0), P(k.stop)
            if lo != Poly.const(0):
                raise AnalysisError("B1e: typed memoryview sliced from a non-zero item")
            return self.data(f"{tag}.data[:]", nb, length=items, origin=a, layout=layout, view=True)

        mv.attrs["__getitem__"] = Builtin("mv[]", mv_get)
        mv.zero_dim = ndim == 0
        a.attrs["data"] = mv
        return a

    def _reshaped(self, a, tag, items, dtype, layout):
        r = self.ndarray(f"{tag}.reshape", items, dtype, "C" if layout == "C" else layout, 1)
        r.origin = ("flat", a)
        return r

    def noattr(self, d, name):
        d.attrs.pop(name, None)
        return d

    def dtype(self, name, itemsize, byteorder="="):
        return Obj("dtype", {"name": name, "itemsize": itemsize, "byteorder": byteorder}, name=f"dtype({name}{'' if byteorder == '=' else ', big-endian'})")

    @staticmethod
    def can_cast(frm, to, casting="safe"):
        """numpy's rule for the dtypes of this model: 'no' = identical incl. byte order; 'equiv' = byte order may differ;
        'safe' / 'same_kind' additionally allow widening (same_kind: also narrowing within floats)"""
        fa, ta = getattr(frm, "attrs", None), getattr(to, "attrs", None)
        if not (isinstance(fa, dict) and isinstance(ta, dict) and "itemsize" in fa and "itemsize" in ta):
            raise AnalysisError(f"B1e: np.can_cast({frm!r}, {to!r})")
        same = fa["name"] == ta["name"]
        if casting == "no":
            return same and fa.get("byteorder", "=") == ta.get("byteorder", "=")
        if casting == "equiv":
            return same
        if casting == "safe":
            return same or fa["itemsize"] < ta["itemsize"]
        if casting in ("same_kind", "unsafe"):
            return True
        raise AnalysisError(f"B1e: np.can_cast casting={casting!r}")

    def run(self, meth, args, kwargs=None):
        I = self.I
        self.log.clear()
        res = I.explore(lambda: I.call(I.getattr(self.buf, meth), list(args), dict(kwargs or {})), max_paths=8)
        return res


def _element_order_lost(v):
    """the step of the origin chain of abstract data at which the elements stop being in index order (None: never)"""
    seen = 0
    while seen < 12:
        seen += 1
        o = getattr(v, "origin", None)
        if o is None:
            return None
        if isinstance(o, tuple) and o and o[0] == "memorder":
            return f"{o[1].name}.ravel/flatten(order='{o[2]}') of a {o[1].layout}-layout array lists the elements in memory order, not in index order"
        v = o[1] if isinstance(o, tuple) and o and o[0] in ("converted", "flat") else o[0] if isinstance(o, tuple) else o
    return None


def _root(v):
    """(root object, byte offset inside it or None, converted?) of abstract data"""
    conv = False
    off = Poly.const(0)
    seen = 0
    while seen < 12:
        seen += 1
        o = getattr(v, "origin", None)
        if o is None:
            return v, off, conv
        if isinstance(o, tuple) and o and o[0] == "converted":
            conv = o[2]
            v = o[1]
        elif isinstance(o, tuple) and o and o[0] in ("flat", "memorder"):
            v = o[1]
        elif isinstance(o, tuple):
            v, off = o[0], off + o[1]
        else:
            v = o
    return v, off, conv


@rule("B1e", ["C13", "C04", "C09", "C01", "C05", "C10"], "CPU buffer copy primitives, evaluated on an abstract storage for every kind of source: exact extents, no resize, copies vs views")
def b1e(cx):
    m = cx.m
    OFF, SOFF, DOFF, NB = (Sym(Poly.atom(x)) for x in ("offset", "source_offset", "dest_offset", "nbytes"))
    pO, pS, pD, pN = (P(x) for x in (OFF, SOFF, DOFF, NB))
    n = 0
    # C05 (the documented layout) rests on ONE of the primitives: the bulk store of number data lists the value's
    # elements in index order (Array._to_buffer hands the value over already permuted to the class's memory order)
    only_nplike = cx.prop in ("C05", "C10")  # (C10: a whole array assigned from a numpy value goes through the same bulk store)
    if only_nplike:
        cx.partial = True
    for clsname in ("BufferByteArray", "BufferNumpy"):
        for meth in ("update_from_native", "to_native", "copy_to_native", "update_from_buffer", "to_nplike", "update_from_nplike", "to_bytearray"):
            m.func(f"context_cpu::{clsname}.{meth}")
        anchor = f"context_cpu::{clsname}"

        def stores(lab):
            return [e for e in lab.log if e[0] == "store"]

        def one_path(res, what, lab):
            cx.recog(len(res) == 1, None, f"{clsname}.{what}: {len(res)} evaluation paths")
            return res[0]

        if not only_nplike:
            # ---- update_from_buffer, every kind of bytes-like source
            N, K = Poly.atom("n"), Poly.atom("k")
            for label, mk in (("bytes / bytearray of n bytes", lambda L: L.data("src", N)),
                              ("typed memoryview (numpy array.data) of k float64 items", lambda L: L.data("src", K * Poly.const(8), length=K)),
                              ("typed memoryview of k int16 items", lambda L: L.data("src", K * Poly.const(2), length=K)),
                              ("memoryview of n bytes (itemsize 1)", lambda L: L.data("src", N, length=N)),
                              ("buffer object of k float64 items WITHOUT an nbytes attribute (array.array, ctypes array)", lambda L: L.noattr(L.data("src", K * Poly.const(8), length=K), "nbytes"))):
                L = Lab(m, clsname)
                src = mk(L)
                r = one_path(L.run("update_from_buffer", [OFF, src]), "update_from_buffer", L)
                st = stores(L)
                n += 1
                why = ""
                if r["exc"] is not None:
                    why = f"raises {r['exc'].etype}: {r['exc']}"
                elif len(st) != 1 or st[0][1] is not L.buf.attrs["buffer"]:
                    why = f"{len(st)} stores to the storage"
                else:
                    _, s_, lo, hi, v, resized = st[0]
                    root, roff, conv = _root(v)
                    if lo != pO or hi - lo != src.nbytes:
                        why = f"writes [{lo!r}, {hi!r}) for a source of {src.nbytes!r} bytes"
                    elif resized:
                        why = f"stores {v.nbytes!r} bytes into a slice of {hi - lo!r}: the bytearray is resized and every following byte moves"
                    elif root is not src or roff != Poly.const(0) or v.nbytes != src.nbytes:
                        why = "the stored data is not the whole source"
                cx.check(not why, None, construct=f"{clsname}.update_from_buffer(offset, <{label}>)", detail="exactly the source's bytes at [offset, offset + nbytes)", bad_detail=why, anchor=anchor + ".update_from_buffer", sub="update_from_buffer")

            # ---- update_from_native / copy_to_native
            L = Lab(m, clsname)
            other = L.storage("source", L.kind)
            r = one_path(L.run("update_from_native", [OFF, other, SOFF, NB]), "update_from_native", L)
            st = stores(L)
            n += 1
            ok = r["exc"] is None and len(st) == 1 and st[0][1] is L.buf.attrs["buffer"] and st[0][2] == pO and st[0][3] == pO + pN and not st[0][5]
            if ok:
                root, roff, conv = _root(st[0][4])
                ok = root is other and roff == pS and st[0][4].nbytes == pN
            cx.check(ok, None, construct=f"{clsname}.update_from_native(offset, source, source_offset, nbytes)", detail="storage[offset : offset+nbytes] = source[source_offset : source_offset+nbytes]",
                     bad_detail=f"not the nbytes bytes at source_offset of the source stored at offset: {[(e[0], repr(e[2]), repr(e[3])) for e in L.log]}" + (f" raises {r['exc'].etype}" if r["exc"] else ""), anchor=anchor + ".update_from_native", sub="update_from_native")
            # the source's native storage may be of the OTHER kind (update_from_xbuffer between a BufferNumpy and a
            # BufferByteArray of one context hands it over as it is)
            L = Lab(m, clsname)
            okind = "ndarray" if L.kind == "bytearray" else "bytearray"
            other = L.storage("source", okind)
            r = one_path(L.run("update_from_native", [OFF, other, SOFF, NB]), "update_from_native", L)
            st = stores(L)
            n += 1
            ok = r["exc"] is None and len(st) == 1 and st[0][1] is L.buf.attrs["buffer"] and st[0][2] == pO and st[0][3] == pO + pN and not st[0][5]
            if ok:
                root, roff, conv = _root(st[0][4])
                ok = root is other and roff == pS and st[0][4].nbytes == pN
            cx.check(ok, None, construct=f"{clsname}.update_from_native(offset, <native storage of a {'BufferNumpy' if okind == 'ndarray' else 'BufferByteArray'}>, source_offset, nbytes)", detail="the nbytes bytes at source_offset of the other buffer's storage stored at offset",
                     bad_detail=(f"raises {r['exc'].etype}: {r['exc'].msg} -- every copy from such a buffer of the same context fails" if r["exc"] else "not the requested bytes"), anchor=anchor + ".update_from_native", sub="update_from_native")
            L = Lab(m, clsname)
            dest = L.storage("dest", L.kind)
            r = one_path(L.run("copy_to_native", [dest, DOFF, SOFF, NB]), "copy_to_native", L)
            st = stores(L)
            n += 1
            ok = r["exc"] is None and len(st) == 1 and st[0][1] is dest and st[0][2] == pD and st[0][3] == pD + pN and not st[0][5]
            if ok:
                root, roff, conv = _root(st[0][4])
                ok = root is L.buf.attrs["buffer"] and roff == pS and st[0][4].nbytes == pN
            cx.check(ok, None, construct=f"{clsname}.copy_to_native(dest, dest_offset, source_offset, nbytes)", detail="dest[dest_offset : +nbytes] = storage[source_offset : +nbytes]",
                     bad_detail=f"not the nbytes bytes at source_offset stored at dest_offset of dest: {[(e[0], repr(e[2]), repr(e[3])) for e in L.log]}", anchor=anchor + ".copy_to_native", sub="copy_to_native")

            # ---- extracting primitives: a COPY of [offset, offset+nbytes)
            for meth in ("to_native", "to_bytearray"):
                L = Lab(m, clsname)
                r = one_path(L.run(meth, [OFF, NB]), meth, L)
                v = r["result"]
                n += 1
                why = ""
                if r["exc"] is not None:
                    why = f"raises {r['exc'].etype}"
                elif not isinstance(v, Obj) or getattr(v, "nbytes", None) is None:
                    why = f"returns {v!r}"
                else:
                    root, roff, conv = _root(v)
                    if root is not L.buf.attrs["buffer"] or roff != pO or v.nbytes != pN:
                        why = f"returns {v.nbytes!r} bytes from {roff!r}, requested nbytes from offset"
                    elif v.is_view:
                        why = "returns a VIEW of the storage (a later write to the buffer changes the extracted data, and vice versa); an extracted copy must be independent"
                cx.check(not why, None, construct=f"{clsname}.{meth}(offset, nbytes)", detail="independent copy of [offset, offset+nbytes)", bad_detail=why, anchor=anchor + "." + meth, sub=meth)

            # ---- to_nplike: a typed VIEW of the storage at offset
            L = Lab(m, clsname)
            dt = L.dtype("float64", 8)
            r = one_path(L.run("to_nplike", [OFF, dt, (Sym(Poly.atom("d0")), 3)]), "to_nplike", L)
            fb = [e for e in L.log if e[0] == "frombuffer"]
            n += 1
            ok = r["exc"] is None and len(fb) == 1 and fb[0][1] is L.buf.attrs["buffer"] and fb[0][2] is dt and P(fb[0][4]) == pO and P(fb[0][3]) == Poly.atom("d0") * Poly.const(3)
            cx.check(ok, None, construct=f"{clsname}.to_nplike(offset, dtype, shape)", detail="frombuffer(storage, dtype, count=prod(shape), offset=offset): aliases the bytes it covers",
                     bad_detail=f"not a view of prod(shape) items of dtype at offset: {[(e[0],) + tuple(repr(x) for x in e[2:]) for e in fb]}", anchor=anchor + ".to_nplike", sub="to_nplike")

        # ---- update_from_nplike: layouts x conversion
        for layout in ("C", "F", "last axis strided", "0-d"):
            for convert in (False, True, "byteorder"):
                if convert == "byteorder" and layout != "C":
                    continue
                L = Lab(m, clsname)
                f8, f4 = L.dtype("float64", 8), L.dtype("float32", 4)
                ITEMS = Poly.atom("items") if layout != "0-d" else Poly.const(1)
                # (third mode: the value's dtype is float64 in the OTHER byte order -- another dtype than the destination's,
                # it must be converted like any other: seeded C13-f called such dtypes "equivalent")
                src_dt = L.dtype("float64", 8, ">") if convert == "byteorder" else f8
                val = L.ndarray("value", ITEMS, src_dt, "C" if layout == "0-d" else layout, 0 if layout == "0-d" else None)
                dest = f4 if convert is True else f8
                r = one_path(L.run("update_from_nplike", [OFF, dest, val]), "update_from_nplike", L)
                st = stores(L)
                n += 1
                want_nb = ITEMS * Poly.const(4 if convert is True else 8)
                why = ""
                if r["exc"] is not None:
                    why = f"raises {r['exc'].etype}: {r['exc']}"
                elif len(st) != 1 or st[0][1] is not L.buf.attrs["buffer"]:
                    why = f"{len(st)} stores to the storage"
                else:
                    _, s_, lo, hi, v, resized = st[0]
                    root, roff, conv = _root(v)
                    if lo != pO or hi - lo != want_nb:
                        why = f"writes [{lo!r}, {hi!r}), the converted value has {want_nb!r} bytes"
                    elif resized or v.nbytes != want_nb:
                        why = f"stores {v.nbytes!r} bytes into a slice of {hi - lo!r}"
                    elif root is not val or roff != Poly.const(0):
                        why = "the stored data is not the whole value"
                    elif bool(conv) != bool(convert) or (convert and conv is not dest):
                        why = ("dtype conversion missing / not to the destination dtype" + (" (the value's bytes are in the other byte order: stored as they are they read as other numbers)" if convert == "byteorder" else "")) if convert else "converted although the dtypes agree"
                    elif _element_order_lost(v):
                        why = "the bytes stored are not the value's elements in index (row-major) order: " + _element_order_lost(v)
                cx.check(not why, None, construct=f"{clsname}.update_from_nplike(offset, {'float32' if convert is True else 'float64'}, <{'big-endian ' if convert == 'byteorder' else ''}float64 array, {layout} layout>)", detail="the value's bytes (converted first when the dtypes differ) at [offset, offset + nbytes)",
                         bad_detail=why, anchor=anchor + ".update_from_nplike", sub="update_from_nplike")
    cx.need(n >= (16 if only_nplike else 30), f"only {n} primitive cases evaluated")


# ------------------------------------------------------------------------------------------ K1e kernel argument conversion
def _gap(cx, fn, exc, what):
    """an AttributeError / NameError raised on one of the rule's OWN stand-in objects (the kernel, the buffer, the
    argument description, a library namespace) is a gap of the model -- the real object may well have the attribute --
    never a verdict"""
    if exc is not None and exc.etype in ("AttributeError", "NameError") and re.search(r"<instance (KernelCpu|xbuffer|arg\w*|ctx|description)>|Namespace object|<cpu-context", str(exc.msg)):
        cx.recog(False, fn, f"{what}: the evaluation needs `{str(exc.msg)[:120]}`, which the model of this rule does not provide")


@rule("K1e", ["C17", "C02", "C07"], "KernelCpu.to_function_arg, evaluated with a recording ffi: numpy arrays and xobject arrays reach the kernel as a pointer to their first element IN PLACE (no temporary copy), typed from their own element type; compounds as storage address + offset; wrong byte order refused")
def k1e(cx):
    """`to_function_arg` of the current source is run for every kind of argument against a recording `ffi_interface`
    (`cast(type, x)` and `from_buffer(x)` record what they are given).  The abstract values carry what the property is
    about: where their bytes come from and whether an expression over them is a VIEW or a COPY (a slice of a bytearray
    copies, a slice of an ndarray or of a memoryview does not; indexing a 0-d ndarray with () gives a scalar copy)."""
    m = cx.m
    fn = m.func("context_cpu::KernelCpu.to_function_arg")
    n = 0

    def world(kind):
        L = Lab(m, "BufferByteArray" if kind == "bytearray" else "BufferNumpy")
        I = L.I
        K = I.global_lookup("context_cpu", "KernelCpu")
        CCpu = I.global_lookup("context_cpu", "ContextCpu")
        rec = []

        def cast(ty, x):
            rec.append(("cast", ty, x))
            return ("pointer", ty, x)

        def from_buffer(x, *a, **k):
            if isinstance(x, str) and a:  # typed form: from_buffer("T[]", obj) is a T* to the object's memory
                rec.append(("from_buffer", a[0]))
                ty = x[:-2] + "*" if x.endswith("[]") else x
                return ("pointer", ty, ("address-of", a[0]))
            rec.append(("from_buffer", x))
            return ("address-of", x)

        ffi = Obj("instance", {"cast": Builtin("ffi.cast", cast), "from_buffer": Builtin("ffi.from_buffer", from_buffer)}, name="ffi")
        desc = Obj("instance", {"pyname": "k"}, name="description")
        me = Obj("instance", {"ffi_interface": ffi, "description": desc}, cls=K)
        # memoryview(x): a view of x that can be sliced without copying
        def mview(x):
            if isinstance(x, Obj) and x.kind in ("ndarray", "bytearray") and "__setitem__" in x.attrs:
                v = L.storage(f"memoryview({x.name})", "ndarray")  # slicing a memoryview never copies
                v.base = x
                return v
            if isinstance(x, Obj) and getattr(x, "nbytes", None) is not None:
                return x
            raise AnalysisError(f"K1e: memoryview of {x!r}")

        I.builtins["memoryview"] = Builtin("memoryview", mview)
        I.builtins["isinstance"] = Builtin("isinstance", lambda v, c: True if (isinstance(v, Obj) and v.kind == "cpu-context" and c is CCpu) else I._isinstance(v, c))
        return L, I, me, rec

    DT = {"float64": ("double", 8), "int32": ("int32_t", 4), "bool": (None, 1), "complex128": (None, 16), "float16": (None, 2)}
    STR = {"float64": "f8", "int32": "i4", "bool": "b1", "complex128": "c16", "float16": "f2"}
    # ---- numpy arrays  (the last three element types have no C counterpart in the documented table: they must be
    # refused, not handed over as raw memory -- seeded C17-f; `dtype2ctype` and its table are the CURRENT source's)
    for shape_kind, native, arrdt in [(sk, nat, "float64") for sk in ("1-d", "2-d", "0-d") for nat in (True, False)] + [("1-d", True, "int32")] + [("1-d", True, f_) for f_ in ("bool", "complex128", "float16")]:
        if True:
            L, I, me, rec = world("ndarray")
            nd = {"1-d": 1, "2-d": 2, "0-d": 0}[shape_kind]
            dt = Obj("dtype", {"name": arrdt, "itemsize": DT[arrdt][1], "isnative": native, "str": ("<" if native else ">") + STR[arrdt], "byteorder": "=" if native else ">"}, name="dtype")

            def mkarr(tag, ndim, origin=None, is_view=False, scalar=False):
                a = Obj("ndarray", {"dtype": dt, "ndim": ndim}, name=tag)
                a.origin, a.is_view, a.scalar = origin, is_view, scalar
                a.attrs["data"] = Obj("data", {}, name=f"{tag}.data")
                a.attrs["data"].owner = a

                def getitem(k):
                    ks = k if isinstance(k, tuple) else (k,)
                    if ndim == 0:
                        if ks == ():
                            return mkarr(f"{tag}[()]", 0, origin=a, is_view=False, scalar=True)  # numpy scalar: a COPY
                        raise PyExc("IndexError", "too many indices for array")
                    if len(ks) != ndim or not all(isinstance(x, slice) and x.start == 0 and x.stop == 1 for x in ks):
                        raise AnalysisError(f"K1e: array indexed with {k!r}")
                    return mkarr(f"{tag}[first element]", ndim, origin=a, is_view=True)

                a.attrs["__getitem__"] = Builtin("ndarray[]", getitem)
                a.attrs["reshape"] = Builtin("reshape", lambda *s, **kk: mkarr(f"{tag}.reshape", 1, origin=a, is_view=True))
                a.attrs["ctypes"] = Obj("ctypes", {"data": ("address-of-first-element", a)}, name="ctypes")
                return a

            arr = mkarr("value", nd)
            # np.ascontiguousarray / np.array(...) MAY copy (the caller's array may be a strided slice): a copy
            I.np = Namespace("np", dict(I.np.table, ascontiguousarray=Builtin("np.ascontiguousarray", lambda a, *r, **k: mkarr(f"ascontiguousarray({a.name})", max(a.attrs["ndim"], 1), origin=a, is_view=False)),
                                        array=Builtin("np.array", lambda a, *r, **k: mkarr(f"np.array({a.name})", a.attrs["ndim"], origin=a, is_view=False)),
                                        asarray=Builtin("np.asarray", lambda a, *r, **k: a)))
            arg = Obj("instance", {"pointer": True, "atype": Obj("scalar", {"_dtype": dt, "_c_type": "double"}, name="Float64"), "name": "p"}, name="arg")
            res = I.explore(lambda: I.call(I.getattr(me, "to_function_arg"), [arg, arr], {}), max_paths=8)
            cx.recog(len(res) == 1, fn, f"to_function_arg(numpy {shape_kind}): {len(res)} paths")
            r = res[0]
            n += 1
            label = f"double* argument <- {shape_kind} numpy {arrdt} array, {'native' if native else 'NON-native'} byte order"
            if DT[arrdt][0] is None:
                cx.check(r["exc"] is not None, None, construct=f"double* argument <- 1-d numpy {arrdt} array", detail="refused: the element type has no entry in the dtype -> C type table",
                         bad_detail=f"accepted as {r['result'][1] if r['exc'] is None and isinstance(r['result'], tuple) else r['result'] if r['exc'] is None else ''}: the kernel reads {arrdt} elements as doubles", anchor="context_cpu::dtype2ctype", sub="ndarray.foreign")
                continue
            want_ty = DT[arrdt][0] + "*"
            if not native:
                cx.check(r["exc"] is not None, None, construct=label, detail="refused (the element type the kernel declares is the native one)",
                         bad_detail="accepted: dtype.name ignores the byte order, the kernel reads byte-swapped garbage", anchor="context_cpu::KernelCpu.to_function_arg", sub="ndarray.byteorder")
                continue
            why = ""
            if r["exc"] is not None:
                _gap(cx, fn, r["exc"], "to_function_arg")
                why = f"raises {r['exc'].etype}: {r['exc'].msg}"
            else:
                out = r["result"]
                ok_shape = isinstance(out, tuple) and out[0] == "pointer"
                if not ok_shape or out[1] != want_ty:
                    why = f"pointer type {out[1] if ok_shape else out!r}, expected {want_ty} (from the array's OWN dtype, so that cffi refuses an array of another element type than the declared one)"
                else:
                    src = out[2]
                    base = None
                    if isinstance(src, tuple) and src[0] == "address-of":
                        d_ = src[1]
                        base = getattr(d_, "owner", None) or (d_ if isinstance(d_, Obj) and d_.kind == "ndarray" else None)
                    elif isinstance(src, tuple) and src[0] == "address-of-first-element":
                        base = src[1]
                    chain, copied = base, False
                    k_ = 0
                    while chain is not None and chain is not arr and k_ < 6:
                        copied = copied or not chain.is_view
                        chain, k_ = chain.origin, k_ + 1
                    if chain is not arr:
                        why = "the pointer is not derived from the caller's array"
                    elif copied:
                        why = "the pointer is taken from a COPY of the array's first element (a numpy scalar / temporary): what the kernel writes is lost, what it reads may be released memory"
            cx.check(not why, None, construct=label, detail=f"pointer to the first element of the caller's array, in place, typed {want_ty} from the array's own dtype", bad_detail=why, anchor="context_cpu::KernelCpu.to_function_arg", sub="ndarray.ptr")
    # ---- xobject arrays in both storage kinds
    OFFV, DOFF = Sym(Poly.atom("value._offset")), Sym(Poly.atom("value._data_offset"))
    for kind in ("ndarray", "bytearray"):
        L, I, me, rec = world(kind)
        st = L.buf.attrs["buffer"]
        ctx = Obj("cpu-context", {}, name="ctx")
        xbuf = L.buf  # an instance of the CURRENT buffer class on the abstract storage: its primitives are evaluated too
        xbuf.attrs["context"] = ctx
        item = Obj("scalar", {"_c_type": "double", "_dtype": Obj("dtype", {"name": "float64"}, name="dt")}, name="Float64")
        val = Obj("xoarray", {"_buffer": xbuf, "_offset": OFFV, "_data_offset": DOFF, "_itemtype": item, "_shape": (3,), "_c_type": "Arr3Float64", "_size": fromp(P(DOFF) + Poly.const(24)), "_get_size": Builtin("_get_size", lambda: fromp(P(DOFF) + Poly.const(24)))}, name="value")
        arg = I.call(I.global_lookup("context", "Arg"), [item], {"pointer": True, "name": "p"})
        res = I.explore(lambda: I.call(I.getattr(me, "to_function_arg"), [arg, val], {}), max_paths=8)
        cx.recog(len(res) == 1, fn, f"to_function_arg(xobject array in a {kind} buffer): {len(res)} paths")
        r = res[0]
        n += 1
        why = ""
        if r["exc"] is not None:
            _gap(cx, fn, r["exc"], "to_function_arg")
            why = f"raises {r['exc'].etype}: {r['exc'].msg}"
        else:
            out = r["result"]
            if not (isinstance(out, tuple) and out[0] == "pointer" and out[1] == "double*"):
                why = f"pointer type {out[1] if isinstance(out, tuple) else out!r}, expected double* (the item type)"
            else:
                src = out[2]
                d_ = src[1] if isinstance(src, tuple) and src[0] == "address-of" else None
                if d_ is None or getattr(d_, "origin", None) is None:
                    why = "the pointer is not taken from the buffer's storage"
                else:
                    root, roff = d_.origin
                    root = getattr(root, "base", root)
                    if root is not st or roff != P(OFFV) + P(DOFF):
                        why = f"the pointer starts at {roff!r} of {getattr(root, 'name', root)}, expected value._offset + value._data_offset of the current storage"
                    elif not d_.is_view:
                        why = f"slicing a {kind} copies: the kernel gets a pointer into a temporary copy of the buffer's tail (writes are lost, reads may see released memory)"
        cx.check(not why, None, construct=f"pointer argument <- xobject Float64[3] living in a {'BufferByteArray' if kind == 'bytearray' else 'BufferNumpy'}", detail="pointer to the array's first element inside the buffer's current storage, typed from the item type",
                 bad_detail=why, anchor="context_cpu::KernelCpu.to_function_arg", sub="xoarray.ptr")
        # an xobject array of ANOTHER element type than the declared one: refused, or typed from the array's own item
        # type (cffi then refuses it) -- never passed as the declared type (seeded C17-c)
        item32 = Obj("scalar", {"_c_type": "int32_t", "_dtype": Obj("dtype", {"name": "int32"}, name="dt32")}, name="Int32")
        val32 = Obj("xoarray", {"_buffer": xbuf, "_offset": OFFV, "_data_offset": DOFF, "_itemtype": item32, "_shape": (3,), "_c_type": "Arr3Int32", "_size": fromp(P(DOFF) + Poly.const(12)), "_get_size": Builtin("_get_size", lambda: fromp(P(DOFF) + Poly.const(12)))}, name="value32")
        res = I.explore(lambda: I.call(I.getattr(me, "to_function_arg"), [arg, val32], {}), max_paths=8)
        cx.recog(len(res) == 1, fn, f"to_function_arg(xobject Int32 array for double*): {len(res)} paths")
        r = res[0]
        n += 1
        _gap(cx, fn, r["exc"], "to_function_arg")
        typed = r["result"][1] if r["exc"] is None and isinstance(r["result"], tuple) and len(r["result"]) > 1 else None
        cx.check(r["exc"] is not None or typed == "int32_t*", None, construct=f"double* argument <- xobject Int32[3] ({'BufferByteArray' if kind == 'bytearray' else 'BufferNumpy'})", detail="refused, or typed int32_t* from the array's own item type (so that cffi refuses it)",
                 bad_detail=f"handed to the kernel as {typed}: Int32 elements are read as doubles", anchor="context_cpu::KernelCpu.to_function_arg", sub="xoarray.type")
    # ---- compound xobjects: storage address + current offset, typed as the declared class; scalars by value
    for kind in ("ndarray", "bytearray"):
        L, I, me, rec = world(kind)
        st = L.buf.attrs["buffer"]
        ctx = Obj("cpu-context", {}, name="ctx")
        xbuf = L.buf
        xbuf.attrs["context"] = ctx
        atype = Obj("xoclass", {"_c_type": "MyStruct", "_size": 24}, name="MyStruct")
        val = Obj("xostruct", {"_buffer": xbuf, "_offset": OFFV}, name="value")
        arg = I.call(I.global_lookup("context", "Arg"), [atype], {"pointer": False, "name": "obj"})
        st2 = L.storage("storage after growth", kind)

        def twice():
            first = I.call(I.getattr(me, "to_function_arg"), [arg, val], {})
            xbuf.attrs["buffer"] = st2  # the buffer grew: its storage was replaced
            second = I.call(I.getattr(me, "to_function_arg"), [arg, val], {})
            return first, second

        res = I.explore(twice, max_paths=8)
        cx.recog(len(res) == 1, fn, f"to_function_arg(compound in a {kind} buffer): {len(res)} paths")
        r = res[0]
        n += 1
        why = ""
        if r["exc"] is not None:
            _gap(cx, fn, r["exc"], "to_function_arg")
            why = f"raises {r['exc'].etype}: {r['exc'].msg}"
        else:
            out, again = r["result"]
            from ..peval import topoly as _tp0

            def where(ptr):
                """-> (storage, start offset, is a copy) of a pointer given as `address(storage) + offset` or as the
                address of a slice of the storage"""
                p_ = _tp0(ptr) if not isinstance(ptr, tuple) else None
                if p_ is not None:
                    for stx in (st, st2):
                        a_ = Poly.atom(f"address({stx.name})")
                        if (p_ - a_).atoms().isdisjoint({f"address({st.name})", f"address({st2.name})"}) and f"address({stx.name})" in {str(x) for x in p_.atoms()}:
                            return stx, p_ - a_, False
                    return None
                if isinstance(ptr, tuple) and ptr[0] == "address-of":
                    d_ = ptr[1]
                    org = getattr(d_, "origin", None)
                    if isinstance(org, tuple):
                        root, roff = org
                        return getattr(root, "base", root), roff, not getattr(d_, "is_view", False)
                return None

            w2 = where(again[2]) if isinstance(again, tuple) and len(again) > 2 else None
            w1 = where(out[2]) if isinstance(out, tuple) and len(out) > 2 else None
            if w2 is None or w2[0] is not st2 or w2[1] != P(OFFV):
                why = f"after the buffer grew (new storage) the pointer is {again[2] if isinstance(again, tuple) else again!r}: a remembered address of the OLD storage is used"
            elif not (isinstance(out, tuple) and out[0] == "pointer" and out[1] == "MyStruct"):
                why = f"typed {out[1] if isinstance(out, tuple) else out!r}, expected the declared class MyStruct"
            elif w1 is None or w1[0] is not st or w1[1] != P(OFFV):
                why = f"pointer is {out[2]!r}, expected address of the current storage + value._offset"
            elif w1[2] or w2[2]:
                why = f"the pointer addresses a COPY of the buffer's bytes (slicing a {kind} copies): what the kernel writes is lost"
        cx.check(not why, None, construct=f"by-value compound argument <- struct living in a {'BufferByteArray' if kind == 'bytearray' else 'BufferNumpy'}", detail="address of the buffer's current storage + the object's current offset, typed as the declared class",
                 bad_detail=why, anchor="context_cpu::KernelCpu.to_function_arg", sub="compound.ptr")
    L, I, me, rec = world("ndarray")
    conv = []
    sc = Obj("scalar", {"_dtype": Obj("dtype", {"name": "float64"}, name="dt"), "_c_type": "double"}, name="Float64")
    sc.attrs["__call__"] = Builtin("Float64()", lambda v=0: (conv.append(v), ("float64", v))[1])
    arg = I.call(I.global_lookup("context", "Arg"), [sc], {"pointer": False, "name": "s"})
    res = I.explore(lambda: I.call(I.getattr(me, "to_function_arg"), [arg, 0.5], {}), max_paths=4)
    n += 1
    cx.check(len(res) == 1 and res[0]["exc"] is None and res[0]["result"] == ("float64", 0.5) and conv == [0.5], None, construct="by-value scalar argument", detail="converted with the declared scalar type",
             bad_detail=f"by-value scalars are not converted with the declared type: {res[0]['result'] if res and res[0]['exc'] is None else res[0]['exc']}", anchor="context_cpu::KernelCpu.to_function_arg", sub="scalar")
    # a SEQUENCE of by-value scalars through one converter: every call delivers ITS value (values that are equal for
    # Python -- 0.0 and -0.0, 1 and 1.0 and True -- are different bit patterns / must be converted by the declared type
    # each time; a memo keyed by the value hands the first one out again -- seeded C17-g)
    L, I, me, rec = world("ndarray")
    sc64 = Obj("scalar", {"_dtype": Obj("dtype", {"name": "float64"}, name="dt"), "_c_type": "double"}, name="Float64")
    sc64.attrs["__call__"] = Builtin("Float64()", lambda v=0: ("float64", repr(float(v))))
    sci = Obj("scalar", {"_dtype": Obj("dtype", {"name": "int64"}, name="dti"), "_c_type": "int64_t"}, name="Int64")
    sci.attrs["__call__"] = Builtin("Int64()", lambda v=0: ("int64", repr(int(v))))
    a64 = I.call(I.global_lookup("context", "Arg"), [sc64], {"pointer": False, "name": "s"})
    ai = I.call(I.global_lookup("context", "Arg"), [sci], {"pointer": False, "name": "k"})
    seq = [(a64, 0.0), (a64, -0.0), (a64, 1), (ai, 1), (ai, True), (a64, 1.0), (a64, -0.0)]

    def calls():
        return [I.call(I.getattr(me, "to_function_arg"), [a_, v_], {}) for a_, v_ in seq]

    res = I.explore(calls, max_paths=4)
    cx.recog(len(res) == 1, fn, f"to_function_arg(sequence of scalars): {len(res)} paths")
    n += 1
    if res[0]["exc"] is not None:
        cx.recog(res[0]["exc"].etype not in ("AttributeError", "NameError"), fn, f"sequence of scalars: {res[0]['exc'].etype}: {res[0]['exc'].msg}")
        cx.bad(None, construct="sequence of by-value scalars", detail=f"raises {res[0]['exc'].etype}: {res[0]['exc'].msg}", anchor="context_cpu::KernelCpu.to_function_arg", sub="scalar.sequence")
    else:
        want = [("float64", repr(float(v_))) if a_ is a64 else ("int64", repr(int(v_))) for a_, v_ in seq]
        got = res[0]["result"]
        k_ = next((i for i, (g_, w_) in enumerate(zip(got, want)) if g_ != w_), None)
        cx.check(k_ is None, None, construct="by-value scalars 0.0, -0.0, 1 (double), 1 (int64), True (int64), 1.0, -0.0 through one converter", detail="every call delivers its own value, converted by the declared type",
                 bad_detail=(f"call {k_ + 1} was given {seq[k_][1]!r} for a {'double' if seq[k_][0] is a64 else 'int64_t'} argument and delivers {got[k_]!r} (expected {want[k_]!r}): an earlier call's result is handed out again for a value that merely compares equal" if k_ is not None else ""),
                 anchor="context_cpu::KernelCpu.to_function_arg", sub="scalar.sequence")
    cx.need(n >= 14, f"only {n} argument cases evaluated")
