"""P5 -- buffer objects do not keep two attributes that share native storage (C20).

Buffers are pickled by the default protocol: every attribute is serialised on its own.  Two references to the SAME
Python object survive that (pickle memoises objects), but a VIEW (a slice of an ndarray, a memoryview, np.frombuffer,
.view / .reshape / .cast ...) of memory that another attribute holds is written out as an independent copy: after
unpickling the two attributes no longer alias, and whatever the class does on the assumption that they do -- extend
the view over a reserve, read through one what was written through the other -- silently uses stale bytes
(seeded C20-h: `buffer = _storage[:capacity]`, a later growth inside the reserve re-slices the stale `_storage`).

Decided structurally over the buffer classes (XBuffer and every class named Buffer* of the context modules):

  origins   of an expression: attributes of self it may come from (`self.A`, `getattr(self, "A", d)`), fresh storage
            (`self._new_buffer(..)`, `bytearray(..)`, `np.zeros/empty/ones(..)`), through locals (flow-insensitive
            fixed point), conditional expressions, and calls of methods of the class (summary of what they RETURN,
            fixed point over the class and its package bases); each origin carries whether a view derivation lies on
            the way; copying calls (`bytes`, `.copy()`, `np.array`, `bytearray(x)`) cut the chain;
  stores    `self.B = e`; fresh storage stored into an attribute is from then on that attribute;
  report    `self.B = e` where e is a VIEW of what attribute A != B holds (directly, through locals, through a method
            that returns a view of what it stored in A).

The analysis is run on a built-in positive example on every run.
"""
import ast

from ..core import rule
from ..srcmodel import norm

VIEW_CALLS = {"memoryview", "frombuffer", "asarray", "view", "reshape", "cast", "ravel", "transpose", "squeeze", "asanyarray"}
FRESH_CALLS = {"_new_buffer", "bytearray", "zeros", "empty", "ones", "full", "zeros_like", "empty_like"}
COPY_CALLS = {"bytes", "copy", "array", "tobytes", "deepcopy", "ascontiguousarray", "tolist"}


def _self_attr(e):
    if isinstance(e, ast.Attribute) and isinstance(e.value, ast.Name) and e.value.id == "self":
        return e.attr
    if isinstance(e, ast.Call) and isinstance(e.func, ast.Name) and e.func.id == "getattr" and len(e.args) >= 2 and isinstance(e.args[0], ast.Name) and e.args[0].id == "self" and isinstance(e.args[1], ast.Constant):
        return e.args[1].value
    return None


class _Cls:
    def __init__(self, name, methods):
        self.name = name
        self.methods = methods  # name -> FunctionDef (own first, then bases)
        self.returns = {m: set() for m in methods}

    def origins(self, e, env):
        """set of (origin, viewed) ; origin = ('attr', A) | ('fresh', lineno)"""
        if e is None:
            return set()
        a = _self_attr(e)
        if a is not None:
            out = {(("attr", a), False)}
            if isinstance(e, ast.Call) and len(e.args) > 2:
                out |= self.origins(e.args[2], env)
            return out
        if isinstance(e, ast.Name):
            return set(env.get(e.id, ()))
        if isinstance(e, ast.Subscript):
            base = self.origins(e.value, env)
            if isinstance(e.slice, ast.Slice) or (isinstance(e.slice, ast.Tuple) and any(isinstance(x, ast.Slice) for x in e.slice.elts)):
                return {(o, True) for o, _ in base}
            return set()  # an item: a value, not storage
        if isinstance(e, ast.IfExp):
            return self.origins(e.body, env) | self.origins(e.orelse, env)
        if isinstance(e, ast.BoolOp):
            return set().union(*[self.origins(v, env) for v in e.values])
        if isinstance(e, ast.NamedExpr):
            return self.origins(e.value, env)
        if isinstance(e, ast.Call):
            fn = e.func
            nm = fn.id if isinstance(fn, ast.Name) else fn.attr if isinstance(fn, ast.Attribute) else None
            recv = fn.value if isinstance(fn, ast.Attribute) else None
            if nm in COPY_CALLS:
                return set()
            if nm == "bytearray" and e.args:
                return set()  # bytearray(x): a copy
            if nm in FRESH_CALLS:
                return {(("fresh", e.lineno), False)}
            if nm in VIEW_CALLS:
                src = recv if (recv is not None and not (isinstance(recv, ast.Name) and recv.id in ("np", "numpy"))) else (e.args[0] if e.args else None)
                return {(o, True) for o, _ in self.origins(src, env)}
            if recv is not None and isinstance(recv, ast.Name) and recv.id == "self" and nm in self.methods:
                return set(self.returns[nm])
            if recv is not None and isinstance(recv, ast.Call) and isinstance(recv.func, ast.Name) and recv.func.id == "super" and nm in self.methods:
                return set(self.returns[nm])
        return set()

    def analyse(self):
        """-> list of (method, node, B, A, how)"""
        found = []
        changed = True
        rounds = 0
        per_method = {}
        while changed and rounds < 10:
            changed = False
            rounds += 1
            for mname, fn in self.methods.items():
                env = {}
                stores = []
                ch2 = True
                while ch2:
                    ch2 = False
                    stores = []
                    for n in ast.walk(fn):
                        tgts, val = [], None
                        if isinstance(n, ast.Assign):
                            tgts, val = n.targets, n.value
                        elif isinstance(n, ast.AnnAssign) and n.value is not None:
                            tgts, val = [n.target], n.value
                        elif isinstance(n, ast.NamedExpr):
                            tgts, val = [n.target], n.value
                        for t in tgts:
                            o = self.origins(val, env)
                            if isinstance(t, ast.Name):
                                if not o <= env.get(t.id, set()):
                                    env[t.id] = env.get(t.id, set()) | o
                                    ch2 = True
                            elif _self_attr(t) is not None and isinstance(t, ast.Attribute):
                                stores.append((n, t.attr, o))
                # fresh storage stored (unviewed) into an attribute IS that attribute from then on
                alias = {}
                for n, attr, o in stores:
                    for org, viewed in o:
                        if org[0] == "fresh" and not viewed:
                            alias.setdefault(org, attr)

                def unify(o):
                    return {((("attr", alias[org]) if org in alias else org), v) for org, v in o}

                rets = set()
                for n in ast.walk(fn):
                    if isinstance(n, ast.Return) and n.value is not None:
                        rets |= unify(self.origins(n.value, env))
                if not rets <= self.returns[mname]:
                    self.returns[mname] |= rets
                    changed = True
                per_method[mname] = [(n, attr, unify(o)) for n, attr, o in stores]
        for mname, stores in per_method.items():
            for n, attr, o in stores:
                for org, viewed in sorted(o, key=repr):
                    if org[0] == "attr" and org[1] != attr and viewed:
                        found.append((mname, n, attr, org[1]))
        return found


def classes_of(trees, is_buffer):
    """{class name: _Cls} with the methods of package bases merged in (own definitions win)"""
    defs = {}
    modof = {}
    for mod, t in trees.items():
        for c in ast.walk(t):
            if isinstance(c, ast.ClassDef):
                defs[c.name] = c
                modof[c.name] = mod
    out = {}
    for name, c in defs.items():
        if not is_buffer(name):
            continue
        methods = {}
        seen = set()
        todo = [c]
        while todo:
            k = todo.pop(0)
            if k.name in seen:
                continue
            seen.add(k.name)
            for st in k.body:
                if isinstance(st, ast.FunctionDef) and st.name not in methods:
                    methods[st.name] = st
            for b in k.bases:
                bn = b.id if isinstance(b, ast.Name) else b.attr if isinstance(b, ast.Attribute) else None
                if bn in defs:
                    todo.append(defs[bn])
        out[name] = _Cls(name, methods)
        out[name].mod = modof[name]
    return out


POSITIVE = '''
class XBuffer:
    def grow(self, capacity):
        self.buffer = self._resized(self.capacity + capacity)
    def _resized(self, n):
        newbuff = self._new_buffer(n)
        return newbuff
class BufferGood(XBuffer):
    def _new_buffer(self, n):
        return bytearray(n)
class BufferReserve(XBuffer):
    def _resized(self, n):
        storage = getattr(self, "_storage", None)
        if storage is None:
            storage = self._new_buffer(2 * n)
            self._storage = storage
        return storage[:n]
class BufferWindow(XBuffer):
    def peek(self):
        self._bytes = memoryview(self.buffer)
class BufferCopy(XBuffer):
    def snap(self):
        self._last = bytes(self.buffer)
'''


@rule("P5", ["C20"], "buffer objects (pickled attribute by attribute) keep no attribute that is a VIEW of memory another attribute holds")
def p5(cx):
    m = cx.m
    is_buf = lambda n: n == "XBuffer" or n.startswith("Buffer")
    pos = classes_of({"x": ast.parse(POSITIVE)}, is_buf)
    got = sorted((c, b, a) for c, k in pos.items() for _m, _n, b, a in k.analyse())
    cx.need(got == [("BufferReserve", "buffer", "_storage"), ("BufferWindow", "_bytes", "buffer")], f"[P5] self-check: the built-in example gives {got}")
    trees = {}
    for name in ("context", "context_cpu", "context_cupy", "context_pyopencl"):
        try:
            trees[name] = m.mod(name).tree
        except Exception:
            continue
    classes = classes_of(trees, is_buf)
    cx.need(len(classes) >= 3 and "XBuffer" in classes, f"[P5] buffer classes found: {sorted(classes)} (expected XBuffer and its subclasses)")
    # the premise: buffers are pickled by the default protocol (a class that takes over its own state is P1's business)
    custom = [c for c, k in classes.items() if any(x in k.methods for x in ("__getstate__", "__reduce__", "__reduce_ex__"))]
    nstores = 0
    for cname, k in sorted(classes.items()):
        found = k.analyse()
        nstores += sum(1 for fn in k.methods.values() for n in ast.walk(fn) if isinstance(n, ast.Attribute) and isinstance(n.ctx, ast.Store) and isinstance(n.value, ast.Name) and n.value.id == "self")
        if cname in custom:
            cx.note(None, construct=f"{cname} defines its own pickled state", detail="decided by P1 (state round trip), not here")
            continue
        bad = sorted({(mn, b, a, n.lineno) for mn, n, b, a in found})
        for mn, b, a, ln in bad:
            node = [n for _m, n, b_, a_ in found if n.lineno == ln][0]
            cx.bad(None, construct=f"{cname}.{mn}: `{norm(node)[:80]}`", detail=f"`self.{b}` becomes a VIEW of the memory `self.{a}` holds: the default pickle protocol writes each attribute out on its own, after unpickling the two no longer share memory (writes through one are not seen through the other; a later re-slice of `{a}` brings back stale bytes)",
                   anchor=f"{k.mod}::{cname}", sub="alias")
        if not bad:
            cx.ok(None, construct=f"{cname}: {len(k.methods)} methods (with inherited ones), attribute stores analysed", detail="no attribute is a view of memory another attribute holds", anchor=f"{k.mod}::{cname}", sub="alias")
    cx.need(nstores >= 8, f"[P5] only {nstores} attribute stores seen in the buffer classes")
