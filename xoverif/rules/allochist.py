"""AH -- the allocator over HISTORIES (C04 / C12 quantify over sequences of allocate / free / growth).

AM and FM decide every single step on every abstract state -- of an allocator whose state is exactly (free list,
capacity, storage).  Anything else the allocator remembers between calls (a hint, a cached maximum, a cursor ...) is
outside those abstract states, and a step that is right on every state can still go wrong after a particular sequence.
AH therefore evaluates the CURRENT source of `XBuffer.__init__ / allocate / grow / free / get_free` on whole
sequences, starting from the real constructor, with every size SYMBOLIC (C: initial capacity, x, y, ... request
sizes, A: alignment, G: growth step).  A comparison is decided exactly as in AM: by evaluating the queried polynomial
on two independent numeric witness valuations of the scenario's side conditions and accepting the sign only if both
agree (otherwise: exit 2).  After every step the returned offset, the free list, the capacity and get_free() are
compared -- as polynomials -- with an executable first-fit / coalescing reference written from the property text
(scan in address order, first chunk holding the aligned request, consume exactly, drop an emptied chunk; grow by the
documented policy only when nothing fits and retry; free inserts the region and merges touching neighbours).

Nothing of /repo is executed and no number is stored in the allocator: results are polynomial identities.
"""
from ..core import rule
from ..linear import Poly
from ..peval import Builtin, Effect, Interp, Obj, Opaque, PyExc, Sym, topoly
from ..srcmodel import AnalysisError
from .allocmodel import _Witness

P = Poly.atom
K = Poly.const


def _scenarios():
    """name, kwargs of the constructor, steps, two witness valuations.  Steps: ("alloc", size poly, align) |
    ("free", index of an earlier alloc step) | ("get_free",)"""
    C, x, y, z, G, A = P("C"), P("x"), P("y"), P("z"), P("G"), P("A")
    W = lambda **kw: dict(kw)
    out = []
    # 1. fill, grow by doubling, free the LOWER region first then the upper one (merge into the predecessor), then a
    #    request that only the merged hole can serve  (seeded C12-g: a stale "largest free chunk" hint grows instead)
    out.append(("fill ; grow ; free low ; free high ; request served by the merged hole", {}, [("alloc", C, False), ("alloc", x, False), ("free", 0), ("free", 1), ("alloc", y, False), ("get_free",)],
                [W(C=200, x=10, y=205, A=8), W(C=1024, x=64, y=1057, A=16)], "x < C < y <= C + x"))
    # 2. the same with the upper region freed first (merge with the successor)
    out.append(("fill ; grow ; free high ; free low ; request served by the merged hole", {}, [("alloc", C, False), ("alloc", x, False), ("free", 1), ("free", 0), ("alloc", y, False), ("get_free",)],
                [W(C=200, x=10, y=205, A=8), W(C=1024, x=64, y=1057, A=16)], "x < C < y <= C + x"))
    # 3. three regions, the middle one freed and reused by a smaller request (lowest-addressed fit), then the rest of the
    #    hole by an exact-fit request; nothing grows
    out.append(("a ; b ; c ; free b ; smaller request reuses the hole ; exact fit of the rest", {}, [("alloc", x, False), ("alloc", y, False), ("alloc", z, False), ("free", 1), ("alloc", y - K(3), False), ("alloc", K(3), False), ("get_free",)],
                [W(C=512, x=40, y=30, z=50, A=8), W(C=4096, x=100, y=77, z=300, A=16)], "x + y + z < C, y > 3"))
    # 4. everything freed again in allocation order: one chunk [0, C); a request of the whole capacity fits without growth
    out.append(("a ; b ; c ; free a ; free b ; free c ; request of the whole capacity", {}, [("alloc", x, False), ("alloc", y, False), ("alloc", z, False), ("free", 0), ("free", 1), ("free", 2), ("get_free",), ("alloc", C, False)],
                [W(C=512, x=40, y=30, z=50, A=8), W(C=4096, x=100, y=77, z=300, A=16)], "x + y + z < C"))
    # 5. ... and in the reverse order
    out.append(("a ; b ; c ; free c ; free b ; free a ; request of the whole capacity", {}, [("alloc", x, False), ("alloc", y, False), ("alloc", z, False), ("free", 2), ("free", 1), ("free", 0), ("get_free",), ("alloc", C, False)],
                [W(C=512, x=40, y=30, z=50, A=8), W(C=4096, x=100, y=77, z=300, A=16)], "x + y + z < C"))
    # 6. explicit growth step: two growths by G, the second request served from the space the first growth left
    out.append(("grow_step: fill ; request (one step) ; request that fits what the step left ; request (another step)", {"grow_step": G}, [("alloc", C, False), ("alloc", x, False), ("alloc", y, False), ("alloc", z, False), ("get_free",)],
                [W(C=104, G=64, x=10, y=20, z=40, A=8), W(C=1024, G=512, x=100, y=200, z=300, A=16)], "x + y <= G < x + y + z <= 2 G, G <= C"))
    # 7. aligned requests: the padding in front of an aligned region is not handed out; freeing and re-requesting the
    #    same size returns the same place
    out.append(("aligned: odd-sized a ; aligned b ; free b ; b again (same place) ; free a ; a again (same place)", {}, [("alloc", x, True), ("alloc", y, True), ("free", 1), ("alloc", y, True), ("free", 0), ("alloc", x, True), ("get_free",)],
                [W(C=512, x=13, y=40, A=8), W(C=4096, x=37, y=100, A=16)], "x, y small against C; x not a multiple of A"))
    # 8. growth after the buffer was used: the last chunk ends at the capacity and is extended, a hole in the middle stays
    out.append(("a ; b ; free a ; request larger than everything (doubling) ; small request goes to the hole", {}, [("alloc", x, False), ("alloc", y, False), ("free", 0), ("alloc", z, False), ("alloc", x - K(1), False), ("get_free",)],
                [W(C=304, x=50, y=60, z=400, A=8), W(C=1024, x=120, y=130, z=1500, A=16)], "x + y < C < z <= 2C - x - y ... (z + 0 > C: grows by z)"))
    # 9. a small UNALIGNED live region (shorter than the alignment) between two regions that are freed: it stays live --
    #    the free chunks on both sides do not merge across it, and a request of its neighbours' joint size does not get
    #    its bytes  (seeded C04-e merged chunks that are closer than the alignment)
    out.append(("unaligned a ; tiny b (shorter than the alignment) ; c ; free a ; free c ; request a+b+c must not be served over b", {}, [("alloc", x, False), ("alloc", y, False), ("alloc", z, False), ("free", 0), ("free", 2), ("get_free",), ("alloc", x + y + z, False)],
                [W(C=512, x=13, y=3, z=24, A=8), W(C=4096, x=45, y=3, z=64, A=16)], "y < A, x + y a multiple of A, x not; 2 (x + y + z) < C"))
    # 10. the buffer is exactly full, a region in the MIDDLE is freed, then a request larger than that hole: the new space
    #     comes after the live tail (a new chunk at the old capacity); the hole in the middle keeps its bounds
    #     (seeded C12-h: an in-place growth stretched "the last free chunk" -- the hole -- over the live tail)
    out.append(("a ; b ; c fills exactly ; free b ; request larger than the hole (growth behind a live tail)", {}, [("alloc", x, False), ("alloc", y, False), ("alloc", C - x - y, False), ("free", 1), ("alloc", z, False), ("get_free",), ("alloc", y, False)],
                [W(C=304, x=50, y=60, z=100, A=8), W(C=1024, x=120, y=130, z=400, A=16)], "x + y < C, y < z <= C"))
    # 11. an EMPTY region: allocate(0) hands out the start of a free chunk without consuming it, so the next request gets
    #     the same offset; giving the empty region back returns NO bytes -- the region living at that offset stays live
    #     (seeded C04-h: a registry offset -> size let free(o, 0) release the live region that shares the offset)
    out.append(("empty region ; a at the same offset ; free the empty region ; request that fits: not served over a", {}, [("alloc", K(0), False), ("alloc", x, False), ("free", 0), ("get_free",), ("alloc", y, False), ("get_free",)],
                [W(C=512, x=40, y=30, A=8), W(C=4096, x=100, y=77, A=16)], "x + y < C, y <= x"))
    return out


# the allocator is inherited by both CPU buffer kinds (C04/C12: "both CPU buffer kinds"); a subclass may override any part
CLASSES = (("context", "XBuffer"), ("context_cpu", "BufferNumpy"), ("context_cpu", "BufferByteArray"))


def _mkstore(I, cap, tag):
    """abstract native storage of symbolic length: what an allocator may do to it in place is modelled (extend by a run
    of zero bytes, len); anything else is a gap of the model"""
    s = Obj("storage", {}, name=tag)
    s.length = topoly(cap)

    def extend(x):
        n = getattr(x, "zlen", None)
        if n is None and isinstance(x, (bytes, bytearray)):
            n = K(len(x))
        if n is None:
            raise AnalysisError(f"[AH] {tag}.extend({x!r}): length unknown")
        s.length = s.length + n

    def getitem(k):
        if not isinstance(k, slice) or k.step is not None:
            raise AnalysisError(f"[AH] {tag}[{k!r}]: only slices of the storage are modelled")
        lo = topoly(k.start) if k.start is not None else K(0)
        hi = topoly(k.stop) if k.stop is not None else s.length
        v = _mkstore(I, hi - lo, f"{tag}[{lo!r}:{hi!r}]")
        v.base = getattr(s, "base", s)
        return v

    s.attrs["__getitem__"] = Builtin("getitem", getitem)
    s.attrs["extend"] = Builtin("extend", extend)
    s.attrs["__len__"] = Builtin("len", lambda: Sym(s.length))
    return s


def _zeros(I):
    old = I.builtins["bytes"]

    def mk(x=b"", *a):
        if isinstance(x, Sym):
            z = Obj("zeros", {}, name=f"bytes({topoly(x)!r})")
            z.zlen = topoly(x)
            z.attrs["__len__"] = Builtin("len", lambda: Sym(z.zlen))
            return z
        return I.call(old, [x, *a], {})

    return Builtin("bytes", mk)


@rule("AH", ["C12", "C04"], "allocator histories with symbolic sizes, from the real constructor: after every step of {allocate, free, growth} sequences the returned offset, free list, capacity and get_free() equal the first-fit / coalescing reference")
def ah(cx):
    m = cx.m
    f_alloc = m.func("context::XBuffer.allocate")
    m.func("context::XBuffer.free")
    m.func("context::XBuffer.grow")
    m.func("context::XBuffer.__init__")
    n_steps = 0
    undecided = []
    for sc_ in [(c,) + s_ for c in CLASSES for s_ in _scenarios()]:
        try:
            n_steps += _one(cx, m, f_alloc, *sc_)
        except AnalysisError as e:
            # this scenario's side conditions do not fix a quantity the code branches on: not decided HERE; the other
            # scenarios still are.  Without any positive report the rule as a whole stays undecided (exit 2, never a pass)
            undecided.append(str(e))
    # configurations: a growth step that is not positive can never serve a request beyond the capacity (grow(0) for
    # ever / a shrinking capacity): the constructor refuses it, None keeps the doubling policy (PF62)
    for gs, want_refusal in ((0, True), (-8, True), (1, False), (None, False)):
        I = Interp(m)
        XB = I.global_lookup("context", "XBuffer")
        me = Obj("instance", {}, cls=XB)
        me.attrs["_make_context"] = Builtin("_make_context", lambda: Obj("context", {"minimum_alignment": 8}, name="ctx"))
        me.attrs["_new_buffer"] = Builtin("_new_buffer", lambda c: Opaque("storage"))
        init, owner = I.find_in_class(XB, "__init__")
        res = I.explore(lambda: I.call(I._bind(init, me, XB), [], {"capacity": 64, "grow_step": gs}), max_paths=4)
        if len(res) != 1:
            raise AnalysisError(f"[AH] XBuffer(grow_step={gs!r}): {len(res)} evaluation paths")
        e = res[0]["exc"]
        if e is not None and e.etype in ("AttributeError", "NameError"):
            raise AnalysisError(f"[AH] XBuffer(grow_step={gs!r}) cannot be evaluated: {e.etype}: {e.msg}")
        refused = e is not None
        cx.check(refused == want_refusal, m.func("context::XBuffer.__init__"), construct=f"XBuffer(capacity=64, grow_step={gs!r})", detail="refused" if want_refusal else "accepted",
                 bad_detail=("accepted: a request beyond the capacity then grows by this step for ever (never returns) / shrinks the capacity" if want_refusal else f"refused with {e.etype if e else ''}: a legal configuration"), sub="config")
    if undecided and not any(i.verdict == "violation" for i in cx.insts):
        raise AnalysisError(f"{len(undecided)} allocator histories are not decided: {undecided[0]}")
    for u in undecided:
        cx.note(f_alloc, detail=f"history not decided: {u[:200]}")
    cx.need(n_steps >= 165 or undecided, f"only {n_steps} history steps evaluated")


def _one(cx, m, f_alloc, klass, name, ctor_kw, steps, wits, cond):
    n_steps = 0
    name = f"{klass[1]}: {name}"
    if True:
        I = Interp(m)
        I.builtins["bytes"] = _zeros(I)
        reg = {}
        ws = [_Witness(dict(w), w["A"]) for w in wits]

        def al(xp, ap):
            if ap.is_const() and ap.const_value() == 1:
                return Sym(xp)
            nm = f"al({xp!r};{ap!r})"
            reg[nm] = (xp, ap)
            return Sym(Poly.atom(nm))

        def oracle(d):
            v = [w.value(d, reg) for w in ws]
            s = [(t > 0) - (t < 0) for t in v]
            if s[0] != s[1]:
                raise AnalysisError(f"[AH] `{name}`: the sign of `{d!r}` is not fixed by the scenario ({cond}): the code branches on a quantity the scenario leaves open")
            return s[0]

        def roundup(pa, pb):
            a = -pb
            xx = pa - a + K(1)
            if (a.is_const() and a.const_value() == 1) or repr(a) == "A":
                return al(xx, a)
            return None

        I.order_oracle = oracle
        I.roundup_hook = roundup
        I.call_hooks["_align"] = lambda interp, args, kwargs: al(topoly(args[0]), topoly(args[1] if len(args) > 1 else kwargs.get("alignment")))

        # ---- reference model on polynomial intervals
        ref = {"chunks": [[K(0), P("C")]], "cap": P("C"), "live": {}}
        gstep = ctor_kw.get("grow_step")

        def ref_alloc(size, align):
            A = P("A") if align else K(1)
            for _ in range(5):
                for i, (s, e) in enumerate(ref["chunks"]):
                    a0 = topoly(al(s, A))
                    sg = oracle(e - a0 - size)
                    if sg >= 0:
                        ref["chunks"][i][0] = a0 + size
                        if sg == 0:
                            del ref["chunks"][i]
                        return a0
                sizepa = size + A - K(1)
                if oracle(sizepa - ref["cap"]) > 0:
                    g = sizepa
                elif gstep is not None:
                    g = gstep
                else:
                    g = ref["cap"]
                if ref["chunks"] and oracle(ref["chunks"][-1][1] - ref["cap"]) == 0:
                    ref["chunks"][-1][1] = ref["cap"] + g
                else:
                    ref["chunks"].append([ref["cap"], ref["cap"] + g])
                ref["cap"] = ref["cap"] + g
            raise AnalysisError(f"[AH] `{name}`: the reference needs more than five growth steps")

        def ref_free(off, size):
            lo, hi = off, off + size
            new = []
            placed = False
            for s, e in ref["chunks"]:
                if oracle(e - lo) < 0:
                    new.append([s, e])
                elif oracle(s - hi) > 0:
                    if not placed:
                        new.append([lo, hi])
                        placed = True
                    new.append([s, e])
                else:  # touches or overlaps the freed region: merge
                    lo = s if oracle(s - lo) < 0 else lo
                    hi = e if oracle(e - hi) > 0 else hi
            if not placed:
                new.append([lo, hi])
                new.sort(key=lambda c: ws[0].value(c[0], reg))
            ref["chunks"] = new

        out = {"log": []}

        def thunk():
            XB = I.global_lookup(*klass)
            me = Obj("instance", {}, cls=XB)
            ctx = Obj("context", {"minimum_alignment": Sym(P("A"))}, name="ctx")
            me.attrs["_make_context"] = Builtin("_make_context", lambda: ctx)
            me.attrs["_new_buffer"] = Builtin("_new_buffer", lambda c: (I.effects.append(Effect("new_buffer", size=c)), _mkstore(I, c, f"storage{len(I.effects)}"))[1])
            me.attrs["copy_to_native"] = Builtin("copy_to_native", lambda *a, **k: I.effects.append(Effect("copy_to_native", args=a, kwargs=k)))
            kw = {"capacity": Sym(P("C"))}
            for k_, v_ in ctor_kw.items():
                kw[k_] = Sym(v_)
            init, owner = I.find_in_class(XB, "__init__")
            I.call(I._bind(init, me, XB), [], kw)
            offs = {}
            for k, st in enumerate(steps):
                if st[0] == "alloc":
                    r = I.call(I.getattr(me, "allocate"), [Sym(st[1])], {"align": st[2]})
                    offs[k] = (topoly(r), st[1])
                    out["log"].append((k, st, topoly(r), _state(I, me)))
                elif st[0] == "free":
                    o, sz = offs[st[1]]
                    I.call(I.getattr(me, "free"), [Sym(o), Sym(sz)], {})
                    out["log"].append((k, st, None, _state(I, me)))
                else:
                    r = I.call(I.getattr(me, "get_free"), [], {})
                    out["log"].append((k, st, topoly(r), _state(I, me)))
            return None

        try:
            res = I.explore(thunk, max_paths=4)
        except AnalysisError as e:
            if "step limit" in str(e):
                cx.bad(f_alloc, construct=f"history `{name}`", detail="the evaluation does not terminate (a request is never served)", sub="history")
                return n_steps
            raise
        if len(res) != 1:
            raise AnalysisError(f"[AH] `{name}`: evaluation forks on {[r['conds'] for r in res][:2]}")
        exc = res[0]["exc"]
        # replay the reference alongside the log
        problem = None
        ref_offs = {}
        for k, st, ret, (chunks, cap) in out["log"]:
            n_steps += 1
            if st[0] == "alloc":
                want = ref_alloc(st[1], st[2])
                ref_offs[k] = (want, st[1])
                if ret is None or ret != want:
                    problem = (k, f"allocate({st[1]!r}{', align' if st[2] else ''}) returns {ret!r}, the first fit is at {want!r}")
            elif st[0] == "free":
                o, sz = ref_offs[st[1]]
                ref_free(o, sz)
            else:
                want = sum((e - s for s, e in ref["chunks"]), Poly())
                if ret is None or ret != want:
                    problem = (k, f"get_free() is {ret!r}, the free bytes are {want!r}")
            if problem is None and cap != ref["cap"]:
                problem = (k, f"the capacity is {cap!r} after this step, the reference has {ref['cap']!r}" + (" (the buffer grew although a free chunk holds the request)" if oracle(cap - ref["cap"]) > 0 else ""))
            if problem is None and chunks != [(s, e) for s, e in ref["chunks"]]:
                problem = (k, f"the free list is {[(repr(a), repr(b)) for a, b in chunks]}, the reference (sorted, touching chunks merged) {[(repr(s), repr(e)) for s, e in ref['chunks']]}")
            if problem:
                break
        if problem is None and exc is not None:
            if exc.etype in ("AttributeError", "NameError", "TypeError", "KeyError") and "no attribute" in str(exc.msg) and f"instance {klass[1]}" not in str(exc.msg):
                raise AnalysisError(f"[AH] `{name}` cannot be evaluated: {exc.etype}: {exc.msg}")
            problem = (len(out["log"]), f"step {len(out['log']) + 1} raises {exc.etype}: {exc.msg}")
        if problem:
            k, msg = problem
            done = " ; ".join(_show(s) for s in steps[: k + 1])
            cx.bad(f_alloc, construct=f"history `{name}` ({cond})", detail=f"after `{done}`: {msg}", sub="history")
        else:
            cx.ok(f_alloc, construct=f"history `{name}` ({cond}): {len(steps)} steps", detail="offsets, free list, capacity and get_free() equal the first-fit / coalescing reference after every step", sub="history")
    return n_steps


def _state(I, me):
    return [(topoly(I.getattr(c, "start")), topoly(I.getattr(c, "end"))) for c in I.getattr(me, "chunks")], topoly(I.getattr(me, "capacity"))


def _show(st):
    if st[0] == "alloc":
        return f"allocate({st[1]!r}{', align' if st[2] else ''})"
    if st[0] == "free":
        return f"free(#{st[1]})"
    return "get_free()"
