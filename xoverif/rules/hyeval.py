"""HV -- hybrid (Python-dressed) objects, decided by evaluating the CURRENT source of hybrid_class.py / struct.py /
ref.py on the abstract memory over every history (bounded length) of the operations the property names:
{set scalar field, assign a hybrid object to a nested field (foreign buffer / same buffer / itself / nested-nested),
assign to a reference field (same buffer / other buffer), copy, move (top level / nested part / object with
references / object that is referenced)}.

No part of /repo is executed: the metaclass, the descriptors, `xoinitialize`, `_reinit_from_xobject`, `move`,
`copy` and the struct/ref writers are interpreted by xoverif.peval over abstract buffers (positions are symbolic
`off_k + const`, contents are the recorded effects).

After EVERY step of EVERY history the *mirror invariant* is checked on all live handles:

    for every nested (by-value) hybrid field f of a handle h:   h.f is a hybrid object of f's dressing class whose
        struct views exactly the bytes of the field:  (buffer, offset)(h.f._xobject) == (buffer, offset)(h._xobject.f)
        -- recursively;
    for every reference field r:  h.r is None iff the stored reference is null, else it views the referenced place;
    reading a scalar attribute reads the slot of that field of h._xobject (renamed fields included).

and per operation: an assignment to a by-value field copies exactly the field's bytes from the value's place into the
container's field and leaves the value object where it was (independent copy); a reference assignment stores the
relative position of the SAME object and is refused across buffers before anything is written; copy allocates a new
struct of the same size, copies the source's bytes into it and leaves the source alone; move re-creates the struct in the
target buffer and every nested part follows; move of a nested part / of an object holding references is refused with
nothing written.
"""
import itertools
import os

from ..core import rule
from ..linear import Poly
from ..peval import Obj, Opaque, PyExc, Sym
from ..srcmodel import AnalysisError
from .layout import Lab, pol

WRITE_KINDS = ("write", "write_array", "child_write", "update_from_buffer", "update_from_xbuffer", "update_from_nplike", "update_from_native", "view_update")


class _Bad(Exception):
    pass


class HyWorld:
    def __init__(self, model):
        self.lab = Lab(model)
        self.I, self.W = self.lab.I, self.lab.W
        self.bufs = {"A": self.W.buffer}
        self.nbuf = 0
        self.W.copy_bytes = True  # buffer-to-buffer copies carry the known words along

        self.atom_buf = {}  # base atom of an allocation -> name of the buffer it was made in
        h_alloc = self.I.call_hooks["allocate_on_buffer"]

        def tagging_allocate(interp, args, kwargs):
            buf, pos = h_alloc(interp, args, kwargs)
            pp = pol(pos) if not isinstance(pos, str) else None
            if pp is not None and len(pp.atoms()) == 1 and isinstance(buf, Obj):
                self.atom_buf.setdefault(str(list(pp.atoms())[0]), buf.name)
            return buf, pos

        self.I.call_hooks["allocate_on_buffer"] = tagging_allocate

        def distinct_allocations(d):
            # positions are `base_k + const` with one base atom per allocation: two positions inside DIFFERENT
            # allocations OF ONE BUFFER are never equal (allocations do not overlap; every constant used here is
            # inside its object).  Offsets in two DIFFERENT buffers are unrelated numbers: they may coincide (the same
            # structure built in the same order in two buffers) -- such a comparison is undecided and both outcomes
            # are explored (seeded C08-e compared offsets across buffers)
            ats = [str(a) for a in d.atoms()]
            if ats and all(a.startswith("off") for a in ats):
                bufs = {self.atom_buf.get(a) for a in ats}
                if len(ats) == 2 and None not in bufs and len(bufs) == 2 and self.cross_buffer_coincidence:
                    return None
                return False
            return None

        self.cross_buffer_coincidence = True
        self.I.eq_oracle = distinct_allocations

        self.epoch = {}
        self.numeric_views = False
        self._views(self.W.buffer)
        mk0 = self.W.mk_buffer

        def mk_buffer(name):  # buffers the library creates for itself (no buffer given) hand out views too
            b = mk0(name)
            self._views(b)
            return b

        self.W.mk_buffer = mk_buffer

    # ---------------------------------------------------------------- building
    def _views(self, b):
        """array-like views handed out by this buffer remember the storage epoch they were made in: when the buffer
        grows its storage is replaced and every earlier view shows stale memory"""
        from ..peval import Builtin, Effect

        I = self.I
        self.epoch[b.name] = 0

        def to_nplike(*a, **k):
            vals = dict(zip(("offset", "dtype", "shape"), a))
            vals.update(k)
            pos, shape = pol(vals["offset"]), list(I.iterate(vals["shape"]))
            itemsize = I.getattr(vals["dtype"], "itemsize")
            if self.numeric_views:
                # JD: the view is an array of the words the abstract memory holds there (C order)
                from ..peval import SArr

                shape = [int(d) for d in shape]
                arr = SArr(shape)
                arr.itemsize = itemsize
                arr.dt = vals["dtype"]
                nel_ = 1
                for d_ in shape:
                    nel_ *= d_
                arr.origin = (b, pos, nel_ * itemsize)  # the storage this view aliases
                for n_, idx in enumerate(arr.indices()):
                    key = repr(pos + Poly.const(n_ * itemsize))
                    # never-written storage of a fresh buffer is zero (no free/reuse happens in these scenarios)
                    zero = 0.0 if str(I.getattr(vals["dtype"], "name")).startswith("float") else 0
                    arr.data[idx] = I.mem[key] if key in I.mem else zero
                return arr
            v = Obj("nplike", {"pos": pos, "buf": b, "epoch": self.epoch[b.name], "shape": tuple(shape), "dtype": vals["dtype"]}, name=f"view@{b.name}+{pos!r}#e{self.epoch[b.name]}")
            st = []
            acc = itemsize
            for d in reversed(shape):
                st.insert(0, acc)
                acc = acc * d
            v.attrs["strides"] = tuple(st)
            v.attrs["size"] = acc // itemsize if itemsize else 0
            v.attrs["ndim"] = len(shape)
            I.effects.append(Effect("to_nplike", args=(pos, vals["dtype"], tuple(shape)), kwargs={}, buf=b))

            def transpose(perm=None):
                perm = list(I.iterate(perm)) if perm is not None else list(reversed(range(len(shape))))
                if perm != sorted(perm):
                    raise AnalysisError("HV: only C-ordered array fields are modelled")
                return v

            v.attrs["transpose"] = Builtin("view.transpose", transpose)
            v.attrs["__getitem__"] = Builtin("view[]", lambda kk: v if isinstance(kk, slice) or kk is Ellipsis else Opaque(f"{v.name}[{kk!r}]"))
            v.attrs["__setitem__"] = Builtin("view[]=", lambda kk, val: I.effects.append(Effect("view_write", pos=pos, buf=b, epoch=v.attrs["epoch"], key=kk, value=val)))
            v.attrs["__len__"] = Builtin("len(view)", lambda: shape[0])
            return v

        b.attrs["to_nplike"] = Builtin("buffer.to_nplike", to_nplike)
        b.attrs["to_nparray"] = b.attrs["to_nplike"]

        def update_from_nplike(*a, **k):
            vals = dict(zip(("offset", "dest_dtype", "value"), a))
            vals.update(k)
            from ..peval import SArr

            v, pos = vals["value"], pol(vals["offset"])
            I.effects.append(Effect("update_from_nplike", args=(vals["offset"], vals["dest_dtype"], v), kwargs={}, buf=b))
            if self.numeric_views and isinstance(v, SArr) and v.sym is None:
                itemsize = I.getattr(vals["dest_dtype"], "itemsize")
                for n_, x in enumerate(v.flat()):
                    p_ = pos + Poly.const(n_ * itemsize)
                    I.mem[repr(p_)] = x
                    self.W.polys[repr(p_)] = p_

        b.attrs["update_from_nplike"] = Builtin("buffer.update_from_nplike", update_from_nplike)

    def buf(self, tag):
        if tag not in self.bufs:
            self.bufs[tag] = self.W.mk_buffer(tag)
        return self.bufs[tag]

    def fresh_buf(self):
        self.nbuf += 1
        return self.buf(f"T{self.nbuf}")

    def default_context(self):
        from ..peval import Builtin

        return Obj("context", {"new_buffer": Builtin("context_default.new_buffer", lambda *a, **k: self.fresh_buf())}, name="ctx:default")

    def mkclass(self, name, fields, extra=None, bases=None):
        I = self.I
        MH = I.global_lookup("hybrid_class", "MetaHybridClass")
        HC = I.global_lookup("hybrid_class", "HybridClass")
        data = {"_xofields": dict(fields)}
        data.update(extra or {})
        return I.call(I.getattr(MH, "__new__"), [MH, name, tuple(bases) if bases else (HC,), data], {})

    def zoo(self):
        I = self.I
        F = I.global_lookup("scalar", "Float64")
        I64 = I.global_lookup("scalar", "Int64")
        Ref = I.global_lookup("ref", "Ref")
        z = {}
        z["Leaf"] = self.mkclass("Leaf", {"x": F, "y": I64, "data": self.lab.array("Arr3Float64", [3], (0,), F)}, {"_rename": {"y": "why"}})
        z["Mid"] = self.mkclass("Mid", {"m": F, "leaf": z["Leaf"]})
        z["Top"] = self.mkclass("Top", {"t": F, "mid": z["Mid"], "leaf2": z["Leaf"]}, {"_rename": {"leaf2": "second"}})
        z["Holder"] = self.mkclass("Holder", {"k": F, "r": I.call(Ref, [z["Leaf"]], {})})
        z["Wrap"] = self.mkclass("Wrap", {"w": F, "h": z["Holder"]})
        ArrF = self.lab.array("ArrNFloat64", [None], (0,), F)
        z["DynLeaf"] = self.mkclass("DynLeaf", {"n": F, "a": ArrF, "b": ArrF})
        z["DynTop"] = self.mkclass("DynTop", {"t": F, "part": z["DynLeaf"]})
        return z

    # ---------------------------------------------------------------- observation
    def loc(self, xo):
        if not isinstance(xo, Obj) or "_buffer" not in xo.attrs or "_offset" not in xo.attrs:
            raise _Bad(f"{xo!r} is not a view of a buffer")
        return (xo.attrs["_buffer"], pol(xo.attrs["_offset"]))

    def locs(self, l):
        return f"{l[0].name}+{l[1]!r}"

    def fields(self, h):
        I = self.I
        XS = I.getattr(h, "_XoStruct")
        ren = I.getattr(h, "_rename")
        out = []
        for f in XS.attrs["_fields"]:
            fn = I.getattr(f, "name")
            ft = I.getattr(f, "ftype")
            kind = "scalar"
            if I.hasattr(ft, "_DressingClass") is True:
                kind = "nested"
            elif isinstance(ft, Obj) and ft.cls is not None and ft.cls.name == "Ref":
                kind = "ref"
            elif I.hasattr(ft, "_itemtype") is True:
                kind = "array"
            out.append((fn, ren.get(fn, fn), kind, ft, f))
        return out

    def mirror(self, h, path):
        """discrepancies between the dressed tree of `h` and the struct views of its buffer data (pure observation:
        the effects of the reads are dropped)"""
        n0 = len(self.I.effects)
        try:
            return self._mirror(h, path)
        finally:
            del self.I.effects[n0:]

    def _mirror(self, h, path):
        I = self.I
        bad = []
        kept = h.attrs.get("_xobject")
        if not isinstance(kept, Obj):
            return [f"{path}: no struct view (_xobject)"]
        hl = self.loc(kept)
        # the buffer data are what a view made afresh from (buffer, offset) shows; the handle the dressed object keeps
        # must locate every field where that view does
        try:
            xo = I.call(I.getattr(kept.cls, "_from_buffer"), [kept.attrs["_buffer"], kept.attrs["_offset"]], {})
            for f in kept.cls.attrs["_fields"]:
                pa = I.call(I.getattr(f, "get_offset"), [kept], {})[1]
                pb = I.call(I.getattr(f, "get_offset"), [xo], {})[1]
                if pol(pa) != pol(pb):
                    return [f"{path}: the struct handle kept by the dressed object locates field {I.getattr(f, 'name')} at {pol(pa)!r}, the buffer data have it at {pol(pb)!r} (stale handle): attributes read other bytes"]
        except PyExc as e:
            return [f"{path}: the struct data cannot be read back: {e.etype}"]
        for fn, pyn, kind, ft, fld in self.fields(h):
            if kind == "nested":
                try:
                    d = I.getattr(h, pyn)
                    sv = I.getattr(xo, fn)
                except PyExc as e:
                    bad.append(f"{path}.{pyn}: reading raises {e.etype}")
                    continue
                want = self.loc(sv)
                dc = I.getattr(ft, "_DressingClass")
                if not (isinstance(d, Obj) and d.cls is dc):
                    bad.append(f"{path}.{pyn} is {d!r}, not a {dc.name}")
                    continue
                got = self.loc(d.attrs.get("_xobject"))
                if got[0] is not want[0] or got[1] != want[1]:
                    bad.append(f"{path}.{pyn} views {self.locs(got)} but the field's bytes are at {self.locs(want)}: the attribute no longer reflects the buffer data of {path}")
                    continue
                bad.extend(self._mirror(d, f"{path}.{pyn}"))
            elif kind == "ref":
                try:
                    d = I.getattr(h, pyn)
                    sv = I.getattr(xo, fn)
                except PyExc as e:
                    bad.append(f"{path}.{pyn}: reading raises {e.etype}")
                    continue
                if sv is None:
                    if d is not None:
                        bad.append(f"{path}.{pyn} is {d!r} although the stored reference is null")
                    continue
                want = self.loc(sv)
                dx = d.attrs.get("_xobject") if isinstance(d, Obj) and "_xobject" in d.attrs else d
                if not isinstance(dx, Obj):
                    bad.append(f"{path}.{pyn} is {d!r} although the reference points to {self.locs(want)}")
                    continue
                got = self.loc(dx)
                if got[0] is not want[0] or got[1] != want[1]:
                    bad.append(f"{path}.{pyn} views {self.locs(got)} but the stored reference points to {self.locs(want)}")
            elif kind == "array":
                n0 = len(I.effects)
                try:
                    v = I.getattr(h, pyn)
                    av = I.getattr(xo, fn)
                except PyExc as e:
                    bad.append(f"{path}.{pyn}: reading raises {e.etype}")
                    continue
                del I.effects[n0:]
                want = pol(av.attrs["_offset"]) + pol(I.getattr(av, "_data_offset"))
                if not (isinstance(v, Obj) and v.kind == "nplike"):
                    bad.append(f"{path}.{pyn} is {v!r}, not an array-like view of the buffer")
                elif v.attrs["buf"] is not hl[0] or v.attrs["pos"] != want:
                    bad.append(f"{path}.{pyn} is a view of {v.attrs['buf'].name}+{v.attrs['pos']!r}, the array data is at {hl[0].name}+{want!r}")
                elif v.attrs["epoch"] != self.epoch[hl[0].name]:
                    bad.append(f"{path}.{pyn} is a view made before the storage of buffer {hl[0].name} was replaced (the buffer grew since): it shows stale memory, not the buffer data")
            else:
                n0 = len(I.effects)
                try:
                    I.getattr(h, pyn)
                except PyExc as e:
                    bad.append(f"{path}.{pyn}: reading raises {e.etype}")
                    continue
                rd = [e for e in I.effects[n0:] if e.kind == "read"]
                off = I.getattr(fld, "offset")
                want = hl[1] + pol(off)
                if not rd or rd[-1].buf is not hl[0] or pol(rd[-1].pos) != want:
                    bad.append(f"{path}.{pyn} reads {[(getattr(e.buf, 'name', '?'), repr(pol(e.pos))) for e in rd]}, the field is at {hl[0].name}+{want!r}")
                del I.effects[n0:]
        return bad


# ------------------------------------------------------------------------------------------ operations
# Each operation acts on the state `st` = {"top": Top in A, "mid2": Mid in B, "leaf3": Leaf in A, "leafB": Leaf in B,
# "holder": Holder in A, "old": [...]} and returns a list of discrepancies of its own postcondition.


def _size(hw, h):
    return pol(hw.I.getattr(hw.I.getattr(h, "_XoStruct"), "_size"))


def _writes(effs):
    return [e for e in effs if e.kind in WRITE_KINDS]


def _copy_effect_ok(hw, effs, dst, src, size):
    """exactly the `size` bytes at src copied to dst (one buffer-to-buffer copy), nothing else written"""
    w = _writes(effs)
    cp = [e for e in w if e.kind == "update_from_xbuffer"]
    if len(cp) != 1 or len(w) != 1:
        return f"expected one buffer-to-buffer copy, got {[e.kind for e in w]}"
    a = cp[0].args
    if cp[0].buf is not dst[0] or pol(a[0]) != dst[1]:
        return f"copy goes to {cp[0].buf.name}+{pol(a[0])!r}, not to {hw.locs(dst)}"
    if a[1] is not src[0] or pol(a[2]) != src[1]:
        return f"copy reads {getattr(a[1], 'name', a[1])}+{pol(a[2])!r}, not the value at {hw.locs(src)}"
    if pol(a[3]) != size:
        return f"copy moves {pol(a[3])!r} bytes, the object has {size!r}"
    return ""


def op_set_scalar(hw, st):
    I = hw.I
    top = st["top"]
    out = []
    for h, pyn, fn, val in ((top, "t", "t", 7.25), (I.getattr(top, "mid"), "m", "m", 8.5), (I.getattr(I.getattr(top, "mid"), "leaf"), "why", "y", 9), (I.getattr(top, "second"), "x", "x", 3.5)):
        n0 = len(I.effects)
        I.setattr(h, pyn, val)
        w = _writes(I.effects[n0:])
        hl = hw.loc(h.attrs["_xobject"])
        fld = [f for f in I.getattr(h, "_XoStruct").attrs["_fields"] if I.getattr(f, "name") == fn][0]
        want = hl[1] + pol(I.getattr(fld, "offset"))
        if len(w) != 1 or w[0].kind != "write" or w[0].buf is not hl[0] or pol(w[0].pos) != want or w[0].value != val:
            out.append(f"setting {h.cls.name}.{pyn} = {val} writes {[(e.kind, getattr(e.buf, 'name', '?'), repr(pol(e.pos)) if hasattr(e, 'pos') else '') for e in w]}, the field is at {hl[0].name}+{want!r}")
        got = I.getattr(h, pyn)
        if got != val:
            out.append(f"{h.cls.name}.{pyn} reads {got!r} after being set to {val}")
    return out


def _assign_nested(hw, st, container, pyn, fn, value, label):
    I = hw.I
    out = []
    cxo = container.attrs["_xobject"]
    dst = hw.loc(I.getattr(cxo, fn))
    src = hw.loc(value.attrs["_xobject"])
    size = _size(hw, value)
    n0 = len(I.effects)
    I.setattr(container, pyn, value)
    effs = I.effects[n0:]
    same_place = dst[0] is src[0] and dst[1] == src[1]
    if same_place:
        w = _writes(effs)
        if w and _copy_effect_ok(hw, effs, dst, src, size):
            out.append(f"{label}: re-assigning the field to itself writes {[e.kind for e in w]}")
    else:
        why = _copy_effect_ok(hw, effs, dst, src, size)
        if why:
            out.append(f"{label}: {why}")
    if any(e.kind == "alloc" for e in effs):
        out.append(f"{label}: allocates")
    # the value object stays where it was, the field holds an independent copy
    now = hw.loc(value.attrs["_xobject"])
    if now[0] is not src[0] or now[1] != src[1]:
        out.append(f"{label}: the assigned object itself now views {hw.locs(now)} (was {hw.locs(src)})")
    d = I.getattr(container, pyn)
    if d is value and not same_place:
        out.append(f"{label}: the field IS the assigned object (shared, not an independent copy)")
    return out


def op_assign_foreign(hw, st):
    return _assign_nested(hw, st, st["top"], "mid", "mid", st["mid2"], "top.mid = <Mid of another buffer>")


def op_assign_foreign_same_offset(hw, st):
    """the value lives in ANOTHER buffer at the very offset the field has in its own buffer: it is not the field"""
    I = hw.I
    top = st["top"]
    field_at = hw.loc(I.getattr(top.attrs["_xobject"], "mid"))
    Mid = I.getattr(top, "mid").cls
    twin = I.call(Mid, [], {"m": 3.25, "_buffer": hw.fresh_buf(), "_offset": Sym(field_at[1])})
    return _assign_nested(hw, st, top, "mid", "mid", twin, "top.mid = <Mid of another buffer at the same offset as the field>")


def op_assign_same_buffer(hw, st):
    return _assign_nested(hw, st, st["top"], "second", "leaf2", st["leaf3"], "top.second = <Leaf of the same buffer>")


def op_assign_self(hw, st):
    I = hw.I
    return _assign_nested(hw, st, st["top"], "mid", "mid", I.getattr(st["top"], "mid"), "top.mid = top.mid")


def op_assign_deep(hw, st):
    I = hw.I
    return _assign_nested(hw, st, I.getattr(st["top"], "mid"), "leaf", "leaf", st["leafB"], "top.mid.leaf = <Leaf of another buffer>")


def op_assign_from_part(hw, st):
    """a nested part of one object assigned into another object"""
    I = hw.I
    return _assign_nested(hw, st, st["top"], "second", "leaf2", I.getattr(st["mid2"], "leaf"), "top.second = mid2.leaf")


def op_copy(hw, st):
    I = hw.I
    out = []
    for name in ("top", "mid2"):
        h = st[name]
        src = hw.loc(h.attrs["_xobject"])
        size = _size(hw, h)
        n0 = len(I.effects)
        c = I.call(I.getattr(h, "copy"), [], {})
        effs = I.effects[n0:]
        al = [e for e in effs if e.kind == "alloc"]
        if not (isinstance(c, Obj) and c.cls is h.cls and c is not h):
            out.append(f"{name}.copy() gives {c!r}")
            continue
        if len(al) != 1 or pol(al[0].size) != size:
            out.append(f"{name}.copy(): allocations {[repr(pol(e.size)) for e in al]}, the object has {size!r} bytes")
            continue
        dst = hw.loc(c.attrs["_xobject"])
        if dst[0] is not al[0].buf or dst[1] != pol(al[0].pos):
            out.append(f"{name}.copy() views {hw.locs(dst)}, not its fresh allocation")
        why = _copy_effect_ok(hw, effs, dst, src, size)
        if why:
            out.append(f"{name}.copy(): {why}")
        now = hw.loc(h.attrs["_xobject"])
        if now[0] is not src[0] or now[1] != src[1]:
            out.append(f"{name}.copy() relocates the source")
        out.extend(hw.mirror(c, f"{name}.copy()"))
        st["old"].append(c)
    return out


def op_copy_holder(hw, st):
    """an object holding a reference, copied into another buffer: the copy's reference attribute must show the
    duplicate made in the copy's buffer, not the original's referent"""
    I = hw.I
    out = []
    for name, tgt in (("holderB", hw.buf("A")), ("holder", hw.fresh_buf())):
        h = st[name]
        src = hw.loc(h.attrs["_xobject"])
        c = I.call(I.getattr(h, "copy"), [], {"_buffer": tgt})
        if not (isinstance(c, Obj) and c.cls is h.cls and c is not h):
            out.append(f"{name}.copy(_buffer=other) gives {c!r}")
            continue
        dst = hw.loc(c.attrs["_xobject"])
        if dst[0] is not tgt:
            out.append(f"{name}.copy(_buffer=other) lives in {dst[0].name}")
        now = hw.loc(h.attrs["_xobject"])
        if now[0] is not src[0] or now[1] != src[1]:
            out.append(f"{name}.copy(_buffer=other) relocates the source")
        out.extend(hw.mirror(c, f"{name}.copy(_buffer=other)"))
        out.extend(_holder_part_ok(hw, c, h, f"{name}.copy(_buffer=other)"))
        st["old"].append(c)
    return out


def _move(hw, st, name, h, expect):
    I = hw.I
    out = []
    tgt = hw.fresh_buf()
    src = hw.loc(h.attrs["_xobject"])
    size = _size(hw, h)
    n0 = len(I.effects)
    try:
        I.call(I.getattr(h, "move"), [], {"_buffer": tgt})
        exc = None
    except PyExc as e:
        exc = e
    effs = I.effects[n0:]
    if expect == "refuse":
        if exc is None:
            out.append(f"{name}.move() is accepted")
        elif _writes(effs) or any(e.kind == "alloc" for e in effs):
            out.append(f"{name}.move() is refused only after {[e.kind for e in effs if e.kind in WRITE_KINDS + ('alloc',)]}")
        now = hw.loc(h.attrs["_xobject"])
        if now[0] is not src[0] or now[1] != src[1]:
            out.append(f"refused {name}.move() relocated the object")
        return out
    if exc is not None:
        out.append(f"{name}.move() is refused with {exc.etype}")
        return out
    al = [e for e in effs if e.kind == "alloc"]
    if len(al) != 1 or al[0].buf is not tgt or pol(al[0].size) != size:
        out.append(f"{name}.move(): allocations {[(e.buf.name, repr(pol(e.size))) for e in al]}, needed {size!r} bytes on the target buffer")
        return out
    dst = hw.loc(h.attrs["_xobject"])
    if dst[0] is not tgt or dst[1] != pol(al[0].pos):
        out.append(f"after {name}.move() the object views {hw.locs(dst)}, not its place in the target buffer")
    why = _copy_effect_ok(hw, effs, dst, src, size)
    if why:
        out.append(f"{name}.move(): {why}")
    return out


def op_move_top(hw, st):
    return _move(hw, st, "top", st["top"], "accept")


def op_move_nested(hw, st):
    I = hw.I
    out = _move(hw, st, "top.mid", I.getattr(st["top"], "mid"), "refuse")
    out += _move(hw, st, "top.mid.leaf", I.getattr(I.getattr(st["top"], "mid"), "leaf"), "refuse")
    return out


def op_move_standalone(hw, st):
    # mid2 is never made a part or a referent by the other operations
    return _move(hw, st, "mid2", st["mid2"], "accept")


def op_ref_same(hw, st):
    I = hw.I
    out = []
    holder, leaf = st["holder"], st["leaf3"]
    if hw.loc(leaf.attrs["_xobject"])[0] is not hw.loc(holder.attrs["_xobject"])[0]:
        # an earlier move took leaf3 to another buffer: the assignment must now be refused
        return _ref_refused(hw, holder, leaf, "holder.r = <Leaf moved to another buffer>")
    slot = hw.loc(holder.attrs["_xobject"])
    fld = [f for f in I.getattr(holder, "_XoStruct").attrs["_fields"] if I.getattr(f, "name") == "r"][0]
    spos = slot[1] + pol(I.getattr(fld, "offset"))
    tgt = hw.loc(leaf.attrs["_xobject"])
    already = I.getattr(holder, "r") is leaf
    n0 = len(I.effects)
    I.setattr(holder, "r", leaf)
    effs = I.effects[n0:]
    w = _writes(effs)
    if already and not w and not any(e.kind == "alloc" for e in effs):
        return out if I.getattr(holder, "r") is leaf else ["holder.r = <the object it already shares> drops it"]
    if any(e.kind == "alloc" for e in effs):
        out.append("holder.r = <Leaf of the same buffer>: allocates (the object must be shared, not duplicated)")
    if len(w) != 1 or w[0].kind != "write" or w[0].buf is not slot[0] or pol(w[0].pos) != spos or pol(w[0].value) != tgt[1] - spos:
        out.append(f"holder.r = <Leaf of the same buffer>: writes {[(e.kind, repr(pol(e.pos)) if hasattr(e, 'pos') else '', repr(getattr(e, 'value', ''))) for e in w]}, needed the relative position {tgt[1] - spos!r} at {spos!r}")
    if I.getattr(holder, "r") is not leaf:
        out.append("holder.r is not the assigned object (a reference shares it)")
    st["leaf3_referenced"] = True
    st["holder_has_target"] = True
    return out


def op_ref_foreign(hw, st):
    return _ref_refused(hw, st["holder"], st["leafB"], "holder.r = <Leaf of ANOTHER buffer>")


def _ref_refused(hw, holder, leaf, label):
    I = hw.I
    out = []
    before = I.getattr(holder, "r")
    n0 = len(I.effects)
    try:
        I.setattr(holder, "r", leaf)
        exc = None
    except PyExc as e:
        exc = e
    effs = I.effects[n0:]
    if exc is None:
        out.append(f"{label} is accepted")
    elif _writes(effs) or any(e.kind == "alloc" for e in effs):
        out.append(f"{label} is refused only after {[e.kind for e in effs if e.kind in WRITE_KINDS + ('alloc',)]}")
    def place(v):
        if v is None:
            return None
        x = v.attrs.get("_xobject") if isinstance(v, Obj) and "_xobject" in v.attrs else v
        return (hw.loc(x)[0].name, repr(hw.loc(x)[1]), v.cls.name if isinstance(v, Obj) and v.cls is not None else None)

    if exc is not None and place(I.getattr(holder, "r")) != place(before):
        out.append(f"{label}: the refused assignment changed holder.r")
    return out


def op_move_holder(hw, st):
    return _move(hw, st, "holder", st["holder"], "refuse")


def op_move_wrap(hw, st):
    # `wrap` has no reference field of its own, its nested part `h` (a Holder) has one: references anywhere inside the
    # object forbid the move (the relative words would be copied verbatim / the referent duplicated) -- seeded C18-g
    # looked at the object's OWN fields only
    return _move(hw, st, "wrap", st["wrap"], "refuse")


def op_move_referent(hw, st):
    # an object that a reference field shares must stay where it is; before it is shared it may move
    return _move(hw, st, "leaf3", st["leaf3"], "refuse" if st.get("leaf3_referenced") else "accept")


def _holder_part_ok(hw, part, src_holder, label):
    """a Holder stored by value elsewhere: its reference must have been re-made inside the new buffer (a duplicate of
    the referent), and the dressed part must show THAT object, not the referent of the assigned holder"""
    I = hw.I
    out = []
    pr, sr = I.getattr(part, "r"), I.getattr(src_holder, "r")
    if sr is not None and pr is None:
        out.append(f"{label}: the reference of the stored holder is null, the assigned one pointed to an object")
    if pr is not None and sr is not None:
        px = pr.attrs.get("_xobject") if "_xobject" in pr.attrs else pr
        sx = sr.attrs.get("_xobject") if "_xobject" in sr.attrs else sr
        pl, sl = hw.loc(px), hw.loc(sx)
        if pl[0] is sl[0] and pl[1] == sl[1] and hw.loc(part.attrs["_xobject"])[0] is not sl[0]:
            out.append(f"{label}: the stored holder's .r shows the referent of the ASSIGNED holder ({hw.locs(sl)}), which lives in another buffer")
    return out


def op_assign_holder(hw, st):
    I = hw.I
    wrap, hb = st["wrap"], st["holderB"]
    src = hw.loc(hb.attrs["_xobject"])
    I.setattr(wrap, "h", hb)
    out = []
    now = hw.loc(hb.attrs["_xobject"])
    if now[0] is not src[0] or now[1] != src[1]:
        out.append("wrap.h = <Holder of another buffer>: the assigned object itself was relocated")
    part = I.getattr(wrap, "h")
    if part is hb:
        out.append("wrap.h = <Holder of another buffer>: the field IS the assigned object (shared, not an independent copy)")
    out += _holder_part_ok(hw, part, hb, "wrap.h = <Holder of another buffer>")
    return out


def op_construct_with_dressed(hw, st):
    I = hw.I
    Wrap = st["wrap"].cls
    hb = st["holderB"]
    w2 = I.call(Wrap, [], {"w": 0.5, "h": hb, "_buffer": hw.buf("A")})
    st["old"].append(w2)
    out = hw.mirror(w2, "Wrap(h=<Holder of another buffer>)")
    out += _holder_part_ok(hw, I.getattr(w2, "h"), hb, "Wrap(h=<Holder of another buffer>)")
    return out


def op_construct_with_nested(hw, st):
    I = hw.I
    Top = st["top"].cls
    t2 = I.call(Top, [], {"t": 0.5, "mid": st["mid2"], "second": st["leaf3"], "_buffer": hw.buf("A")})
    st["old"].append(t2)
    out = hw.mirror(t2, "Top(mid=<Mid of another buffer>, second=<Leaf>)")
    if I.getattr(t2, "mid") is st["mid2"] or I.getattr(t2, "second") is st["leaf3"]:
        out.append("Top(mid=..., second=...): a by-value field IS the object passed in")
    return out


def op_ref_null(hw, st):
    """the reference is cleared: the attribute must be None afterwards, whatever it showed before"""
    I = hw.I
    out = []
    for name in ("holder", "holderB"):
        h = st[name]
        I.setattr(h, "r", None)
        if I.getattr(h, "r") is not None:
            out.append(f"{name}.r = None: the attribute still shows {I.getattr(h, 'r')!r}")
        if I.getattr(h.attrs["_xobject"], "r") is not None:
            out.append(f"{name}.r = None: the stored reference is not null")
    return out


def op_ref_plain_data(hw, st):
    """plain data assigned to a reference field: a new referent is made in the holder's buffer; the attribute must
    show that object, not the dressed object assigned before"""
    I = hw.I
    h = st["holder"]
    I.setattr(h, "r", {"x": 2.75})
    out = []
    sv = I.getattr(h.attrs["_xobject"], "r")
    if sv is None:
        out.append("holder.r = {...}: the stored reference is null")
    return out


def op_ref_same_nested(hw, st):
    """the reference field of a NESTED part is bound: wrap.h.r = <Leaf of wrap's buffer>"""
    I = hw.I
    part, leaf = I.getattr(st["wrap"], "h"), st["leaf3"]
    if hw.loc(leaf.attrs["_xobject"])[0] is not hw.loc(st["wrap"].attrs["_xobject"])[0]:
        return []  # an earlier move took leaf3 elsewhere: nothing to do here (refusals are ref-foreign's matter)
    I.setattr(part, "r", leaf)
    out = []
    if I.getattr(I.getattr(st["wrap"], "h"), "r") is not leaf:
        out.append("wrap.h.r = <Leaf of the same buffer>: the attribute is not the assigned object (a reference shares it)")
    st["leaf3_referenced"] = True
    return out


def op_assign_plain_nested(hw, st):
    """plain data assigned to a nested part that has a reference field, the reference cleared by the data:
    wrap.h = {k: 7, r: None}; the part's reference attribute must show None whatever it showed before (seeded C18-e
    skipped the re-dressing of fixed-size parts, whose cached referent then survived)"""
    I = hw.I
    I.setattr(st["wrap"], "h", {"k": 7.0, "r": None})
    out = []
    part = I.getattr(st["wrap"], "h")
    if I.getattr(part.attrs["_xobject"], "r") is not None:
        out.append("wrap.h = {k: 7, r: None}: the stored reference is not null")
    if I.getattr(part, "r") is not None:
        out.append(f"wrap.h = {{k: 7, r: None}}: wrap.h.r still shows {I.getattr(part, 'r')!r} although the stored reference is null")
    if I.getattr(part, "k") != 7.0:
        out.append(f"wrap.h = {{k: 7, r: None}}: wrap.h.k reads {I.getattr(part, 'k')!r}")
    return out


def op_assign_raw_struct(hw, st):
    """a plain struct object (not dressed) of the same size but with its dynamic parts split differently is
    assigned to a nested field: the dressed part must follow the new layout"""
    I = hw.I
    z = st["zoo"]
    XS = I.getattr(z["DynLeaf"], "_XoStruct")
    cur_a = hw_len(hw, I.getattr(I.getattr(st["dyn"], "part"), "a"))
    new_a, new_b = ([4.0, 5.0, 6.0], [7.0]) if cur_a == 1 else ([8.0], [9.0, 10.0, 11.0])
    raw = I.call(XS, [], {"n": 2.0, "a": new_a, "b": new_b, "_buffer": hw.buf("B")})
    I.setattr(st["dyn"], "part", raw)
    out = []
    part = I.getattr(st["dyn"], "part")
    for fn, want in (("a", new_a), ("b", new_b)):
        v = I.getattr(part, fn)
        if not (isinstance(v, Obj) and v.kind == "nplike") or tuple(v.attrs["shape"]) != (len(want),):
            out.append(f"dyn.part = <raw struct with a={new_a}, b={new_b}>: dyn.part.{fn} has shape {v.attrs.get('shape') if isinstance(v, Obj) else v!r}, the buffer data have {len(want)} items")
    return out


def hw_len(hw, view):
    return int(view.attrs["shape"][0]) if isinstance(view, Obj) and view.kind == "nplike" else -1


def op_grow(hw, st):
    """buffer A runs out of room and grows: its storage is replaced (every view handed out before is stale)"""
    hw.epoch[hw.buf("A").name] += 1
    return []


def op_set_array(hw, st):
    I = hw.I
    out = []
    leaf = I.getattr(I.getattr(st["top"], "mid"), "leaf")
    for h, name in ((leaf, "top.mid.leaf"), (st["leaf3"], "leaf3")):
        xo = h.attrs["_xobject"]
        av = I.getattr(xo, "data")
        want = pol(av.attrs["_offset"]) + pol(I.getattr(av, "_data_offset"))
        hl = hw.loc(xo)
        n0 = len(I.effects)
        I.setattr(h, "data", [1.5, 2.5, 3.5])
        w = [e for e in I.effects[n0:] if e.kind in WRITE_KINDS + ("view_write",)]
        ok = len(w) >= 1 and all((e.kind == "view_write" and e.buf is hl[0] and e.pos == want and e.epoch == hw.epoch[hl[0].name]) or (e.kind != "view_write" and e.buf is hl[0]) for e in w)
        if not ok:
            out.append(f"{name}.data = [...] writes {[(e.kind, getattr(e.buf, 'name', '?'), repr(getattr(e, 'pos', '')), getattr(e, 'epoch', '')) for e in w]}; the array data is at {hl[0].name}+{want!r}, storage epoch {hw.epoch[hl[0].name]}")
    return out


def op_state_roundtrip(hw, st):
    """__getstate__ / __setstate__ (what pickle calls, with the buffer object carried by reference inside one
    pickle): the restored handle views the same place of the same buffer and is fully dressed"""
    I = hw.I
    out = []
    for name in ("top", "holder", "wrap"):
        h = st[name]
        state = I.call(I.getattr(h, "__getstate__"), [], {})
        new = Obj("instance", {}, cls=h.cls)
        n0 = len(I.effects)
        I.call(I.getattr(new, "__setstate__"), [state], {})
        if _writes(I.effects[n0:]) or any(e.kind == "alloc" for e in I.effects[n0:]):
            out.append(f"{name}: restoring the state writes / allocates")
        a, b = hw.loc(h.attrs["_xobject"]), hw.loc(new.attrs["_xobject"]) if isinstance(new.attrs.get("_xobject"), Obj) else (None, None)
        if b[0] is not a[0] or b[1] != a[1]:
            out.append(f"{name}: the restored handle views {hw.locs(b) if b[0] is not None else 'nothing'}, the pickled one {hw.locs(a)}")
        out.extend(hw.mirror(new, f"restored({name})"))
        st["old"].append(new)
    return out


OPS = {
    "ref-null": op_ref_null,
    "ref-plain-data": op_ref_plain_data,
    "assign-raw-struct": op_assign_raw_struct,
    "ref-same-nested": op_ref_same_nested,
    "assign-plain-nested": op_assign_plain_nested,
    "grow-buffer": op_grow,
    "set-array": op_set_array,
    "state-roundtrip": op_state_roundtrip,
    "assign-holder": op_assign_holder,
    "construct-with-dressed": op_construct_with_dressed,
    "construct-with-nested": op_construct_with_nested,
    "set-scalars": op_set_scalar,
    "assign-foreign": op_assign_foreign,
    "assign-same-buffer": op_assign_same_buffer,
    "assign-foreign-same-offset": op_assign_foreign_same_offset,
    "assign-self": op_assign_self,
    "assign-deep": op_assign_deep,
    "assign-from-part": op_assign_from_part,
    "copy": op_copy,
    "copy-holder": op_copy_holder,
    "move-top": op_move_top,
    "move-nested": op_move_nested,
    "move-standalone": op_move_standalone,
    "ref-same": op_ref_same,
    "move-wrap": op_move_wrap,
    "ref-foreign": op_ref_foreign,
    "move-holder": op_move_holder,
    "move-referent": op_move_referent,
}


def run_history(model, hist):
    """-> (list of (step index, op, discrepancy), analysis error text or None)"""
    hw = HyWorld(model)
    I = hw.I
    found = []

    def thunk():
        z = hw.zoo()
        st = {"old": []}
        st["top"] = I.call(z["Top"], [], {"t": 1.5, "_buffer": hw.buf("A")})
        st["mid2"] = I.call(z["Mid"], [], {"m": 2.5, "_buffer": hw.buf("B")})
        st["leaf3"] = I.call(z["Leaf"], [], {"x": 4.5, "why": 4, "_buffer": hw.buf("A")})
        st["leafB"] = I.call(z["Leaf"], [], {"x": 5.5, "_buffer": hw.buf("B")})
        st["holder"] = I.call(z["Holder"], [], {"k": 6.5, "_buffer": hw.buf("A")})
        st["holderB"] = I.call(z["Holder"], [], {"k": 7.5, "_buffer": hw.buf("B")})
        I.setattr(st["holderB"], "r", st["leafB"])
        st["wrap"] = I.call(z["Wrap"], [], {"w": 8.5, "_buffer": hw.buf("A")})
        st["dyn"] = I.call(z["DynTop"], [], {"t": 9.5, "part": {"n": 1.0, "a": [1.0], "b": [1.0, 2.0, 3.0]}, "_buffer": hw.buf("A")})
        st["zoo"] = z

        held = {}

        def invariants(k, opn):
            for name in ("top", "mid2", "leaf3", "leafB", "holder", "holderB", "wrap", "dyn"):
                for b in hw.mirror(st[name], name):
                    found.append((k, opn, b))
                # relocation: only `move` takes an object the user holds to another place; after any other operation
                # every held object still views the bytes it viewed (seeded C08-f re-dressed the user's own handle of
                # the OLD referent from the new one when plain data were assigned to a reference field)
                xo_ = st[name].attrs.get("_xobject")
                if isinstance(xo_, Obj) and "_buffer" in xo_.attrs:
                    now = hw.loc(xo_)
                    was = held.get(name)
                    if was is not None and was[2] is st[name] and (now[0] is not was[0] or now[1] != was[1]) and not opn.startswith("move"):
                        found.append((k, opn, f"the object `{name}` the user holds viewed {hw.locs(was[:2])} before the operation and views {hw.locs(now)} after it: only move() relocates an object; reads and writes through this handle now reach another object's bytes"))
                    held[name] = (now[0], now[1], st[name])
            for j, c in enumerate(st["old"]):
                for b in hw.mirror(c, f"copy#{j}"):
                    found.append((k, opn, b))

        for name, attr, val in (("top", "t", 1.5), ("mid2", "m", 2.5), ("leaf3", "x", 4.5), ("leaf3", "why", 4), ("leafB", "x", 5.5), ("holder", "k", 6.5), ("wrap", "w", 8.5)):
            got = I.getattr(st[name], attr)
            if got != val:
                found.append((-1, "construct", f"{name} was constructed with {attr}={val!r} and reads {got!r}"))
        invariants(-1, "construct")
        for k, opn in enumerate(hist):
            try:
                for b in OPS[opn](hw, st):
                    found.append((k, opn, b))
            except PyExc as e:
                found.append((k, opn, f"raises {e.etype}: {e}"))
                break
            except _Bad as e:
                found.append((k, opn, str(e)))
                break
            invariants(k, opn)
            if found:
                break

    try:
        res = I.explore(thunk, max_paths=16)
    except AnalysisError as e:
        return found, f"{e}"
    except _Bad as e:
        return found, f"{e}"
    if len(res) != 1:
        # the only forks accepted are "does an offset in one buffer equal an offset in another": both outcomes are
        # possible layouts, every path is a real execution and a discrepancy on any of them counts
        import re as _re

        coincidence = lambda conds: conds and all(_re.fullmatch(r"(not \()?[-+ 0-9]*off\d*[-+ 0-9]* (==|!=) [-+ 0-9]*off\d*[-+ 0-9]*\)?", t) for t, _v in conds)
        if not all(coincidence(r["conds"]) for r in res if r["conds"]) or sum(1 for r in res if not r["conds"]) > 1:
            return found, f"{len(res)} evaluation paths (an undecided condition) in history {hist}: {[r['conds'][:2] for r in res][:2]}"
    for r in res:
        if r["exc"] is not None:
            return found, f"history {hist}: construction raises {r['exc'].etype}: {r['exc']}"
    seen, uniq = set(), []
    for f in found:
        if f not in seen:
            seen.add(f)
            uniq.append(f)
    return uniq, None


_MODEL_CACHE = {}


def _model(root):
    from ..srcmodel import Model

    if root not in _MODEL_CACHE:
        _MODEL_CACHE.clear()
        _MODEL_CACHE[root] = Model(root)
    return _MODEL_CACHE[root]


def _worker(args):
    root, hists = args
    model = _model(root)
    out = []
    for h in hists:
        f, err = run_history(model, h)
        out.append((h, f, err))
    return out


def histories(maxlen):
    names = list(OPS)
    for n in range(1, maxlen + 1):
        yield from itertools.product(names, repeat=n)


def _anchor(o):
    if o.startswith(("assign", "ref", "set")):
        return "hybrid_class::_FieldOfDressed.__set__"
    if o.startswith("construct"):
        return "hybrid_class::HybridClass.xoinitialize"
    if o == "state-roundtrip":
        return "hybrid_class::HybridClass.__setstate__"
    return "hybrid_class::HybridClass." + ("copy" if o.startswith("copy") else "move")


@rule("HV", ["C18", "C20", "C09", "C08"], "hybrid objects mirror their buffer data after every history of {set field, nested assignment, reference assignment, copy, move}")
def hv(cx):
    m = cx.m
    for _mod in ('hybrid_class', 'struct', 'array', 'ref', 'string', 'scalar', 'typeutils'):
        m.mod(_mod)  # interpreted by the worker processes: recorded as consulted
    for q in ("hybrid_class::_FieldOfDressed.__set__", "hybrid_class::_FieldOfDressed.__get__", "hybrid_class::HybridClass.move", "hybrid_class::HybridClass.copy", "hybrid_class::HybridClass._reinit_from_xobject", "hybrid_class::MetaHybridClass.__new__"):
        m.func(q)
    maxlen = 3 if cx.tier == "thorough" else 2
    hs = list(histories(maxlen))
    # C18 is decided on every history; for C20 / C09 the quick tier keeps the histories that end in the operation the
    # property is about (state round trip / copies and by-value assignments), after any first step
    focus = {"C08": ("ref-same", "ref-foreign", "ref-null", "ref-plain-data", "ref-same-nested", "assign-plain-nested", "assign-holder", "construct-with-dressed", "copy-holder", "move-holder", "move-wrap", "move-referent"),
             "C20": ("state-roundtrip",), "C09": ("copy", "copy-holder", "construct-with-nested", "construct-with-dressed", "assign-foreign", "assign-holder")}.get(cx.prop)
    if focus and cx.tier != "thorough":
        hs = [h for h in hs if h[-1] in focus]
        cx.partial = True
    results = []
    if len(hs) > 60:
        from concurrent.futures import ProcessPoolExecutor

        jobs = int(os.environ.get("XOVERIF_JOBS", min(16, os.cpu_count() or 1)))
        chunks = [hs[i::jobs * 4] for i in range(jobs * 4)]
        with ProcessPoolExecutor(max_workers=jobs) as ex:
            for part in ex.map(_worker, [(m.root, c) for c in chunks if c]):
                results.extend(part)
    else:
        for h in hs:
            f, err = run_history(m, h)
            results.append((h, f, err))
    errs = [(h, e) for h, f, e in results if e]
    if errs:
        cx.recog(False, None, f"HV: {len(errs)} histories cannot be evaluated, first {errs[0][0]}: {errs[0][1]}")
    # one instance per operation (as last step), listing the shortest failing history
    by_op = {o: [] for o in OPS}
    cons = [(h, f) for h, f, e in results if f and f[0][1] == "construct"]
    cx.check(not cons, None, construct="construction of the class zoo (keyword values incl. a renamed field)", detail="every constructed object reads the values it was given and mirrors its buffer data",
             bad_detail=cons[0][1][0][2] if cons else "", anchor="hybrid_class::HybridClass.xoinitialize", sub="construct")
    results = [(h, f, e) for h, f, e in results if not (f and f[0][1] == "construct")] if cons else results
    n_ok = 0
    for h, f, e in results:
        if f:
            k, opn, b = f[0]
            by_op[opn if opn in by_op else h[-1]].append((len(h), h, k, b))
        else:
            n_ok += 1
    for o in OPS:
        n_with = sum(1 for h, f, e in results if o in h)
        if not n_with:
            continue
        fails = sorted(by_op[o], key=lambda t: (t[0], t[1]))
        if fails:
            ln, h, k, b = fails[0]
            cx.bad(None, construct=f"history {' ; '.join(h)} (step {k + 1}: {o})", detail=f"{b}  [{len(fails)} of the {n_with} histories with this operation fail at it]", anchor=_anchor(o), sub=o)
        else:
            cx.ok(None, construct=f"{o}: {n_with} histories of length <= {maxlen} containing it", detail="mirror invariant on every live handle after every step; operation postcondition", anchor=_anchor(o), sub=o)
    cx.need(len(results) >= len(OPS), f"only {len(results)} histories evaluated")
    cx.note(None, detail=f"{len(results)} histories of length <= {maxlen} over {len(OPS)} operations evaluated, {n_ok} without discrepancy")


# ------------------------------------------------------------------------------------------ JD dictionary round trip
LEAVES = [("t",), ("u",), ("mid", "m"), ("mid", "blatt", "x"), ("mid", "blatt", "why"), ("mid", "blatt", "z"), ("second", "x"), ("second", "why"), ("second", "z")]
DEFAULTS = {"t": 2.5, "u": 0.0, "m": 0.5, "x": 0.0, "why": 3, "z": 1.25}
OTHER = {"t": 4.0, "u": 7.5, "m": 8.0, "x": 9.5, "why": 11, "z": 6.25}
# values that differ from the declared default by a rounding-sized amount only (they are NOT the default)
NEAR = {"t": 2.5 * (1 + 2e-6), "u": 3e-9, "m": 0.5 + 1e-9, "x": -2e-9, "why": 4, "z": 1.25 * (1 + 1e-6)}


# array-valued fields of Top: (python name, kind, declared default, another value)
ARRAYS = [("grid", "static Float64[2,3]", [[0.0, 0.0, 0.0], [0.0, 0.0, 0.0]], [[1.0, 2.0, 3.0], [4.0, 5.0, 6.0]]),
          ("vec", "static Float64[3]", [0.0, 0.0, 0.0], [0.0, 0.0, 7.0]),
          ("dyn", "Float64[:] with default [1, 2]", [1.0, 2.0], [1.0, 2.0, 3.0]),
          ("dyn0", "Float64[:] without default", None, [5.0]),
          ("label", "String with default 'abc'", "abc", "wxyz")]


def _jd_zoo(hw):
    I = hw.I
    F = I.global_lookup("scalar", "Float64")
    I64 = I.global_lookup("scalar", "Int64")
    Field = I.global_lookup("struct", "Field")
    from ..peval import Builtin

    Leaf = hw.mkclass("Leaf", {"x": F, "y": I.call(Field, [I64], {"default": 3}), "z": I.call(Field, [F], {"default_factory": Builtin("factory", lambda: 1.25)})}, {"_rename": {"y": "why"}})
    Mid = hw.mkclass("Mid", {"m": I.call(Field, [F], {"default": 0.5}), "leaf": Leaf}, {"_rename": {"leaf": "blatt"}})
    ArrF = hw.lab.array("ArrNFloat64", [None], (0,), F)
    fields = {"t": I.call(Field, [F], {"default": 2.5}), "u": F, "mid": Mid, "leaf2": Leaf,
              "grid": hw.lab.array("Arr2x3Float64", [2, 3], (0, 1), F), "vec": hw.lab.array("Arr3Float64", [3], (0,), F),
              "dyn": I.call(Field, [ArrF], {"default": [1.0, 2.0]}), "dyn0": ArrF,
              "label": I.call(Field, [I.global_lookup("string", "String")], {"default": "abc"})}
    Top = hw.mkclass("Top", fields, {"_rename": {"leaf2": "second"}})
    return Top


def _nested_list(v):
    from ..peval import SArr

    if isinstance(v, SArr):
        if v.ndim == 1:
            return [v.data.get((i,)) for i in range(v.shape[0])]
        return [[v.data.get((i, j)) for j in range(v.shape[1])] for i in range(v.shape[0])]
    return v


def run_roundtrip(model, choice, achoice=None):
    """choice: tuple of booleans per LEAVES entry (True = a value other than the declared default); achoice: the same
    per ARRAYS entry.  -> (discrepancies, analysis error or None)"""
    hw = HyWorld(model)
    I = hw.I
    hw.numeric_views = True
    achoice = achoice if achoice is not None else tuple([False] * len(ARRAYS))
    hw.W.copy_bytes = True
    I.modglobals.setdefault("typeutils", {})["context_default"] = hw.default_context()
    found = []

    def walk(h, path):
        for p in path[:-1]:
            h = I.getattr(h, p)
        return h

    def thunk():
        Top = _jd_zoo(hw)
        akw, awant = {}, {}
        for (nm, kind, dflt, other), oth in zip(ARRAYS, achoice):
            val = other if oth else dflt
            if val is None:
                val = []  # no declared default: an empty array
            awant[nm] = val
            if oth or dflt is None:
                akw[nm] = val if isinstance(val, str) else [list(r) for r in val] if val and isinstance(val[0], list) else list(val)
        top = I.call(Top, [], dict(akw, _buffer=hw.buf("A")))
        want = {}
        for leaf, other in zip(LEAVES, choice):
            v = (NEAR if other == 2 else OTHER if other else DEFAULTS)[leaf[-1]]
            want[leaf] = v
            I.setattr(walk(top, leaf), leaf[-1], v)
        n0_ = len(I.effects)
        try:
            d = I.call(I.getattr(top, "to_dict"), [], {})
        except PyExc as e:
            held = {a[0]: awant[a[0]] for a in ARRAYS}
            found.append(f"to_dict: array field grid / dyn / dyn0 : to_dict() raises {e.etype}: {e.msg} (array fields hold {held})")
            return
        # the dictionary must not alias memory that to_dict gave back to the allocator (the next allocation -- e.g. the
        # next to_dict -- overwrites what such an entry shows: seeded C19-g)
        freed = [(e_.buf, pol(e_.args[0]), pol(e_.args[1])) for e_ in I.effects[n0_:] if e_.kind == "free" and len(e_.args) >= 2]

        def entries(x, path):
            from ..peval import SArr as _SA

            if isinstance(x, dict):
                for k_, v_ in x.items():
                    yield from entries(v_, path + [str(k_)])
            elif isinstance(x, _SA) and getattr(x, "origin", None) is not None:
                yield ".".join(path), x.origin
        for nm_, (ob, op, on) in entries(d, []):
            for fb, fp, fn_ in freed:
                dlt = op - fp
                if ob is fb and dlt.is_const() and fn_.is_const() and -on < dlt.const_value() < fn_.const_value():
                    found.append(f"to_dict: the entry `{nm_}` is a view of {ob.name}+{op!r}, inside the region {fb.name}+{fp!r} ({fn_!r} bytes) that to_dict freed before returning: the next allocation in that buffer overwrites what the dictionary shows")
        # elision: a scalar is in the dictionary iff it differs from its declared default
        for leaf, other in zip(LEAVES, choice):
            dd = d
            for p in leaf[:-1]:
                dd = dd.get(p) if isinstance(dd, dict) else None
            if not isinstance(dd, dict):
                found.append(f"to_dict: no dictionary for the nested object {'.'.join(leaf[:-1])}")
                continue
            if other and (leaf[-1] not in dd or dd[leaf[-1]] != want[leaf]):
                found.append(f"to_dict: {'.'.join(leaf)} = {want[leaf]!r} (declared default {DEFAULTS[leaf[-1]]!r}) is stored as {dd.get(leaf[-1], '<absent>')!r}")
            if not other and leaf[-1] in dd:
                found.append(f"to_dict: {'.'.join(leaf)} equals its declared default {DEFAULTS[leaf[-1]]!r} but is stored ({dd[leaf[-1]]!r})")
        for (nm, kind, dflt, other), oth in zip(ARRAYS, achoice):
            stored = nm in d
            is_default = dflt is not None and not oth
            if stored == is_default:
                found.append(f"to_dict: array field {nm} ({kind}) holds {awant[nm]} and is {'stored although it equals its declared default' if stored else 'left out although it differs from its declared default (or has none)'}")
            elif stored and _nested_list(d[nm]) != awant[nm]:
                found.append(f"to_dict: array field {nm} is stored as {_nested_list(d[nm])!r}, it holds {awant[nm]!r}")
        # the source must be untouched by to_dict
        for leaf in LEAVES:
            got = I.getattr(walk(top, leaf), leaf[-1])
            if got != want[leaf]:
                found.append(f"to_dict changed the object: {'.'.join(leaf)} reads {got!r}, was {want[leaf]!r}")
        try:
            re = I.call(I.getattr(Top, "from_dict"), [d], {"_buffer": hw.buf("B")})
        except PyExc as e:
            found.append(f"from_dict(to_dict()) raises {e.etype}: {e.msg} (dictionary {d!r})")
            return
        if not (isinstance(re, Obj) and re.cls is Top):
            found.append(f"from_dict gives {re!r}")
            return
        for leaf in LEAVES:
            got = I.getattr(walk(re, leaf), leaf[-1])
            if got != want[leaf]:
                found.append(f"from_dict(to_dict()): {'.'.join(leaf)} is {got!r} in the rebuilt object, {want[leaf]!r} in the original (dictionary: {d!r})")
        for nm, val in awant.items():
            got = _nested_list(I.getattr(re, nm))
            if got != val:
                found.append(f"from_dict(to_dict()): array field {nm} is {got!r} in the rebuilt object, {val!r} in the original (dictionary entry: {_nested_list(d.get(nm, '<absent>'))!r})")

    try:
        res = I.explore(thunk, max_paths=4)
    except (AnalysisError, _Bad) as e:
        return found, str(e)
    if len(res) != 1:
        return found, f"{len(res)} evaluation paths (an undecided condition): {res[0]['conds'][:2]}"
    if res[0]["exc"] is not None:
        return found, f"raises {res[0]['exc'].etype}: {res[0]['exc']}"
    return found, None


def run_inheritance(model):
    """a subclass re-declaring a default, serialised AFTER an object of its base class: the elision must compare with
    the subclass's own declared defaults (seeded C19-c memoised the table of defaults on the class with a lookup that
    follows inheritance).  -> (discrepancies, analysis error or None)"""
    hw = HyWorld(model)
    I = hw.I
    hw.numeric_views = True
    hw.W.copy_bytes = True
    I.modglobals.setdefault("typeutils", {})["context_default"] = hw.default_context()
    found = []

    def thunk():
        F = I.global_lookup("scalar", "Float64")
        I64 = I.global_lookup("scalar", "Int64")
        Field = I.global_lookup("struct", "Field")
        from ..peval import Builtin

        Base = hw.mkclass("Base", {"k": F, "order": I.call(Field, [I64], {"default": 1}), "model": I.call(Field, [I64], {"default_factory": Builtin("f3", lambda: 3)})})
        Sub = hw.mkclass("Sub", {"k": F, "order": I.call(Field, [I64], {"default": 5}), "model": I.call(Field, [I64], {"default_factory": Builtin("f7", lambda: 7)}), "slices": I.call(Field, [I64], {"default": 10})}, bases=(Base,))
        b = I.call(Base, [], {"k": 1.5, "_buffer": hw.buf("A")})
        db = I.call(I.getattr(b, "to_dict"), [], {})
        if set(db) - {"__class__", "k"}:
            found.append(f"Base(): fields equal to their declared defaults are stored: {db!r}")
        for label, kw, own in (("Sub with the BASE class's default values", {"order": 1, "model": 3}, {"order": 1, "model": 3, "slices": 10}), ("Sub with its own defaults", {}, {"order": 5, "model": 7, "slices": 10}),
                               ("Sub with other values", {"order": 2, "model": 4, "slices": 6}, {"order": 2, "model": 4, "slices": 6})):
            h = I.call(Sub, [], dict(kw, k=2.5, _buffer=hw.buf("A")))
            for nm, val in own.items():
                if I.getattr(h, nm) != val:
                    found.append(f"{label}: constructed with {kw} but {nm} reads {I.getattr(h, nm)!r} (own declared default / given value {val!r})")
            d = I.call(I.getattr(h, "to_dict"), [], {})
            dflt = {"order": 5, "model": 7, "slices": 10}
            for nm, val in own.items():
                if (nm in d) != (val != dflt[nm]):
                    found.append(f"{label}: {nm} = {val!r} (declared default of Sub: {dflt[nm]!r}) is {'stored' if nm in d else 'left out'}: {d!r}")
            re = I.call(I.getattr(Sub, "from_dict"), [d], {"_buffer": hw.buf("B")})
            for nm, val in dict(own, k=2.5).items():
                got = I.getattr(re, nm)
                if got != val:
                    found.append(f"{label}: from_dict(to_dict()) has {nm} = {got!r}, the original {val!r} (dictionary {d!r})")

    try:
        res = I.explore(thunk, max_paths=4)
    except (AnalysisError, _Bad) as e:
        return found, str(e)
    if len(res) != 1:
        return found, f"{len(res)} evaluation paths (an undecided condition): {res[0]['conds'][:2]}"
    if res[0]["exc"] is not None:
        return found, f"raises {res[0]['exc'].etype}: {res[0]['exc']}"
    return found, None


def _rt_worker(args):
    root, choices = args
    model = _model(root)
    return [(c,) + run_roundtrip(model, c[0], c[1]) for c in choices]


def roundtrip_choices(tier):
    n, na = len(LEAVES), len(ARRAYS)
    allA = list(itertools.product((False, True), repeat=na))
    if tier == "thorough":
        sc = list(itertools.product((False, True), repeat=n)) + [tuple(2 if (m_ >> i) & 1 else 0 for i in range(n)) for m_ in range(1, 1 << n)]
        return [(c, allA[k % len(allA)]) for k, c in enumerate(sc)] + [(tuple([False] * n), a) for a in allA] + [(tuple([True] * n), a) for a in allA]
    out = [tuple([False] * n), tuple([True] * n)]
    for k in range(n):
        out.append(tuple(i == k for i in range(n)))
        out.append(tuple(i != k for i in range(n)))
    res = [(c, allA[k % len(allA)]) for k, c in enumerate(out)]
    res += [(tuple([False] * n), a) for a in allA]
    res += [(tuple([2] * n), allA[0])] + [(tuple(2 if i == k else 0 for i in range(n)), allA[0]) for k in range(n)]
    return res


@rule("JD", ["C19"], "hybrid from_dict(to_dict()) rebuilds every field value (nested, renamed, default / default-factory fields), defaults elided")
def jd(cx):
    """evaluated: Top{t=2.5 default, u, mid: Mid{m=0.5 default, blatt<-leaf: Leaf}, second<-leaf2: Leaf} with
    Leaf{x, why<-y default 3, z default_factory 1.25}; every scalar is set either to its declared default or to another
    value (quick: all/none/each one alone/all but one; thorough: all 2^9 combinations); to_dict() must store exactly the
    scalars that differ from their declared default, leave the object unchanged, and from_dict() of that dictionary
    must give an object whose every scalar reads the original's value."""
    m = cx.m
    for _mod in ('hybrid_class', 'struct', 'array', 'ref', 'string', 'scalar', 'typeutils'):
        m.mod(_mod)  # interpreted by the worker processes: recorded as consulted
    for q in ("hybrid_class::HybridClass.to_dict", "hybrid_class::HybridClass.from_dict", "hybrid_class::HybridClass.xoinitialize", "struct::Field.get_default", "struct::Field.value_from_args"):
        m.func(q)
    cs = roundtrip_choices(cx.tier)
    from concurrent.futures import ProcessPoolExecutor

    jobs = int(os.environ.get("XOVERIF_JOBS", min(16, os.cpu_count() or 1)))
    chunks = [cs[i::jobs * 2] for i in range(jobs * 2)]
    results = []
    with ProcessPoolExecutor(max_workers=jobs) as ex:
        for part in ex.map(_rt_worker, [(m.root, c) for c in chunks if c]):
            results.extend(part)
    errs = [(c, e) for c, f, e in results if e]
    if errs:
        cx.recog(False, None, f"JD: {len(errs)} value assignments cannot be evaluated, first {errs[0][0]}: {errs[0][1]}")
    # one instance per leaf: assignments in which that leaf is the (first) one reported
    per = {leaf: [] for leaf in LEAVES}
    aper = {a[0]: [] for a in ARRAYS}
    other_fail = []
    for (c, ac), f, e in results:
        for b in f[:1]:
            ahit = [a[0] for a in ARRAYS if f"array field {a[0]} " in b]
            hit = [leaf for leaf in sorted(LEAVES, key=lambda l: -len(".".join(l))) if (" " + ".".join(leaf) + " ") in b]
            if ahit:
                aper[ahit[0]].append((sum(ac), ac, b))
            else:
                (per[hit[0]] if hit else other_fail).append((sum(c), c, b))
    for nm, kind, dflt, other in ARRAYS:
        fails = sorted(aper[nm], key=lambda t: (t[0], t[1]))
        if fails:
            cx.bad(None, construct=f"Top.{nm} ({kind}); arrays holding another value than their default: {[a[0] for a, o in zip(ARRAYS, fails[0][1]) if o]}", detail=f"{fails[0][2]}  [{len(fails)} of {len(results)} value assignments]", anchor="hybrid_class::HybridClass.to_dict", sub="roundtrip.array")
        else:
            cx.ok(None, construct=f"Top.{nm} ({kind}): {len(results)} value assignments", detail="stored iff it differs from its declared default (always when it has none); rebuilt with the original's items", anchor="hybrid_class::HybridClass.to_dict", sub="roundtrip.array")
    for leaf in LEAVES:
        fails = sorted(per[leaf], key=lambda t: (t[0], t[1]))
        name = ".".join(leaf)
        if fails:
            cx.bad(None, construct=f"Top.{name}: values other than default at {[('.'.join(l)) for l, o in zip(LEAVES, fails[0][1]) if o]}", detail=f"{fails[0][2]}  [{len(fails)} of {len(results)} value assignments]", anchor="hybrid_class::HybridClass.to_dict", sub="roundtrip")
        else:
            cx.ok(None, construct=f"Top.{name}: {len(results)} value assignments", detail="stored iff it differs from its declared default; rebuilt with the original's value", anchor="hybrid_class::HybridClass.to_dict", sub="roundtrip")
    for n_, c, b in sorted(other_fail)[:3]:
        cx.bad(None, construct=f"values other than default at {[('.'.join(l)) for l, o in zip(LEAVES, c) if o]}", detail=b, anchor="hybrid_class::HybridClass.from_dict", sub="roundtrip")
    cx.need(len(results) >= 20, f"only {len(results)} value assignments evaluated")
    fi, ei = run_inheritance(m)
    cx.recog(ei is None, None, f"JD inheritance scenario cannot be evaluated: {ei}")
    cx.check(not fi, None, construct="Base{order=1, model=f()->3}; Sub(Base) re-declares order=5, model=f()->7, slices=10; Base() serialised first, then three Sub objects round-tripped", detail="the elision compares with the class's OWN declared defaults",
             bad_detail=fi[0] if fi else "", anchor="hybrid_class::HybridClass.to_dict", sub="inheritance")


# ------------------------------------------------------------------------------------------ HX single scenarios
def _scenario(model, body):
    """evaluate `body(hw, found)` in a fresh world -> (discrepancies, analysis error or None)"""
    hw = HyWorld(model)
    I = hw.I
    hw.numeric_views = body is not _sc_field_table  # (that scenario observes array attributes as views)
    hw.W.copy_bytes = True
    I.modglobals.setdefault("typeutils", {})["context_default"] = hw.default_context()
    found = []
    try:
        res = I.explore(lambda: body(hw, found), max_paths=4)
    except (AnalysisError, _Bad) as e:
        return found, str(e)
    if len(res) != 1:
        return found, f"{len(res)} evaluation paths (an undecided condition): {res[0]['conds'][:2]}"
    if res[0]["exc"] is not None:
        return found, f"raises {res[0]['exc'].etype}: {res[0]['exc']}"
    return found, None


def _sc_struct_array(hw, found):
    """a hybrid class with an array of STRUCTS field (`ps: P[2]`, P{x: Float64}): to_dict() gives a dictionary and
    from_dict(to_dict()) rebuilds the items (PF60: the comparison with the declared default asked such an array for a
    numeric view and to_dict raised NotImplementedError)"""
    I = hw.I
    F = I.global_lookup("scalar", "Float64")
    I64 = I.global_lookup("scalar", "Int64")
    Pt = hw.lab.struct("P", [("x", F)])
    AP = hw.lab.array("Arr2P", [2], (0,), Pt)
    H = hw.mkclass("H", {"a": I64, "ps": AP})
    h = I.call(H, [], {"a": 1, "ps": [{"x": 1.5}, {"x": 2.5}], "_buffer": hw.buf("A")})
    try:
        d = I.call(I.getattr(h, "to_dict"), [], {})
    except PyExc as e:
        found.append(f"H(a=1, ps=[P(x=1.5), P(x=2.5)]).to_dict() raises {e.etype}: {e.msg}")
        return
    if not isinstance(d, dict) or "ps" not in d:
        found.append(f"to_dict() leaves the array of structs out: {d!r}")
        return
    try:
        h2 = I.call(I.getattr(H, "from_dict"), [d], {"_buffer": hw.buf("B")})
        got = [I.getattr(I.call(I.getattr(I.getattr(h2, "ps"), "__getitem__"), [k], {}), "x") for k in range(2)]
    except PyExc as e:
        found.append(f"from_dict(to_dict()) raises {e.etype}: {e.msg}")
        return
    if got != [1.5, 2.5]:
        found.append(f"from_dict(to_dict()).ps reads x = {got!r}, the original [1.5, 2.5]")
    # a fixed-shape array of dynamically sized items (String[2]) has no default that can be built: to_dict must cope
    # (PF61: building it raised IndexError, which to_dict does not expect from a field without default)
    Str = I.global_lookup("string", "String")
    AS2 = hw.lab.array("Arr2String", [2], (0,), Str)
    H2 = hw.mkclass("H2", {"a": I64, "s": AS2})
    g = I.call(H2, [], {"a": 1, "s": ["ab", "cd"], "_buffer": hw.buf("A")})
    try:
        d2 = I.call(I.getattr(g, "to_dict"), [], {})
    except PyExc as e:
        found.append(f"H2(a=1, s=['ab', 'cd']) with s: String[2]: to_dict() raises {e.etype}: {e.msg}")
        return
    if not isinstance(d2, dict) or "s" not in d2:
        found.append(f"to_dict() leaves the String[2] field out: {d2!r}")


def _sc_field_table(hw, found):
    """class B reuses the field table of class A (`{'v': Float64[:], **A._xofields}`): A's objects, old and new, must
    read what they read before (PF57: the xo.Field objects were shared and B's layout written into them)"""
    I = hw.I
    F = I.global_lookup("scalar", "Float64")
    I64 = I.global_lookup("scalar", "Int64")
    Field = I.global_lookup("struct", "Field")
    fields = {"a": I.call(Field, [I64], {"default": 3}), "b": F}
    A = hw.mkclass("A", fields)
    a = I.call(A, [], {"b": 2.5, "_buffer": hw.buf("A")})
    before = (I.getattr(a, "a"), I.getattr(a, "b"))
    table = I.getattr(A, "_xofields") if I.hasattr(A, "_xofields") is True else fields
    if not isinstance(table, dict):
        table = fields
    ArrF = hw.lab.array("ArrNFloat64", [None], (0,), F)
    B = hw.mkclass("B", dict({"v": ArrF}, **table))
    after = (I.getattr(a, "a"), I.getattr(a, "b"))
    if before != (3, 2.5):
        found.append(f"A(b=2.5) reads a, b = {before!r} (declared default of a: 3)")
    if after != before:
        found.append(f"after `class B: _xofields = {{'v': Float64[:], **A._xofields}}` the existing A object reads a, b = {after!r}, before {before!r}")
    found.extend(hw.mirror(a, "a"))
    a2 = I.call(A, [], {"b": 2.5, "_buffer": hw.buf("A")})
    got = (I.getattr(a2, "a"), I.getattr(a2, "b"))
    if got != (3, 2.5):
        found.append(f"after class B reused A's field table, a new A(b=2.5) reads a, b = {got!r}")
    d = I.call(I.getattr(a2, "to_dict"), [], {})
    if "a" in d or d.get("b") != 2.5:
        found.append(f"after class B reused A's field table, A(b=2.5).to_dict() is {d!r}")
    b = I.call(B, [], {"v": [1.0, 2.0], "b": 4.5, "_buffer": hw.buf("A")})
    gb = (I.getattr(b, "a"), I.getattr(b, "b"))
    if gb != (3, 4.5):
        found.append(f"B(v=[1,2], b=4.5) reads a, b = {gb!r}")
    found.extend(hw.mirror(b, "b"))


def _sc_ref_dict(hw, found):
    """to_dict(copy_to_cpu=False) of an object whose reference field holds a hybrid object with a renamed field, then
    from_dict (PF56: the nested dictionary is keyed by python names)"""
    I = hw.I
    F = I.global_lookup("scalar", "Float64")
    I64 = I.global_lookup("scalar", "Int64")
    Ref = I.global_lookup("ref", "Ref")
    Inner = hw.mkclass("Inner", {"a": I64, "c": F}, {"_rename": {"a": "aa"}})
    Outer = hw.mkclass("Outer", {"r": I.call(Ref, [Inner], {}), "s": F})
    inner = I.call(Inner, [], {"aa": 5, "c": 1.5, "_buffer": hw.buf("A")})
    o = I.call(Outer, [], {"r": inner, "s": 3.0, "_buffer": hw.buf("A")})
    for kw in ({}, {"copy_to_cpu": False}):
        label = f"Outer(r=<Inner aa=5>, s=3).to_dict({', '.join(f'{k}={v}' for k, v in kw.items())})"
        try:
            d = I.call(I.getattr(o, "to_dict"), [], dict(kw))
        except PyExc as e:
            found.append(f"{label} raises {e.etype}: {e.msg}")
            continue
        try:
            re = I.call(I.getattr(Outer, "from_dict"), [d], {"_buffer": hw.buf("B")})
        except PyExc as e:
            found.append(f"from_dict of {label} raises {e.etype}: {e.msg} (dictionary {d!r})")
            continue
        r = I.getattr(re, "r")
        if r is None:
            found.append(f"from_dict of {label}: the rebuilt reference is null (dictionary {d!r})")
            continue
        rx = r.attrs.get("_xobject") if isinstance(r, Obj) and "_xobject" in r.attrs else r
        got = (I.getattr(rx, "a"), I.getattr(rx, "c"), I.getattr(re, "s"))
        if got != (5, 1.5, 3.0):
            found.append(f"from_dict of {label}: the rebuilt object has r.a, r.c, s = {got!r}, the original (5, 1.5, 3.0) (dictionary {d!r})")


def _sc_ctor_struct_name(hw, found):
    """the constructor accepts the STRUCT name of a renamed field as well: a hybrid object given for a reference field
    under that name must be shared when it lives in the same buffer and refused when it does not (PF55)"""
    I = hw.I
    F = I.global_lookup("scalar", "Float64")
    Ref = I.global_lookup("ref", "Ref")
    Leaf = hw.mkclass("Leaf", {"x": F})
    RH = hw.mkclass("RHolder", {"k": F, "r": I.call(Ref, [Leaf], {})}, {"_rename": {"r": "target"}})
    leafA = I.call(Leaf, [], {"x": 1.5, "_buffer": hw.buf("A")})
    leafB = I.call(Leaf, [], {"x": 2.5, "_buffer": hw.buf("B")})
    for name in ("target", "r"):
        which = "python name" if name == "target" else "struct name"
        h = I.call(RH, [], {"k": 0.5, name: leafA, "_buffer": hw.buf("A")})
        got = I.getattr(h, "target")
        if got is not leafA:
            found.append(f"RHolder({name}=<Leaf of the same buffer>) ({which}): the attribute `target` is {got!r}, not the object given (a reference shares it)")
        found.extend(hw.mirror(h, f"RHolder({name}=leafA)"))
        try:
            I.call(I.getattr(leafA, "move"), [], {"_buffer": hw.buf("B")})
            found.append(f"RHolder({name}=<Leaf>) ({which}): the shared object can still be moved away")
            return
        except PyExc:
            pass
        try:
            I.call(RH, [], {"k": 0.5, name: leafB, "_buffer": hw.buf("A")})
            found.append(f"RHolder({name}=<Leaf of ANOTHER buffer>, _buffer=A) ({which}) is accepted")
        except PyExc:
            pass


def _sc_neighbour_default(hw, found):
    """a field WITHOUT a declared default that cannot be built without arguments (String, Float64[:]) directly after a
    field that HAS one, holding a value equal to the neighbour's default: to_dict() must keep it -- a field is elided
    only against its OWN default, and from_dict cannot restore a field that has none (seeded C19-j: the default built
    for the previous field survived the failing get_default() of the next one)"""
    I = hw.I
    F = I.global_lookup("scalar", "Float64")
    I64 = I.global_lookup("scalar", "Int64")
    Str = I.global_lookup("string", "String")
    Field = I.global_lookup("struct", "Field")
    AF = hw.lab.array("ArrNFloat64", [None], (0,), F)
    A3 = hw.lab.array("Arr3Float64", [3], (0,), F)
    cases = (
        ("H1{unit: String = 'mm', label: String}", {"unit": I.call(Field, [Str], {"default": "mm"}), "label": Str}, {"unit": "mm", "label": "mm"}, "label", "mm"),
        ("H2{k: Int64, table: Float64[3], samples: Float64[:]}", {"k": I64, "table": A3, "samples": AF}, {"k": 1, "samples": [0.0, 0.0, 0.0]}, "samples", [0.0, 0.0, 0.0]),
    )
    for label, fields, kw, fname, want in cases:
        H = hw.mkclass(label.split("{")[0], fields)
        try:
            h = I.call(H, [], dict(kw, _buffer=hw.buf("A")))
            d = I.call(I.getattr(h, "to_dict"), [], {})
        except PyExc as e:
            found.append(f"{label}: to_dict() raises {e.etype}: {e.msg}")
            return
        if not isinstance(d, dict) or fname not in d:
            found.append(f"{label} with {fname} = {want!r} (equal to the default of the field before it): to_dict() leaves `{fname}` out ({sorted(k for k in d if k != '__class__')}), although the field has no default of its own -- from_dict cannot rebuild the object")
            return
        try:
            h2 = I.call(I.getattr(H, "from_dict"), [d], {"_buffer": hw.buf("B")})
            got = I.getattr(h2, fname)
        except PyExc as e:
            found.append(f"{label}: from_dict(to_dict()) raises {e.etype}: {e.msg}")
            return
        if isinstance(want, str) and got != want:
            found.append(f"{label}: from_dict(to_dict()).{fname} reads {got!r}, the original {want!r}")


SCENARIOS = {
    "dict-neighbour-default": (_sc_neighbour_default, "hybrid_class::HybridClass.to_dict", ["C19"]),
    "field-table-reuse": (_sc_field_table, "struct::MetaStruct.__new__", ["C18", "C19"]),
    "dict-array-of-structs": (_sc_struct_array, "hybrid_class::HybridClass.to_dict", ["C19"]),
    "ref-dict-renamed": (_sc_ref_dict, "hybrid_class::HybridClass._dict_with_xo_names", ["C19"]),
    "ctor-struct-name": (_sc_ctor_struct_name, "hybrid_class::HybridClass.xoinitialize", ["C18"]),
}


@rule("HX", ["C18", "C19"], "hybrid classes, single scenarios evaluated: a class reusing another's field table, a reference to a hybrid object with renamed fields through to_dict(copy_to_cpu=False)/from_dict, the constructor given the struct name of a renamed reference field")
def hx(cx):
    m = cx.m
    for _mod in ('hybrid_class', 'struct', 'array', 'ref', 'string', 'scalar', 'typeutils'):
        m.mod(_mod)
    n = 0
    for name, (body, anchor, props) in SCENARIOS.items():
        if cx.prop is not None and cx.prop not in props:
            continue
        m.func(anchor)
        f, e = _scenario(m, body)
        n += 1
        cx.recog(e is None, None, f"HX {name} cannot be evaluated: {e}")
        if e is None:
            cx.check(not f, None, construct=f"scenario {name}", detail=(body.__doc__ or "").split("(PF")[0].strip().replace("\n    ", " "), bad_detail=f[0] if f else "", anchor=anchor, sub=name)
    cx.need(n >= 1, "no HX scenario evaluated")
