"""Layout agreement by partial evaluation over class descriptors (DESIGN 4.0 L1, L2, L6; C02 T1-T3; C06 parity).

For every class descriptor of the bounded space the anchored functions of the *current source* are
evaluated by the checker's own interpreter (xoverif.peval) over an abstract memory: the metaclass, the
planner, the writer, the reader, the Python locators and the C accessor generator.  Results are
compared with each other and with the documented layout (xoverif/spec.py).  No repository code object
is created or called.
"""
import ast
import itertools

from ..absmem import P, World, key
from ..cexpr import CEval, comments, parse_body
from ..core import rule
from ..linear import Lin, Poly
from ..peval import Builtin, Effect, FloatSym, Obj, Opaque, PyExc, SArr, Sym, fromp, topoly
from ..spec import array_layout, struct_layout, check_docs
from ..srcmodel import AnalysisError, norm

OFF = Poly.atom("off")
CONF = {"gpumem": "/*gpuglmem*/", "cpurestrict": "/*restrict*/", "inttype": "int64_t", "chartype": "char", "gpufun": "/*gpufun*/"}


def slot(p):
    if p.is_const():
        return Poly.const((p.const_value() + 7) & -8)
    return Poly.atom(f"slot({p!r})")


def pol(v):
    if isinstance(v, Poly):
        return v
    p = topoly(v)
    if p is None:
        raise AnalysisError(f"layout: `{v!r}` is not an integer expression")
    return p


class Lab:
    def __init__(self, model):
        self.W = World(model)
        self.I = self.W.I
        self.m = model

    # ------------------------------------------------------------ constructors of abstract classes
    def struct(self, name, fields):
        """fields: list of (fname, type value)"""
        I = self.I
        MS = I.global_lookup("struct", "MetaStruct")
        S = I.global_lookup("struct", "Struct")
        new = I.class_attrs(MS)["__new__"]
        data = {fn: t for fn, t in fields}
        return I.call(new, [MS, name, (S,), data], {})

    def array(self, name, shape, order, item, spell=None):
        """spell: how a class STATEMENT gives the axis order -- "C", "F", or "" for no `_order` at all (default C)"""
        I = self.I
        MA = I.global_lookup("array", "MetaArray")
        A = I.global_lookup("array", "Array")
        new = I.class_attrs(MA)["__new__"]
        data = {"_itemtype": item, "_shape": tuple(shape), "_order": tuple(order)}
        if spell is not None:
            if spell:
                data["_order"] = spell
            else:
                del data["_order"]
        return I.call(new, [MA, name, (A,), data], {})

    def value(self, tag, shape, nplike=False, elem=None):
        """abstract array-like initial value with a concrete shape"""
        v = Obj("value", {"shape": tuple(shape)}, name=tag)
        v.perm = None
        v.attrs["__getitem__"] = Builtin("value.__getitem__", lambda k: (elem(k) if elem else Opaque(f"{tag}{_idx(k)}")))
        if nplike:
            v.attrs["dtype"] = Opaque("dtype")

            def tr(perm):
                if sorted(perm) != list(range(len(shape))):
                    raise PyExc("ValueError", "axes don't match array")  # numpy's own refusal
                w = self.value(tag, [shape[p] for p in perm], True, elem)
                w.perm = list(perm)
                w.attrs["copy"] = Builtin("value.copy", lambda: w)
                return w

            v.attrs["transpose"] = Builtin("value.transpose", lambda perm: tr(list(self.I.iterate(perm))))
        return v


def _idx(k):
    if isinstance(k, int):
        return f"_{k}"
    return "_" + "_".join(str(x) for x in k)


def _run(lab, thunk):
    res = lab.I.explore(thunk, max_paths=64)
    return res


# ------------------------------------------------------------------------------------------ L2 structs
STATIC_SIZES = [4, 24, 8, 16, 12]


def struct_descriptors(tier):
    nmax = 5 if tier == "thorough" else 4
    for n in range(1, nmax + 1):
        for kinds in itertools.product("SD", repeat=n):
            yield kinds


@rule("L2", ["C01", "C03", "C05", "C06", "C07"], "struct: metaclass, planner, writer, reader, locator and documented layout agree for every field pattern")
def l2(cx):
    m = cx.m
    check_docs(m, cx)
    lab = Lab(m)
    I, W = lab.I, lab.W
    ndesc = 0
    for kinds in struct_descriptors(cx.tier):
        ndesc += 1
        label = "".join(kinds)
        out = {}

        def thunk():
            fields = []
            for i, k in enumerate(kinds):
                sz = STATIC_SIZES[i % len(STATIC_SIZES)] if k == "S" else None
                fields.append((f"f{i}", W.desc(f"f{i}", sz, has_update=(k == "D"))))
            cls = lab.struct("S", fields)
            out["cls"] = cls
            arg = {f"f{i}": Opaque(f"v{i}") for i in range(len(kinds))}
            info = I.call(I.getattr(cls, "_inspect_args"), [arg], {})
            out["info"] = info
            I.call(I.getattr(cls, "_to_buffer"), [W.buffer, Sym(OFF), arg, info], {})
            out["weffects"] = list(I.effects)
            view = I.call(I.getattr(cls, "_from_buffer"), [W.buffer, Sym(OFF)], {})
            out["view"] = view
            out["loc"] = [I.call(I.getattr(f, "get_offset"), [view], {}) for f in cls.attrs["_fields"]]
            handle = I.call(cls, [arg], {})
            out["handle"] = handle
            out["mem"] = dict(I.mem)
            return cls

        res = _run(lab, thunk)
        anchor = "struct::MetaStruct.__new__"
        if len(res) != 1 or res[0]["exc"] is not None:
            e = res[0]["exc"]
            cx.bad(None, construct=f"struct[{label}]", detail=f"evaluation of the struct code raises {e.etype if e else 'fork'}: {e.msg if e else res[0]['conds']}", anchor=anchor, sub="eval")
            continue
        sizes = [STATIC_SIZES[i % len(STATIC_SIZES)] if k == "S" else None for i, k in enumerate(kinds)]
        spec = struct_layout(sizes, lambda i: Poly.atom(f"n_f{i}"), slot)
        cls, info, view, handle = out["cls"], out["info"], out["view"], out["handle"]
        fields = cls.attrs["_fields"]
        probs = []
        # class level
        if spec["total"] is None or spec["dynamic"]:
            if cls.attrs["_size"] is not None:
                probs.append(("class", f"_size = {cls.attrs['_size']!r}, expected None (dynamic)"))
        else:
            if pol(cls.attrs["_size"]) != spec["total"]:
                probs.append(("class", f"_size = {cls.attrs['_size']!r}, documented {spec['total']!r}"))
        for i, f in enumerate(fields):
            fo = f.attrs["offset"]
            want = spec["class_offset"][i]
            if pol(fo) != want:
                probs.append(("class", f"field {i} ({kinds[i]}): class offset {fo!r}, documented {want!r}"))
            if bool(f.attrs["is_reference"]) != spec["has_offset_word"][i]:
                probs.append(("class", f"field {i}: is_reference={f.attrs['is_reference']!r}, documented offset word: {spec['has_offset_word'][i]}"))
        # planner
        if spec["dynamic"]:
            if pol(I.getattr(info, "size")) != spec["total"]:
                probs.append(("planner", f"planned size {I.getattr(info, 'size')!r}, documented {spec['total']!r}"))
            offs = I.getattr(info, "_offsets")
            for i in spec["dyn"]:
                if i not in offs or pol(offs[i]) != spec["pos"][i]:
                    probs.append(("planner", f"dynamic field {i}: planned offset {offs.get(i)!r}, documented {spec['pos'][i]!r}"))
        # writer
        writes = [e for e in out["weffects"] if e.kind == "write"]
        childs = {e.name: e for e in out["weffects"] if e.kind == "child_write"}
        mem = out["mem"]
        if spec["dynamic"]:
            w0 = mem.get(repr(OFF))
            if w0 is None or pol(w0) != spec["total"]:
                probs.append(("writer", f"size word holds {w0!r}, documented total {spec['total']!r}"))
        for i in range(len(kinds)):
            e = childs.get(f"f{i}")
            if e is None:
                probs.append(("writer", f"field {i} is never written"))
                continue
            if e.pos != OFF + spec["pos"][i]:
                probs.append(("writer", f"field {i} written at {e.pos!r}, documented off + {spec['pos'][i]!r}"))
            if kinds[i] == "D":
                fin = e.info
                if fin is None:
                    probs.append(("writer", f"dynamic field {i} is written without its plan (size re-derived from the value)"))
        for i in spec["dyn"][1:]:
            wv = [w for w in writes if w.pos == OFF + spec["class_offset"][i]]
            if not wv or pol(wv[-1].value) != spec["pos"][i]:
                probs.append(("writer", f"offset word of field {i} at off+{spec['class_offset'][i]!r} holds {wv[-1].value if wv else None!r}, documented {spec['pos'][i]!r}"))
        allowed = {repr(OFF)} | {repr(OFF + spec["class_offset"][i]) for i in spec["dyn"]}
        for w in writes:
            if repr(w.pos) not in allowed:
                probs.append(("writer", f"stray header write at {w.pos!r}"))
        # reader / locator
        for i, (ft, pos) in enumerate(out["loc"]):
            if pol(pos) != OFF + spec["pos"][i]:
                probs.append(("reader", f"view locates field {i} at {pos!r}, writer/documented off + {spec['pos'][i]!r}"))
        if spec["dynamic"]:
            if pol(view.attrs.get("_size")) != spec["total"]:
                probs.append(("reader", f"view._size = {view.attrs.get('_size')!r}"))
        # handle parity (C06)
        if pol(handle.attrs.get("_size")) != (spec["total"] if spec["total"] is not None else Poly.const(0)):
            probs.append(("handle", f"constructor handle _size = {handle.attrs.get('_size')!r}"))
        for i in spec["dyn"][1:]:
            ho, vo = handle.attrs.get("_offsets", {}), view.attrs.get("_offsets", {})
            if i not in ho or i not in vo or pol(ho[i]) != pol(vo[i]):
                probs.append(("handle", f"offset cache of field {i}: handle {ho.get(i)!r} vs view {vo.get(i)!r}"))
        if probs:
            for site, msg in probs[:4]:
                cx.bad(None, construct=f"struct[{label}] {site}: {msg}", detail="sites disagree with each other / with the documented struct layout", anchor={"class": "struct::MetaStruct.__new__", "planner": "struct::MetaStruct.__new__._inspect_args", "writer": "struct::Struct._to_buffer", "reader": "struct::Struct._from_buffer", "handle": "struct::Struct.__init__"}[site], sub=site)
        else:
            cx.ok(None, construct=f"struct[{label}]: class/planner/writer/reader/handle = documented layout", nf=f"pos={[repr(p) for p in spec['pos']]} total={spec['total']!r}", anchor=anchor, trivial=(len(kinds) == 1 and kinds[0] == "S"))
    cx.need(ndesc >= 30, f"only {ndesc} struct descriptors enumerated")


@rule("L2c", ["C09", "C01", "C06", "C05"], "struct copy-construction (field-wise path): every field of the copy lands where the documented layout puts it, for constructor-made and view-made sources")
def l2c(cx):
    """The field-wise arm of Struct._to_buffer is the only arm a struct containing references may take when
    it is copied (G1).  Its source is another handle: its plan (`_inspect_args(instance)`) reuses the
    source's cached offsets.  A view's cache holds, for the first dynamic field, whatever word sits at the
    field's class offset (not an offset): the writer may consult the cache only for fields that have an
    offset word.  Evaluated for every field pattern, with a constructor-made and a view-made source."""
    m = cx.m
    check_docs(m, cx)
    lab = Lab(m)
    I, W = lab.I, lab.W
    CPY = Poly.atom("cpy")
    ndesc = 0
    for kinds in struct_descriptors(cx.tier):
        label = "".join(kinds)
        for srckind in ("handle", "view"):
            ndesc += 1
            out = {}

            def thunk():
                fields = []
                for i, k in enumerate(kinds):
                    sz = STATIC_SIZES[i % len(STATIC_SIZES)] if k == "S" else None
                    # the last field carries a reference: the class has _has_refs and copies field-wise
                    fields.append((f"f{i}", W.desc(f"f{i}", sz, has_update=(k == "D"), has_refs=(i == len(kinds) - 1))))
                cls = lab.struct("SR", fields)
                out["cls"] = cls
                arg = {f"f{i}": Opaque(f"v{i}") for i in range(len(kinds))}
                handle = I.call(cls, [arg], {"_buffer": W.buffer})
                src = handle
                if srckind == "view":
                    src = I.call(I.getattr(cls, "_from_buffer"), [W.buffer, I.getattr(handle, "_offset")], {})
                out["src_off"] = I.getattr(src, "_offset")
                n0 = len(I.effects)
                info = I.call(I.getattr(cls, "_inspect_args"), [src], {})
                out["info"] = info
                I.call(I.getattr(cls, "_to_buffer"), [W.buffer, Sym(CPY), src, info], {})
                out["effects"] = list(I.effects[n0:])
                out["mem"] = dict(I.mem)
                return cls

            res = _run(lab, thunk)
            anchor = "struct::Struct._to_buffer"
            if len(res) != 1 or res[0]["exc"] is not None:
                e = res[0]["exc"]
                cx.bad(None, construct=f"struct[{label}] copy from {srckind}", detail=f"evaluation raises {e.etype if e else 'fork'}: {e.msg if e else res[0]['conds']}", anchor=anchor, sub="eval")
                continue
            cls = out["cls"]
            cx.need(bool(cls.attrs.get("_has_refs")), "L2c: the probe class does not get _has_refs (G1b decides propagation)")
            sizes = [STATIC_SIZES[i % len(STATIC_SIZES)] if k == "S" else None for i, k in enumerate(kinds)]
            spec = struct_layout(sizes, lambda i: Poly.atom(f"n_f{i}"), slot)
            eff = out["effects"]
            probs = []
            if any(e.kind == "update_from_xbuffer" for e in eff):
                probs.append("a struct with references is byte-copied (relative reference words duplicated verbatim)")
            childs = {e.name: e for e in eff if e.kind == "child_write"}
            writes = [e for e in eff if e.kind == "write"]
            if spec["dynamic"]:
                sz = I.getattr(out["info"], "size")
                if pol(sz) != spec["total"]:
                    probs.append(f"planned size of the copy is {sz!r}, source/documented total {spec['total']!r}")
                w0 = [w for w in writes if w.pos == CPY]
                if not w0 or pol(w0[-1].value) != spec["total"]:
                    probs.append(f"size word of the copy holds {w0[-1].value if w0 else None!r}, documented {spec['total']!r}")
            for i in range(len(kinds)):
                e = childs.get(f"f{i}")
                if e is None:
                    probs.append(f"field {i} of the copy is never written")
                elif e.pos != CPY + spec["pos"][i]:
                    probs.append(f"field {i} ({kinds[i]}{', first dynamic field' if spec['dyn'] and i == spec['dyn'][0] else ''}) of the copy is written at {e.pos!r}, documented cpy + {spec['pos'][i]!r}")
            for i in spec["dyn"][1:]:
                wv = [w for w in writes if w.pos == CPY + spec["class_offset"][i]]
                if not wv or pol(wv[-1].value) != spec["pos"][i]:
                    probs.append(f"offset word of field {i} in the copy holds {wv[-1].value if wv else None!r}, documented {spec['pos'][i]!r}")
            # header words may be written only at documented header positions, or be overwritten by the field written there afterwards
            hdr = {repr(CPY)} | {repr(CPY + spec["class_offset"][i]) for i in spec["dyn"]}
            for w in writes:
                if repr(w.pos) not in hdr:
                    probs.append(f"stray header write at {w.pos!r}")
            if probs:
                for msg in probs[:3]:
                    cx.bad(None, construct=f"struct[{label}] copy from {srckind}-made source: {msg}", detail="a copy must equal its source field by field: the field-wise writer and its plan must place every field at the documented position", anchor=anchor, sub=srckind)
            else:
                cx.ok(None, construct=f"struct[{label}] copy from {srckind}-made source: every field at the documented position", anchor=anchor, trivial=("D" not in kinds), sub=srckind)
    cx.need(ndesc >= 60, f"only {ndesc} struct copy descriptors enumerated")


# ------------------------------------------------------------------------------------------ L1 arrays
DIMS = [2, 3, 2]
STATIC_DIMS = [2, 3, 4]


def array_descriptors(tier):
    ndmax = 3
    for nd in range(1, ndmax + 1):
        orders = list(itertools.permutations(range(nd)))
        if tier != "thorough" and nd == 3:
            orders = [(0, 1, 2), (2, 1, 0), (1, 2, 0), (2, 0, 1)]
        for mask in itertools.product([False, True], repeat=nd):
            for order in orders:
                for item in ("static", "dynamic"):
                    yield nd, mask, order, item, None
    # items SMALLER than a slot (4 bytes): array items are packed, only the parts of a struct are slot-aligned -- a site
    # that rounds the item size up to a slot (seeded C06-f: the strides recomputed by _from_buffer) agrees with the
    # others for every item size that is a multiple of 8
    for nd in (1, 2, 3) if tier == "thorough" else (1, 2):
        for mask in itertools.product([False, True], repeat=nd):
            for order in (itertools.permutations(range(nd)) if nd < 3 else [(0, 1, 2), (1, 2, 0)]):
                yield nd, mask, tuple(order), "small", None
    # class statements spell the order "C" / "F" or leave it out (PF54: kept as a string for dynamic shapes)
    for nd in (2, 3) if tier == "thorough" else (2,):
        for mask in itertools.product([False, True], repeat=nd):
            for spell, order in (("C", tuple(range(nd))), ("F", tuple(range(nd - 1, -1, -1))), ("", tuple(range(nd)))):
                for item in ("static", "dynamic"):
                    yield nd, mask, order, item, spell


def _elem_size_atom(idx):
    return Poly.atom(f"n_e{_idx(idx)}")


@rule("L1", ["C01", "C03", "C05", "C06", "C02", "C10"], "array: metaclass, planner, writer, reader, locators and documented layout agree for every shape/order/item descriptor")
def l1(cx):
    m = cx.m
    check_docs(m, cx)
    lab = Lab(m)
    I, W = lab.I, lab.W
    nd_count = 0
    for nd, mask, order, itemkind, spell in array_descriptors(cx.tier):
        nd_count += 1
        isz = {"static": 24, "small": 4}.get(itemkind)
        cshape = [None if mask[k] else STATIC_DIMS[k] for k in range(nd)]
        dims = [DIMS[k] if mask[k] else STATIC_DIMS[k] for k in range(nd)]
        label = f"nd={nd} shape={cshape} order={list(order) if spell is None else repr(spell) if spell else 'not given'} item={itemkind}"
        out = {}

        def thunk():
            if isz is None:
                item = W.desc("it", None, has_update=False)
                # per-element planned sizes
                def insp(*a, **k):
                    tag = a[0].tag if a and isinstance(a[0], Opaque) else "x"
                    return W.info(size=Sym(Poly.atom("n_" + tag)))

                item.attrs["_inspect_args"] = Builtin("it._inspect_args", insp)
            else:
                item = W.desc("it", isz)
            cls = lab.array("Arr", cshape, order, item, spell)
            out["cls"] = cls
            val = lab.value("e", dims)
            info = I.call(I.getattr(cls, "_inspect_args"), [val], {})
            out["info"] = info
            I.call(I.getattr(cls, "_to_buffer"), [W.buffer, Sym(OFF), val, info], {})
            out["weffects"] = list(I.effects)
            out["mem"] = dict(I.mem)
            view = I.call(I.getattr(cls, "_from_buffer"), [W.buffer, Sym(OFF)], {})
            out["view"] = view
            locs = {}
            for idx in itertools.product(*[range(d) for d in dims]):
                locs[idx] = I.call(I.getattr(view, "_get_offset"), [idx if nd > 1 else idx[0]], {})
            out["loc"] = locs
            handle = I.call(cls, [val], {})
            out["handle"] = handle
            return cls

        res = _run(lab, thunk)
        anchor = "array::Array._to_buffer"
        if len(res) != 1 or res[0]["exc"] is not None:
            e = res[0]["exc"]
            cx.bad(None, construct=f"array[{label}]", detail=f"evaluating planner/writer/reader raises {e.etype if e else 'fork'}: {e.msg if e else res[0]['conds']}", anchor="array::Array._from_buffer" if e and e.etype == "IndexError" else anchor, sub="eval")
            continue
        sizes = {idx: _elem_size_atom(idx) for idx in itertools.product(*[range(d) for d in dims])}
        spec = array_layout(cshape, list(order), dims, isz, sizes, slot)
        cls, info, view, handle = out["cls"], out["info"], out["view"], out["handle"]
        probs = []
        if pol(cls.attrs["_data_offset"]) != Poly.const(spec["data_offset"]):
            probs.append(("class", "array::MetaArray.__new__", f"_data_offset = {cls.attrs['_data_offset']!r}, documented {spec['data_offset']}"))
        if spec["static_size"] is not None:
            if cls.attrs["_size"] is None or pol(cls.attrs["_size"]) != spec["static_size"]:
                probs.append(("class", "array::MetaArray.__new__", f"_size = {cls.attrs['_size']!r}, documented {spec['static_size']!r}"))
        elif cls.attrs["_size"] is not None:
            probs.append(("class", "array::MetaArray.__new__", f"_size = {cls.attrs['_size']!r} for a dynamically sized array"))
        if "_strides" in cls.attrs and not any(mask):
            if [pol(s) for s in cls.attrs["_strides"]] != spec["strides"]:
                probs.append(("class", "array::get_strides", f"class strides {cls.attrs['_strides']!r}, documented {spec['strides']!r}"))
        # planner
        if pol(I.getattr(info, "size")) != spec["total"]:
            probs.append(("planner", "array::Array._inspect_args", f"planned size {I.getattr(info, 'size')!r}, documented {spec['total']!r}"))
        if [pol(s) for s in I.getattr(info, "strides")] != spec["strides"]:
            probs.append(("planner", "array::get_strides", f"planned strides {I.getattr(info, 'strides')!r}, documented {spec['strides']!r} (order {list(order)})"))
        # writer: header image
        mem = out["mem"]
        for k, want in enumerate(spec["header"]):
            got = mem.get(repr(OFF + Poly.const(8 * k)))
            if got is None or pol(got) != want:
                probs.append(("writer", "array::Array._to_buffer", f"header word {k} holds {got!r}, documented {want!r} ({spec['header_names'][k]})"))
        hw = [e for e in out["weffects"] if e.kind == "write_array"]
        nwords = sum(e.count or 0 for e in hw)
        exp_words = len(spec["header"]) + (spec["items"] if isz is None else 0)
        if nwords != exp_words:
            probs.append(("writer", "array::Array._to_buffer", f"{nwords} header/table words written, documented {exp_words}"))
        childs = [e for e in out["weffects"] if e.kind == "child_write"]
        if len(childs) != spec["items"]:
            probs.append(("writer", "array::Array._to_buffer", f"{len(childs)} items written, expected {spec['items']}"))
        bypos = {}
        for e in childs:
            tag = e.value.tag if isinstance(e.value, Opaque) else None
            bypos[tag] = e
        for idx, want in spec["item_pos"].items():
            e = bypos.get("e" + _idx(idx if nd > 1 else idx[0]))
            if e is None:
                probs.append(("writer", "array::Array._to_buffer", f"item {idx} is never written"))
                continue
            if e.pos != OFF + want:
                probs.append(("writer", "array::Array._to_buffer", f"item {idx} written at {e.pos!r}, documented off + {want!r}"))
            if isz is None:
                # table entry in memory order, addressed by the strides
                tpos = OFF + Poly.const(spec["data_offset"]) + sum((Poly.const(i) * s for i, s in zip(idx, spec["strides"])), Poly())
                got = mem.get(repr(tpos))
                if got is None or pol(got) != want:
                    probs.append(("writer", "array::Array._to_buffer", f"offset-table slot of item {idx} (at data_offset + sum(i*stride)) holds {got!r}, documented {want!r}: the table is not in the array's memory order"))
        # reader
        if any(mask):
            if [pol(s) for s in view.attrs.get("_shape", [])] != [Poly.const(d) for d in dims]:
                probs.append(("reader", "array::Array._from_buffer", f"view shape {view.attrs.get('_shape')!r}, written {dims}"))
            if [pol(s) for s in view.attrs.get("_strides", [])] != spec["strides"]:
                probs.append(("reader", "array::Array._from_buffer", f"view strides {view.attrs.get('_strides')!r}, documented {spec['strides']!r}"))
        if spec["static_size"] is None and pol(view.attrs.get("_size")) != spec["total"]:
            probs.append(("reader", "array::Array._from_buffer", f"view size {view.attrs.get('_size')!r}"))
        for idx, pos in out["loc"].items():
            if pol(pos) != OFF + spec["item_pos"][idx]:
                probs.append(("reader", "array::Array._get_offset", f"view locates item {idx} at {pos!r}, writer/documented off + {spec['item_pos'][idx]!r}"))
                break
        # handle parity
        for attr in ("_size", "_shape", "_strides"):
            hv, vv = handle.attrs.get(attr), view.attrs.get(attr)
            if (hv is None) != (vv is None):
                probs.append(("handle", "array::Array.__init__", f"{attr}: handle {hv!r} vs view {vv!r}"))
            elif hv is not None:
                hl = [pol(x) for x in (hv if isinstance(hv, (list, tuple)) else [hv])]
                vl = [pol(x) for x in (vv if isinstance(vv, (list, tuple)) else [vv])]
                if hl != vl:
                    probs.append(("handle", "array::Array.__init__", f"{attr}: handle {hv!r} vs view {vv!r}"))
        if isz is None:
            ho, vo = handle.attrs.get("_offsets"), view.attrs.get("_offsets")
            if not isinstance(ho, SArr) or not isinstance(vo, SArr) or ho.shape != vo.shape or any(pol(ho.data[i]) != pol(vo.data.get(i, 0)) for i in ho.data):
                probs.append(("handle", "array::Array._from_buffer", f"item offset cache: handle {getattr(ho, 'shape', None)} vs view {getattr(vo, 'shape', None)} differ"))
        if probs:
            seen = set()
            for site, anc, msg in probs:
                if site in seen:
                    continue
                seen.add(site)
                cx.bad(None, construct=f"array[{label}] {site}: {msg}", detail="sites disagree with each other / with the documented array layout", anchor=anc, sub=site)
        else:
            cx.ok(None, construct=f"array[{label}]: class/planner/writer/reader/handle = documented layout", nf=f"header={spec['header_names']} data_offset={spec['data_offset']} strides={[repr(s) for s in spec['strides']]}", anchor=anchor)
    cx.need(nd_count >= 60, f"only {nd_count} array descriptors enumerated")


# ------------------------------------------------------------------------------------------ PS pickle state round trip
def _restore(I, cls, handle):
    """what pickle does with the state methods the CURRENT source defines (default protocol otherwise)"""
    gs, gowner = I.find_in_class(cls, "__getstate__")
    ss, sowner = I.find_in_class(cls, "__setstate__")
    if gowner is not None:
        state = I.call(I._bind(gs, handle, cls), [], {})
    else:
        state = dict(handle.attrs)
    h2 = Obj("instance", {}, cls=cls)
    if sowner is not None:
        I.call(I._bind(ss, h2, cls), [state], {})
    elif isinstance(state, dict):
        h2.attrs.update(state)
    else:
        raise AnalysisError("PS: __getstate__ returns a non-dict state but the class has no __setstate__")
    return h2, (gowner is not None or sowner is not None)


def _cache_eq(a, b):
    if isinstance(a, SArr) or isinstance(b, SArr):
        if not (isinstance(a, SArr) and isinstance(b, SArr)) or a.shape != b.shape:
            return False
        return all(topoly(a.data.get(i)) == topoly(b.data.get(i)) for i in a.indices())
    if isinstance(a, dict) or isinstance(b, dict):
        return isinstance(a, dict) and isinstance(b, dict) and set(a) == set(b) and all(_cache_eq(a[k], b[k]) for k in a)
    if isinstance(a, (list, tuple)) or isinstance(b, (list, tuple)):
        return isinstance(a, (list, tuple)) and isinstance(b, (list, tuple)) and len(a) == len(b) and all(_cache_eq(x, y) for x, y in zip(a, b))
    pa, pb = topoly(a), topoly(b)
    if pa is not None and pb is not None:
        return pa == pb
    return a is b or a == b


@rule("PS", ["C20", "C06"], "pickle state round trip: a handle restored through the class's state methods has the caches a view of the same bytes has, for every array/struct descriptor")
def ps(cx):
    """`__getstate__` / `__setstate__` of the current source (or the default protocol where a class defines none) are
    evaluated on a constructor-made handle of every descriptor; the restored handle must carry, for every structure
    cache the view materialiser `_from_buffer` establishes (_buffer, _offset, _size, _shape, _strides, _offsets), an
    equal abstract value.  A restore path that re-reads a table with another axis permutation, forgets a cache or
    keeps a plan value that differs from the bytes is reported with the descriptor."""
    m = cx.m
    lab = Lab(m)
    I, W = lab.I, lab.W
    n = 0
    # ---- arrays
    for nd, mask, order, itemkind in [d[:4] for d in array_descriptors(cx.tier) if d[4] is None and d[3] != "small"]:
        if cx.tier != "thorough" and itemkind == "static" and nd == 3 and order not in ((0, 1, 2), (1, 2, 0)):
            continue
        n += 1
        isz = 24 if itemkind == "static" else None
        cshape = [None if mask[k] else STATIC_DIMS[k] for k in range(nd)]
        dims = [DIMS[k] if mask[k] else STATIC_DIMS[k] for k in range(nd)]
        label = f"array[nd={nd} shape={cshape} order={list(order)} item={itemkind}]"
        out = {}

        def thunk():
            if isz is None:
                item = W.desc("it", None, has_update=False)

                def insp(*a, **k):
                    tag = a[0].tag if a and isinstance(a[0], Opaque) else "x"
                    return W.info(size=Sym(Poly.atom("n_" + tag)))

                item.attrs["_inspect_args"] = Builtin("it._inspect_args", insp)
            else:
                item = W.desc("it", isz)
            cls = lab.array("Arr", cshape, order, item)
            val = lab.value("e", dims)
            handle = I.call(cls, [val], {"_buffer": W.buffer})
            view = I.call(I.getattr(cls, "_from_buffer"), [W.buffer, I.getattr(handle, "_offset")], {})
            out["view"] = view
            out["restored"], out["custom"] = _restore(I, cls, handle)
            return cls

        res = _run(lab, thunk)
        if len(res) != 1 or res[0]["exc"] is not None:
            e = res[0]["exc"]
            cx.bad(None, construct=label, detail=f"evaluating the state round trip raises {e.etype if e else 'fork'}: {e.msg if e else res[0]['conds']}", anchor="array::Array.__setstate__", sub="array")
            continue
        view, rest = out["view"], out["restored"]
        bad = [a for a in ("_buffer", "_offset", "_size", "_shape", "_strides", "_offsets") if a in view.attrs and not (a in rest.attrs and _cache_eq(view.attrs[a], rest.attrs[a]))]
        if bad:
            a0 = bad[0]
            cx.bad(None, construct=f"{label}: restored handle differs from a view in {bad}", detail=f"{a0}: view {view.attrs.get(a0)!r} vs restored {rest.attrs.get(a0, '<absent>')!r}: items are located through this cache, the unpickled array reads other items / raises",
                   anchor="array::Array.__setstate__" if out["custom"] else "array::Array.__init__", sub="array")
        else:
            cx.ok(None, construct=f"{label}: restored handle = view", anchor="array::Array", trivial=not out["custom"], sub="array")
    # ---- structs
    for kinds in struct_descriptors(cx.tier):
        n += 1
        label = "struct[" + "".join(kinds) + "]"
        out = {}

        def thunk2():
            fields = []
            for i, k in enumerate(kinds):
                sz = STATIC_SIZES[i % len(STATIC_SIZES)] if k == "S" else None
                fields.append((f"f{i}", W.desc(f"f{i}", sz, has_update=(k == "D"))))
            cls = lab.struct("S", fields)
            arg = {f"f{i}": Opaque(f"v{i}") for i in range(len(kinds))}
            handle = I.call(cls, [arg], {"_buffer": W.buffer})
            view = I.call(I.getattr(cls, "_from_buffer"), [W.buffer, I.getattr(handle, "_offset")], {})
            out["view"] = view
            out["restored"], out["custom"] = _restore(I, cls, handle)
            out["spec_dyn"] = [i for i, k in enumerate(kinds) if k == "D"]
            return cls

        res = _run(lab, thunk2)
        if len(res) != 1 or res[0]["exc"] is not None:
            e = res[0]["exc"]
            cx.bad(None, construct=label, detail=f"evaluating the state round trip raises {e.etype if e else 'fork'}: {e.msg if e else res[0]['conds']}", anchor="struct::Struct.__setstate__", sub="struct")
            continue
        view, rest = out["view"], out["restored"]
        bad = []
        for a in ("_buffer", "_offset", "_size"):
            if a in view.attrs and not (a in rest.attrs and _cache_eq(view.attrs[a], rest.attrs[a])):
                bad.append(a)
        # offsets: only the fields that HAVE an offset word are located through the cache
        vo, ro = view.attrs.get("_offsets", {}), rest.attrs.get("_offsets")
        for i in out["spec_dyn"][1:]:
            if not isinstance(ro, dict) or i not in ro or not _cache_eq(vo.get(i), ro.get(i)):
                bad.append(f"_offsets[{i}]")
        # the cache itself exists whenever a view has it (also with one or no dynamic field: the copy constructor and the
        # whole-value update read `value._offsets` of their source without asking how many fields it locates)
        if "_offsets" in view.attrs and not isinstance(ro, dict) and not bad:
            bad.append("_offsets (absent)")
        if bad:
            cx.bad(None, construct=f"{label}: restored handle differs from a view in {bad}", detail="an unpickled struct locates its dynamic fields through these caches: accessors raise AttributeError/KeyError or read other bytes", anchor="struct::Struct.__setstate__", sub="struct")
        else:
            cx.ok(None, construct=f"{label}: restored handle = view", anchor="struct::Struct.__setstate__", trivial=not out["custom"], sub="struct")
    cx.need(n >= 60, f"only {n} descriptors evaluated")


# ------------------------------------------------------------------------------------------ R12 assignment dispatch by kind
def _kind_desc(W, I, kind, name):
    """abstract part type of one kind; returns (desc, expectation)"""
    if kind == "scalar":
        return W.desc(name, 8), "write"
    if kind == "string":  # dynamically sized leaf without _update
        return W.desc(name, None), "write-fitting"
    if kind == "sstruct":
        return W.desc(name, 24, has_update=True), "update"
    if kind == "dstruct":
        return W.desc(name, None, has_update=True), "update"
    if kind in ("ref", "uref", "refarr"):
        d = W.desc(name, 8 if kind != "uref" else 16)
        target = W.desc(name + "_target", 24, has_update=True)
        if kind in ("ref", "refarr"):
            d.attrs["_reftype"] = target
        else:
            d.attrs["_reftypes"] = (target,)
        arrcls = None
        if kind == "refarr":  # the referent is an ARRAY object (isinstance(target, Array) holds)
            Arr = I.global_lookup("array", "Array")
            arrcls = Obj("class", {"_shape": (3,), "_itemtype": W.desc("it", 8), "__name__": "RefArr"}, bases=[Arr], name="RefArr")
            d.attrs["_reftype"] = arrcls

        def deref(buffer, offset=0):
            I.effects.append(Effect("child_read", name=name, pos=P(offset), buf=buffer))
            r = Obj("view" if arrcls is None else "instance", {"_buffer": buffer, "_offset": Sym(Poly.atom("referent_pos"))}, cls=arrcls, name=f"referent:{name}")
            if arrcls is not None:
                r.attrs["_shape"] = (3,)
                r.attrs["__len__"] = Builtin("len", lambda: 3)
            r.tag = f"referent:{name}"
            r.attrs["_update"] = Builtin("referent._update", lambda value: I.effects.append(Effect("referent_update", name=name, value=value)))
            r.attrs["_size"] = 24
            return r

        d.attrs["_from_buffer"] = Builtin(f"{name}._from_buffer", deref)
        return d, "write"
    raise AnalysisError(kind)


@rule("R12", ["C08", "C10", "C03"], "assignment through a field / an item, evaluated per kind of part: compounds are updated in place, references and leaves are (re)written at their own slot, a referent is never written through")
def r12(cx):
    """`Field.__set__` and `Array.__setitem__` of the current source are evaluated for every kind of part (scalar,
    dynamically sized leaf, static/dynamic compound, Ref, UnionRef) with plain data as the new value.  Required, on
    every path that does not raise: a compound receives exactly one in-place `_update` at its located position and no
    fresh `_to_buffer`; every other kind receives exactly one `_to_buffer(own buffer, slot position, value)`; for a
    dynamically sized leaf that write carries the reserved size; and NOTHING is written through a reference --
    assigning data to a reference must leave the object it pointed to (which other holders may share) untouched
    (seeded C08-b updated the referent in place)."""
    m = cx.m
    lab = Lab(m)
    I, W = lab.I, lab.W
    n = 0
    for site in ("field", "item"):
        for kind in ("scalar", "string", "sstruct", "dstruct", "ref", "uref", "refarr"):
            n += 1
            out = {}
            label = f"{'Field.__set__' if site == 'field' else 'Array.__setitem__'}[{kind}]"

            def thunk():
                d, want = _kind_desc(W, I, kind, "p")
                out["want"] = want
                if site == "field":
                    cls = lab.struct("S", [("a", W.desc("a", 8)), ("p", d), ("z", W.desc("z", 8))])
                    arg = {"a": Opaque("va"), "p": Opaque("vp"), "z": Opaque("vz")}
                    I.call(I.getattr(cls, "_to_buffer"), [W.buffer, Sym(OFF), arg, I.call(I.getattr(cls, "_inspect_args"), [arg], {})], {})
                    h = I.call(I.getattr(cls, "_from_buffer"), [W.buffer, Sym(OFF)], {})
                    fld = [f for f in cls.attrs["_fields"] if I.getattr(f, "name") == "p"][0]
                    out["slot"] = I.call(I.getattr(fld, "get_offset"), [h], {})[1]
                    n0 = len(I.effects)
                    I.call(I.getattr(fld, "__set__"), [h, (Opaque("newval") if kind != "refarr" else [Opaque("n0"), Opaque("n1"), Opaque("n2")])], {})
                else:
                    if d.attrs["_size"] is None:
                        d.attrs["_inspect_args"] = Builtin("p._inspect_args", lambda *a, **k: W.info(size=Sym(Poly.atom("n_" + (a[0].tag if a and isinstance(a[0], Opaque) else "x")))))
                    cls = lab.array("Arr", [None], (0,), d)
                    val = lab.value("e", [2])
                    I.call(I.getattr(cls, "_to_buffer"), [W.buffer, Sym(OFF), val, I.call(I.getattr(cls, "_inspect_args"), [val], {})], {})
                    h = I.call(I.getattr(cls, "_from_buffer"), [W.buffer, Sym(OFF)], {})
                    out["slot"] = I.call(I.getattr(h, "_get_offset"), [1], {})
                    n0 = len(I.effects)
                    I.call(I.getattr(h, "__setitem__"), [1, (Opaque("newval") if kind != "refarr" else [Opaque("n0"), Opaque("n1"), Opaque("n2")])], {})
                out["eff"] = list(I.effects[n0:])
                return None

            res = I.explore(thunk, max_paths=32)
            anchor = "struct::Field.__set__" if site == "field" else "array::Array.__setitem__"
            done = 0
            for r in res:
                if r["exc"] is not None:
                    if r["exc"].etype in ("ValueError", "IndexError", "AttributeError", "TypeError", "MemoryError"):
                        continue  # a refusal: decided by G2/G3/R11
                    cx.bad(None, construct=label, detail=f"evaluation raises {r['exc'].etype}: {r['exc'].msg}", anchor=anchor, sub="eval")
                    continue
                done += 1
                eff = out["eff"] if len(res) == 1 else [e for e in r["effects"]]
                # effects of this path after the handle was built: take the tail after the last child_read of the view materialiser
                eff = [e for e in r["effects"]]
                # locate the assignment's effects: those whose value is the new value
                ups = [e for e in eff if e.kind == "view_update" and isinstance(e.value, Opaque) and e.value.tag == "newval"]
                refups = [e for e in eff if e.kind == "referent_update"]
                wrs = [e for e in eff if e.kind == "child_write" and ((isinstance(e.value, Opaque) and e.value.tag == "newval") or (isinstance(e.value, list) and e.value and isinstance(e.value[0], Opaque) and e.value[0].tag == "n0"))]
                slot = out["slot"]
                probs = []
                if refups:
                    probs.append("the object the reference points to is updated in place: every other holder of that object (and the original handle) silently sees the new data, and the reference keeps denoting the old object instead of a new one")
                want = out["want"]
                if want == "update":
                    if len(ups) != 1 or wrs:
                        probs.append(f"a compound part must be updated through its own _update exactly once (got {len(ups)} update(s), {len(wrs)} fresh write(s)): a fresh _to_buffer re-plans its header")
                    elif pol(ups[0].pos) != pol(slot):
                        probs.append(f"in-place update applied at {ups[0].pos!r}, the part is located at {slot!r}")
                else:
                    if len(wrs) != 1 or ups:
                        probs.append(f"expected exactly one write of the new value at the part's slot (got {len(wrs)} write(s), {len(ups)} update(s))")
                    else:
                        w = wrs[0]
                        if pol(w.pos) != pol(slot):
                            probs.append(f"value written at {w.pos!r}, the part's slot is at {slot!r}")
                        if w.buf is not W.buffer:
                            probs.append("value written into another buffer than the handle's")
                        if want == "write-fitting":
                            sz = I.getattr(w.info, "size") if w.info is not None else None
                            reserved = r["mem"].get(repr(pol(slot)))
                            if w.info is None:
                                probs.append("a dynamically sized leaf is written without a plan: the extent is re-derived from the new value and can exceed the reserved space")
                if probs:
                    for msg in probs[:2]:
                        cx.bad(None, construct=f"{label}: {msg}", detail="assignment of plain data through a handle", anchor=anchor, sub=kind)
                    break
            else:
                if done == 0:
                    cx.bad(None, construct=label, detail="every path of the assignment raises: the part can never be assigned", anchor=anchor, sub=kind)
                else:
                    cx.ok(None, construct=f"{label}: {out['want']} at the located slot on {done} path(s)", anchor=anchor, sub=kind)
    cx.need(n == 14, "R12: kinds x sites")


# ------------------------------------------------------------------------------------------ R15 partial struct update
@rule("R15", ["C10", "C06"], "Struct._update with a dictionary assigns exactly the named fields, each at its own slot, and nothing else")
def r15(cx):
    """evaluated: a struct of three leaf fields is updated with a dict naming one field (each in turn) and with a dict
    naming two: the only effects are one write of the given value per named field, at that field's position."""
    m = cx.m
    lab = Lab(m)
    I, W = lab.I, lab.W
    names = ["a", "p", "z"]
    n = 0
    for subset in (["a"], ["p"], ["z"], ["a", "z"], []):
        n += 1
        out = {}

        def thunk():
            cls = lab.struct("S", [(nm, W.desc(nm, 8)) for nm in names])
            arg = {nm: Opaque("v" + nm) for nm in names}
            I.call(I.getattr(cls, "_to_buffer"), [W.buffer, Sym(OFF), arg, I.call(I.getattr(cls, "_inspect_args"), [arg], {})], {})
            h = I.call(I.getattr(cls, "_from_buffer"), [W.buffer, Sym(OFF)], {})
            out["slots"] = {I.getattr(f, "name"): I.call(I.getattr(f, "get_offset"), [h], {})[1] for f in cls.attrs["_fields"]}
            n0 = len(I.effects)
            I.call(I.getattr(h, "_update"), [{nm: Opaque("new" + nm) for nm in subset}], {})
            out["eff"] = list(I.effects[n0:])
            return None

        res = I.explore(thunk, max_paths=8)
        label = f"Struct._update({{{', '.join(subset)}}})"
        if len(res) != 1 or res[0]["exc"] is not None:
            e = res[0]["exc"]
            cx.bad(None, construct=label, detail=f"evaluation raises {e.etype if e else 'fork'}: {e.msg if e else res[0]['conds']}", anchor="struct::Struct._update", sub="eval")
            continue
        wrs = [e for e in out["eff"] if e.kind in ("child_write", "write", "write_array", "view_update", "update_from_xbuffer")]
        got = sorted((e.name, repr(pol(e.pos))) for e in wrs if e.kind == "child_write" and isinstance(e.value, Opaque) and e.value.tag == "new" + e.name)
        want = sorted((nm, repr(pol(out["slots"][nm]))) for nm in subset)
        other = [e for e in wrs if not (e.kind == "child_write" and isinstance(e.value, Opaque) and e.value.tag == "new" + getattr(e, "name", "?"))]
        cx.check(got == want and not other, None, construct=f"{label}: writes {got}", detail="exactly the named fields are written, each with its value at its own slot",
                 bad_detail=f"expected writes {want} and nothing else; got {got}" + (f" plus {len(other)} other effect(s)" if other else ""), anchor="struct::Struct._update")
    cx.need(n == 5, "R15 cases")


# ------------------------------------------------------------------------------------------ G1b propagation of _has_refs
@rule("G1b", ["C09", "C10", "C03", "C08"], "_has_refs is True for both reference kinds and propagates through struct fields and array items (evaluated on the metaclasses)")
def g1b(cx):
    """G1 lets a whole-object byte copy through only under `not _has_refs`; that is sound only if the flag is right.
    The metaclasses of the current source are evaluated: Ref instances and UnionRef classes carry True; a struct carries
    True iff some field type does (in ANY position), an array iff its item type does; nesting propagates."""
    m = cx.m
    lab = Lab(m)
    I, W = lab.I, lab.W
    out = {}

    def thunk():
        sc = I.global_lookup("scalar", "Float64")
        T = lab.struct("T", [("v", sc)])
        R = I.call(I.global_lookup("ref", "Ref"), [T], {})
        MU = I.global_lookup("ref", "MetaUnionRef")
        U = I.call(I.class_attrs(MU)["__new__"], [MU, "U", (I.global_lookup("ref", "UnionRef"),), {"_reftypes": (T,)}], {})
        out["Ref"] = I.getattr(R, "_has_refs")
        out["UnionRef"] = I.getattr(U, "_has_refs")
        out["plain struct"] = I.getattr(T, "_has_refs")
        for pos in range(3):
            fields = [(f"f{k}", R if k == pos else sc) for k in range(3)]
            out[f"struct with a Ref in field {pos} of 3"] = I.getattr(lab.struct(f"S{pos}", fields), "_has_refs")
        SU = lab.struct("SU", [("a", sc), ("u", U)])
        out["struct with a UnionRef field"] = I.getattr(SU, "_has_refs")
        S0 = lab.struct("S0", [("a", sc), ("r", R)])
        out["struct nesting a struct with a Ref"] = I.getattr(lab.struct("SN", [("x", sc), ("n", S0)]), "_has_refs")
        out["array of scalars"] = I.getattr(lab.array("A0", (None,), (0,), sc), "_has_refs")
        out["array of plain structs"] = I.getattr(lab.array("A1", (None,), (0,), T), "_has_refs")
        out["array of Ref"] = I.getattr(lab.array("A2", (None,), (0,), R), "_has_refs")
        out["array of structs with a Ref"] = I.getattr(lab.array("A3", (3,), (0,), S0), "_has_refs")
        A3 = lab.array("A4", (None,), (0,), S0)
        out["struct with an array of structs with a Ref"] = I.getattr(lab.struct("SA", [("k", sc), ("arr", A3)]), "_has_refs")
        # the other documented way of declaring a field: an explicit xo.Field(type, ...) object (seeded C09-g computed
        # the flag only where a bare type is wrapped)
        Field = I.global_lookup("struct", "Field")
        fld = lambda t, **kw: I.call(Field, [t], kw)
        out["struct whose Ref field is declared as xo.Field(Ref)"] = I.getattr(lab.struct("SF1", [("a", sc), ("r", fld(R))]), "_has_refs")
        out["struct whose UnionRef field is declared as xo.Field(UnionRef)"] = I.getattr(lab.struct("SF2", [("u", fld(U)), ("a", sc)]), "_has_refs")
        out["struct nesting, through xo.Field, a struct with a Ref"] = I.getattr(lab.struct("SF3", [("x", sc), ("n", fld(S0))]), "_has_refs")
        out["struct with xo.Field(array of Ref)"] = I.getattr(lab.struct("SF4", [("x", sc), ("arr", fld(lab.array("A5", (2,), (0,), R)))]), "_has_refs")
        out["plain struct declared with xo.Field(scalar, default)"] = I.getattr(lab.struct("SF5", [("x", fld(sc, default=1.5)), ("y", sc)]), "_has_refs")
        return None

    res = I.explore(thunk, max_paths=8)
    if len(res) != 1 or res[0]["exc"] is not None:
        e = res[0]["exc"]
        raise AnalysisError(f"[G1b] the metaclasses cannot be evaluated: {e.etype if e else 'fork'}: {e.msg if e else res[0]['conds']}")
    want_false = {"plain struct", "array of scalars", "array of plain structs", "plain struct declared with xo.Field(scalar, default)"}
    for k, v in out.items():
        want = k not in want_false
        cx.check(v is want, None, construct=f"{k}: _has_refs = {v!r}", detail="flag follows the presence of references inside the type",
                 bad_detail=(f"_has_refs is {v!r} for a type that contains references: its instances would be byte-copied, duplicating relative reference words verbatim" if want else f"_has_refs is {v!r} for a reference-free type"),
                 anchor="struct::MetaStruct.__new__" if k.startswith("struct") or k.startswith("plain struct") else ("array::MetaArray.__new__" if k.startswith("array") else "ref::Ref"))
    cx.need(len(out) >= 13, "G1b cases")


# ------------------------------------------------------------------------------------------ D2i inner types
@rule("D2i", ["C14"], "_get_inner_types of every container kind returns all of its inner types (evaluated on abstract classes)")
def d2i(cx):
    m = cx.m
    lab = Lab(m)
    I, W = lab.I, lab.W
    out = {}

    def thunk():
        sc = I.global_lookup("scalar", "Float64")
        sc2 = I.global_lookup("scalar", "Int8")
        String = I.global_lookup("string", "String")
        T = lab.struct("T", [("v", sc)])
        T2 = lab.struct("T2", [("w", sc)])
        R = I.call(I.global_lookup("ref", "Ref"), [T], {})
        MU = I.global_lookup("ref", "MetaUnionRef")
        U = I.call(I.class_attrs(MU)["__new__"], [MU, "U", (I.global_lookup("ref", "UnionRef"),), {"_reftypes": (T, T2)}], {})
        A = lab.array("A", (None,), (0,), T2)
        S = lab.struct("S", [("a", sc), ("t", T), ("s", String), ("r", R), ("u", U), ("arr", A), ("b", sc2)])
        out["struct"] = (list(I.call(I.getattr(S, "_get_inner_types"), [], {})), [sc, T, String, R, U, A, sc2])
        out["array"] = (list(I.call(I.getattr(A, "_get_inner_types"), [], {})), [T2])
        out["ref"] = (list(I.call(I.getattr(R, "_get_inner_types"), [], {})), [T])
        out["unionref"] = (list(I.call(I.getattr(U, "_get_inner_types"), [], {})), [T, T2])
        return None

    res = I.explore(thunk, max_paths=8)
    if len(res) != 1 or res[0]["exc"] is not None:
        e = res[0]["exc"]
        raise AnalysisError(f"[D2i] _get_inner_types cannot be evaluated: {e.etype if e else 'fork'}: {e.msg if e else res[0]['conds']}")
    for kind, (got, want) in out.items():
        miss = [w for w in want if not any(g is w for g in got)]
        cx.check(not miss, None, construct=f"{kind}: _get_inner_types() returns {len(got)} type(s), expected the {len(want)} inner type(s) of the kind", detail="every field type / the item type / the reference target / every union member is a dependency",
                 bad_detail=f"{len(miss)} inner type(s) are not reported ({[getattr(x, 'name', repr(x)) for x in miss]}): their API is not emitted before the container's (unknown type name)", anchor={"struct": "struct::Struct._get_inner_types", "array": "array::Array._get_inner_types", "ref": "ref::Ref._get_inner_types", "unionref": "ref::UnionRef._get_inner_types"}[kind])


# ------------------------------------------------------------------------------------------ J3 JSON forms
@rule("J3", ["C19"], "JSON form of reference-free structs and 1-D arrays: every field/item is emitted (recursively) and constructing the type from the form writes the same bytes")
def j3(cx):
    """`_to_json` of the current source is evaluated on an abstract reference-free object (scalar fields, a nested
    struct, a 1-D array of scalars, a 1-D array of structs, a fixed-length array); the form must name every field /
    hold every item, recursively; then the type is constructed from that form in the same abstract memory and every
    word of the new object is compared with the word at the same relative position of the original.  `dispatch_arg`
    (tuple -> positional, dict -> keywords, anything else -> single argument) and the (classname, data) form of
    UnionRef._to_json are evaluated as well."""
    m = cx.m
    lab = Lab(m)
    I, W = lab.I, lab.W
    V = lambda nm: FloatSym(Poly.atom(nm))
    out = {}

    def thunk():
        sc = I.global_lookup("scalar", "Float64")
        i8 = I.global_lookup("scalar", "Int8")
        T = lab.struct("T", [("v", sc), ("k", i8)])
        A = lab.array("ArrNFloat64", (None,), (0,), sc)
        A3 = lab.array("Arr3Float64", (3,), (0,), sc)
        AT = lab.array("ArrNT", (None,), (0,), T)
        S = lab.struct("S", [("a", sc), ("t", T), ("arr", A), ("fix", A3), ("arrT", AT), ("b", i8)])
        args = {"a": V("va"), "t": {"v": V("tv"), "k": V("tk")}, "arr": lab.value("x", [3], elem=lambda k: V(f"x{k}")), "fix": lab.value("f", [3], elem=lambda k: V(f"f{k}")),
                "arrT": lab.value("y", [2], elem=lambda k: {"v": V(f"yv{k}"), "k": V(f"yk{k}")}), "b": V("vb"), "_buffer": W.buffer}
        s1 = I.call(S, [], dict(args))
        out["json"] = I.call(I.getattr(s1, "_to_json"), [], {})
        farr = [f_ for f_ in S.attrs["_fields"] if I.getattr(f_, "name") == "arr"][0]
        arr1 = I.call(I.getattr(farr, "__get__"), [s1], {})
        out["ajson"] = I.call(I.getattr(arr1, "_to_json"), [], {})
        out["p1"], out["size"] = pol(I.getattr(s1, "_offset")), I.getattr(s1, "_size")
        mem1 = dict(I.mem)
        s2 = I.call(S, [out["json"]], {"_buffer": W.buffer})
        out["p2"], out["size2"] = pol(I.getattr(s2, "_offset")), I.getattr(s2, "_size")
        a2 = I.call(A, [out["ajson"]], {"_buffer": W.buffer})
        out["pa1"], out["pa2"], out["asize"] = pol(I.getattr(arr1, "_offset")), pol(I.getattr(a2, "_offset")), I.getattr(a2, "_size")
        out["mem"] = dict(I.mem)
        out["mem1"] = mem1
        # UnionRef form
        T2 = lab.struct("T2", [("w", sc)])
        MU = I.global_lookup("ref", "MetaUnionRef")
        U = I.call(I.class_attrs(MU)["__new__"], [MU, "U", (I.global_lookup("ref", "UnionRef"),), {"_reftypes": (T, T2)}], {})
        t2 = I.call(T2, [], {"w": V("uw"), "_buffer": W.buffer})
        u = I.call(U, [t2], {"_buffer": W.buffer})
        out["ujson"] = I.call(I.getattr(u, "_to_json"), [], {})
        # dispatch_arg
        rec = []
        fb = Builtin("f", lambda *a, **k: rec.append((a, tuple(sorted(k.items())))))
        da = I.global_lookup("typeutils", "dispatch_arg")
        for arg in ((1, 2), {"x": 1, "y": 2}, 7, [1, 2]):
            I.call(da, [fb, arg], {})
        out["dispatch"] = rec
        return None

    # first a one-value object: the form may not depend on the VALUE (every path must emit the value itself)
    small = {}

    def thunk0():
        sc = I.global_lookup("scalar", "Float64")
        T1 = lab.struct("T1", [("v", sc)])
        A1 = lab.array("ArrNFloat64", (None,), (0,), sc)
        t1 = I.call(T1, [], {"v": V("tv"), "_buffer": W.buffer})
        a1 = I.call(A1, [lab.value("x", [1], elem=lambda k: V("x0"))], {"_buffer": W.buffer})
        small["res"] = (I.call(I.getattr(t1, "_to_json"), [], {}), I.call(I.getattr(a1, "_to_json"), [], {}))
        return small["res"]

    res0 = I.explore(thunk0, max_paths=16)
    for r in res0:
        if r["exc"] is not None:
            continue
        tj, aj = r["result"]
        okv = isinstance(tj, dict) and topoly(tj.get("v")) == topoly(V("tv")) and isinstance(aj, (list, tuple)) and len(aj) == 1 and topoly(aj[0]) == topoly(V("x0"))
        if not okv:
            conds = " and ".join((("" if d_ else "not ") + t_) for t_, d_ in r["conds"]) or "always"
            cx.bad(None, construct=f"_to_json of a one-value struct / array gives {tj} / {aj} when {conds}", detail="the form does not carry the value itself for some values: constructing the type from it yields another value (e.g. non-finite floats emitted as null come back as NaN)", anchor="struct::Struct._to_json", sub="value")
            return
    res = I.explore(thunk, max_paths=8)
    if len(res) != 1 or res[0]["exc"] is not None:
        e = res[0]["exc"]
        if e is not None and e.etype in ("ValueError", "TypeError", "KeyError", "IndexError"):
            cx.bad(None, construct="S(json form of an S object)", detail=f"constructing the type from the JSON form of one of its objects raises {e.etype}: {e.msg}", anchor="struct::Struct._to_json")
            return
        raise AnalysisError(f"[J3] JSON forms cannot be evaluated: {e.etype if e else 'fork'}: {e.msg if e else res[0]['conds']}")
    j = out["json"]
    want = {"a": V("va"), "t": {"v": V("tv"), "k": V("tk")}, "arr": [V("x0"), V("x1"), V("x2")], "fix": [V("f0"), V("f1"), V("f2")], "arrT": [{"v": V("yv0"), "k": V("yk0")}, {"v": V("yv1"), "k": V("yk1")}], "b": V("vb")}

    def same(x, y):
        if isinstance(y, dict):
            return isinstance(x, dict) and list(x.keys()) == list(y.keys()) and all(same(x[k], y[k]) for k in y)
        if isinstance(y, list):
            return isinstance(x, (list, tuple)) and len(x) == len(y) and all(same(a_, b_) for a_, b_ in zip(x, y))
        return topoly(x) is not None and topoly(x) == topoly(y)

    cx.check(same(j, want), None, construct=f"Struct._to_json -> {str(j)[:150]}", detail="one key per field (declaration order), nested structs as dicts, arrays as lists of all items",
             bad_detail=f"the JSON form is {str(j)[:200]}; expected every field by name with nested dict / list forms: {str(want)[:200]}", anchor="struct::Struct._to_json", sub="form")
    cx.check(same(out["ajson"], want["arr"]), None, construct=f"Array._to_json -> {out['ajson']}", detail="list of all items in index order", bad_detail=f"Array._to_json gives {out['ajson']}, expected {want['arr']}", anchor="array::Array._to_json", sub="form")
    # round trip: same bytes at the same relative positions
    for nm, p1, p2, sz in (("struct", out["p1"], out["p2"], out["size"]), ("array", out["pa1"], out["pa2"], out["asize"])):
        n_words = bad = 0
        first = None
        memn = out["mem"]
        for k, v in out["mem1"].items():
            try:
                kp = Lin().poly(ast.parse(k, mode="eval").body)
            except Exception:
                continue
            rel = kp - p1
            if rel.is_const() and 0 <= rel.const_value() < (sz if isinstance(sz, int) else 10 ** 6):
                n_words += 1
                v2 = memn.get(repr(p2 + rel))
                if v2 is None or topoly(v2) is None or topoly(v) is None or topoly(v2) != topoly(v):
                    # offsets inside the object are relative: equal; values: equal symbols
                    bad += 1
                    first = first or (rel.const_value(), v, v2)
        cx.need(n_words >= 5, f"[J3] only {n_words} words of the original {nm} found in the abstract memory")
        cx.check(bad == 0, None, construct=f"{nm}: T(json form) writes {n_words} words identical to the original's", detail="constructing the type from an object's JSON form reproduces the object",
                 bad_detail=f"{bad} of {n_words} words differ, e.g. at +{first[0] if first else '?'}: original {first[1] if first else '?'!r}, rebuilt {first[2] if first else '?'!r}", anchor="struct::Struct._to_json" if nm == "struct" else "array::Array._to_json", sub="roundtrip")
    # a struct with an array of MORE THAN ONE axis (a reference-free struct of the grammar): the form holds every item, as
    # nested lists with one level per axis -- what the constructor takes  (PF63: only the first column was emitted)
    out2 = {}

    def thunk2():
        sc = I.global_lookup("scalar", "Float64")
        for order, nm in (((0, 1), "C"), ((1, 0), "F")):
            A23 = lab.array("Arr2x3Float64", (2, 3), order, sc)
            M = lab.struct("M" + nm, [("k", sc), ("m", A23)])
            m1 = I.call(M, [], {"k": V("mk"), "m": lab.value("m", [2, 3], elem=lambda k: V(f"m{k[0]}{k[1]}")), "_buffer": W.buffer})
            out2[nm] = I.call(I.getattr(m1, "_to_json"), [], {})
        return None

    res2 = I.explore(thunk2, max_paths=8)
    if len(res2) != 1 or res2[0]["exc"] is not None:
        e = res2[0]["exc"]
        raise AnalysisError(f"[J3] the JSON form of a struct with a 2-d array cannot be evaluated: {e.etype if e else 'fork'}: {e.msg if e else res2[0]['conds']}")
    want2 = {"k": V("mk"), "m": [[V(f"m{i}{j_}") for j_ in range(3)] for i in range(2)]}
    for nm in ("C", "F"):
        cx.check(same(out2[nm], want2), None, construct=f"Struct._to_json with a 2-d array field ({nm} order) -> {str(out2[nm])[:120]}", detail="every item, as nested lists with one level per axis (index order)",
                 bad_detail=f"the JSON form is {str(out2[nm])[:160]}; the array holds {str(want2['m'])[:120]}: items are lost / misplaced, constructing the type from the form cannot reproduce the object", anchor="array::Array._to_json", sub="form.2d")
    uj = out["ujson"]
    ok = isinstance(uj, tuple) and len(uj) == 2 and uj[0] == "T2" and same(uj[1], {"w": V("uw")})
    cx.check(ok, None, construct=f"UnionRef._to_json -> {uj}", detail="(member class name, member form): the (str, data) arm of the union writer consumes it (R14)", bad_detail=f"UnionRef._to_json gives {uj}, expected ('T2', {{'w': ...}})", anchor="ref::UnionRef._to_json", sub="union")
    d = out["dispatch"]
    ok = len(d) == 4 and d[0] == ((1, 2), ()) and d[1] == ((), (("x", 1), ("y", 2))) and d[2] == ((7,), ()) and d[3] == (([1, 2],), ())
    cx.check(ok, None, construct=f"dispatch_arg: tuple -> f(*arg), dict -> f(**arg), other -> f(arg)", detail="constructors accept the tuple / dict forms", bad_detail=f"dispatch_arg calls were {d}", anchor="typeutils::dispatch_arg", sub="dispatch")


# ------------------------------------------------------------------------------------------ R10e one locator
@rule("R10e", ["C10", "C06"], "Array: for every in-range index, get, set and offset-of address the very place where construction stored that item")
def r10e(cx):
    """evaluated: 1-D and 2-D arrays (C and Fortran order for 2-D) of statically sized leaves, statically sized
    compounds and dynamically sized items are built from a value with one tagged element per index; for every index
    `_get_offset(idx)`, the position `__getitem__(idx)` reads and the position `__setitem__(idx, v)` writes (fresh
    write for leaves, in-place `_update` for compounds) must all equal the position at which construction wrote the
    element of that index."""
    m = cx.m
    lab = Lab(m)
    I, W = lab.I, lab.W
    n = 0
    for nd, order, static_shape in ((1, (0,), False), (2, (0, 1), False), (2, (1, 0), False), (1, (0,), True), (2, (0, 1), True), (2, (1, 0), True)):
        for itemkind in ("leaf", "compound", "dynamic"):
            dims = [3, 2][:nd]
            out = {}

            def thunk():
                if itemkind == "leaf":
                    item = W.desc("it", 8)
                elif itemkind == "compound":
                    item = W.desc("it", 24, has_update=True)
                else:
                    item = W.desc("it", None)
                cls = lab.array("Arr", list(dims) if static_shape else [None] * nd, order, item)
                val = lab.value("e", dims)
                I.call(I.getattr(cls, "_to_buffer"), [W.buffer, Sym(OFF), val, I.call(I.getattr(cls, "_inspect_args"), [val], {})], {})
                built = {}
                for e in I.effects:
                    if e.kind == "child_write" and isinstance(e.value, Opaque):
                        built[e.value.tag] = pol(e.pos)
                out["built"] = built
                h = I.call(I.getattr(cls, "_from_buffer"), [W.buffer, Sym(OFF)], {})
                rows = []
                for idx in itertools.product(*[range(d) for d in dims]):
                    key = idx[0] if nd == 1 else tuple(idx)
                    o = I.call(I.getattr(h, "_get_offset"), [key], {})
                    n0 = len(I.effects)
                    I.call(I.getattr(h, "__getitem__"), [key], {})
                    rd = [pol(e.pos) for e in I.effects[n0:] if e.kind == "child_read"]
                    n1 = len(I.effects)
                    I.call(I.getattr(h, "__setitem__"), [key, Opaque("newval")], {})
                    wr = [(e.kind, pol(e.pos)) for e in I.effects[n1:] if e.kind in ("child_write", "view_update") and getattr(e, "value", None) is not None and isinstance(e.value, Opaque) and e.value.tag == "newval"]
                    rows.append((idx, pol(o), rd, wr))
                out["rows"] = rows

            res = I.explore(thunk, max_paths=64)
            label = f"{nd}-D array ({'static' if static_shape else 'dynamic'} shape), order {order}, {itemkind} items"
            cx.recog(bool(res) and all(r["exc"] is None for r in res), None, f"R10e {label}: evaluation raises {[r['exc'].etype for r in res if r['exc']][:1]}")
            bad = ""
            for idx, o, rd, wr in out.get("rows", []):
                n += 1
                tag = "e" + _idx(idx)
                place = out["built"].get(tag)
                if place is None:
                    cx.recog(False, None, f"R10e {label}: construction wrote no element tagged {tag} ({sorted(out['built'])[:4]})")
                if o != place:
                    bad = f"_get_offset{list(idx)} = {o!r}, construction stored that item at {place!r}"
                elif not rd or rd[-1] != place:
                    bad = f"__getitem__{list(idx)} reads at {rd!r}, the item is at {place!r}"
                elif len(wr) != 1 or wr[0][1] != place:
                    bad = f"__setitem__{list(idx)} writes at {[w[1] for w in wr]!r}, the item is at {place!r}"
                elif (wr[0][0] == "view_update") != (itemkind == "compound"):
                    bad = f"__setitem__{list(idx)} on a {itemkind} item goes through {wr[0][0]}"
                if bad:
                    break
            cx.check(not bad, None, construct=f"{label}: {len(out.get('rows', []))} indices, offset-of = read position = write position = construction position", detail="one locator for all accessors",
                     bad_detail=f"reads and writes of one index address different bytes: {bad}", anchor="array::Array._get_offset")
    cx.need(n >= 40, f"only {n} index cases")


# ------------------------------------------------------------------------------------------ G3e index refusal
@rule("G3e", ["C11"], "an index outside the shape is refused by every Array accessor (read, write, offset-of) for static- and dynamic-item arrays, before any read or write")
def g3e(cx):
    """evaluated: 1-D and 2-D arrays with statically and dynamically sized items; indices -1, dim, dim+5 and (for 2-D)
    a bad component in either position; `__getitem__`, `__setitem__`, `_get_offset` must raise IndexError, and
    `__setitem__` must not have written anything.  In-range corner indices (0, dim-1) must NOT raise."""
    m = cx.m
    lab = Lab(m)
    I, W = lab.I, lab.W
    n = 0
    for nd in (1, 2):
        for itemkind in ("static", "dynamic"):
            dims = [2, 3][:nd]
            # (the last ones have MORE entries than the array has axes: a position that does not exist, even though
            # every leading component is in range -- PF59)
            bads = [(-1,), (2,), (7,), (1, 7), (0, 0)] if nd == 1 else [(-1, 0), (0, -1), (2, 0), (0, 3), (1, 9), (1, 2, 0), (0, 0, 5)]
            goods = [(0,), (1,)] if nd == 1 else [(0, 0), (1, 2)]
            for acc in ("__getitem__", "__setitem__", "_get_offset"):
                for idx, expect in [(b, "refuse") for b in bads] + [(g, "accept") for g in goods]:
                    n += 1
                    out = {}

                    def thunk():
                        if itemkind == "static":
                            item = W.desc("it", 8)
                        else:
                            item = W.desc("it", None)
                            item.attrs["_inspect_args"] = Builtin("it._inspect_args", lambda *a, **k: W.info(size=Sym(Poly.atom("n_" + (a[0].tag if a and isinstance(a[0], Opaque) else "x")))))
                        cls = lab.array("Arr", [None] * nd, tuple(range(nd)), item)
                        val = lab.value("e", dims)
                        I.call(I.getattr(cls, "_to_buffer"), [W.buffer, Sym(OFF), val, I.call(I.getattr(cls, "_inspect_args"), [val], {})], {})
                        h = I.call(I.getattr(cls, "_from_buffer"), [W.buffer, Sym(OFF)], {})
                        n0 = len(I.effects)
                        out["n0"] = n0
                        key = idx[0] if len(idx) == 1 else tuple(idx)
                        if acc == "__setitem__":
                            I.call(I.getattr(h, acc), [key, Opaque("newval")], {})
                        else:
                            I.call(I.getattr(h, acc), [key], {})
                        return None

                    res = I.explore(thunk, max_paths=16)
                    label = f"{nd}-D array of {itemkind}-size items: {acc}{list(idx)}"
                    anchor = f"array::Array.{acc}"
                    if expect == "refuse":
                        accepted = [r for r in res if r["exc"] is None or r["exc"].etype != "IndexError"]
                        wrote = any(any(e.kind in ("child_write", "write", "write_array", "view_update") for e in r["effects"][out.get("n0", 0):]) for r in res)
                        cx.check(not accepted and not wrote, None, construct=label, detail="refused with IndexError before anything is read or written",
                                 bad_detail=("an out-of-range index is accepted" + (" (negative indices wrap around silently in the cached offset table)" if idx and min(idx) < 0 else " (more entries than axes: the surplus is ignored silently)" if len(idx) > nd else "") if accepted else "something is written before the refusal"), anchor=anchor, sub="refuse")
                    else:
                        okp = [r for r in res if r["exc"] is None]
                        cx.check(bool(okp), None, construct=label, detail="in-range index accepted", bad_detail=f"an in-range index is refused: {res[0]['exc'].etype if res[0]['exc'] else ''}", anchor=anchor, sub="accept")
    cx.need(n >= 60, f"only {n} index cases")


def np_prod(xs):
    out = 1
    for x in xs:
        out *= x
    return out


# ------------------------------------------------------------------------------------------ R13 shape refusal
@rule("R13", ["C11", "C03"], "construction / whole-array update from an array-like value of another shape is refused before anything is allocated or written")
def r13(cx):
    """The bulk path writes `value.nbytes` bytes whatever the target's extent, so the only protection is the shape
    comparison of the planner.  It is evaluated for every array descriptor (1-2 dims, static/dynamic) with array-like
    values whose shape (a) differs in a fixed dimension, (b) has an extra trailing axis, (c) lacks an axis: every path
    must end in a raise with no allocation and no write before it (seeded C11-b truncated the reported shape to the
    first nd axes, so (b) was accepted and written past the end)."""
    m = cx.m
    lab = Lab(m)
    I, W = lab.I, lab.W
    n = 0
    for nd in (1, 2):
        for mask in itertools.product([False, True], repeat=nd):
            cshape = [None if mask[k] else STATIC_DIMS[k] for k in range(nd)]
            dims = [DIMS[k] if mask[k] else STATIC_DIMS[k] for k in range(nd)]
            variants = [("an extra trailing axis", dims + [3]), ("one axis missing", dims[:-1] if nd > 1 else None)]
            for k in range(nd):
                if not mask[k]:
                    bad = list(dims)
                    bad[k] = dims[k] + 1
                    variants.append((f"fixed dimension {k} of another length", bad))
            variants.append(("two positional arguments", "2args"))
            for k in range(nd):
                if mask[k]:
                    bad = list(dims)
                    bad[k] = dims[k] + 1
                    variants.append((f"dynamic dimension {k} of another length (update only)", ("upd", bad)))
            if nd == 2 and all(mask) and dims[0] != dims[1]:
                # a value with the SAME number of items but the dimensions exchanged whose len() is the item count (as
                # len() of an xobject array is): passes the length comparison of _update, only the shape check stops it
                variants.append(("same item count, dimensions exchanged, len() = item count (update only)", ("upd-len", [dims[1], dims[0]])))
            for what, vshape in variants:
                if vshape is None:
                    continue
                lenmode = "first"
                for op in ("construct", "update"):
                    if vshape == "2args" and (op == "update" or any(mask)):
                        continue
                    if isinstance(vshape, tuple) and vshape[0] in ("upd", "upd-len"):
                        if op == "construct":
                            continue
                        lenmode = "count" if vshape[0] == "upd-len" else "first"
                        vshape = vshape[1]
                    n += 1
                    label = f"array[shape={cshape}] {op} from " + (f"an array-like of shape {tuple(vshape)} ({what})" if vshape != "2args" else "two positional arguments")

                    def thunk():
                        cls = lab.array("Arr", cshape, tuple(range(nd)), I.global_lookup("scalar", "Float64"))
                        if vshape == "2args":
                            val = lab.value("e", dims, nplike=True)
                            I.call(cls, [val, val], {"_buffer": W.buffer})
                        elif op == "construct":
                            val = lab.value("e", vshape, nplike=True)
                            I.call(cls, [val], {"_buffer": W.buffer})
                        else:
                            good = lab.value("g", dims, nplike=True)
                            h = I.call(cls, [good], {"_buffer": W.buffer})
                            n0 = len(I.effects)
                            val = lab.value("e", vshape, nplike=True)
                            val.attrs["__len__"] = Builtin("len", lambda: vshape[0] if lenmode == "first" else int(np_prod(vshape)))
                            I.call(I.getattr(h, "_update"), [val], {})
                            return n0
                        return 0

                    res = I.explore(thunk, max_paths=16)
                    anchor = "array::Array._inspect_args" if op == "construct" else "array::Array._update"
                    accepted = [r for r in res if r["exc"] is None]
                    if accepted:
                        cx.bad(None, construct=label, detail="the value is accepted: the bulk write moves value.nbytes bytes, i.e. more (or other) bytes than the array owns -- neighbours are overwritten without any error", anchor=anchor, sub=op)
                        continue
                    late = False
                    for r in (res if op == "update" else []):  # a refused construction may leak its fresh allocation: no existing object changes
                        n0 = 0
                        effs = r["effects"]
                        if op == "update":
                            # effects of the valid construction come first; find those after it by the value tag
                            effs = [e for e in effs if any(isinstance(getattr(e, a, None), Obj) and getattr(getattr(e, a), "name", None) == "e" for a in ("value", "values")) or (e.kind in ("update_from_nplike",) and any(isinstance(x, Obj) and x.name == "e" for x in getattr(e, "args", ())))]
                        else:
                            effs = [e for e in effs if e.kind in ("alloc", "write", "write_array", "child_write", "update_from_nplike", "update_from_xbuffer")]
                        if effs:
                            late = True
                    cx.check(not late, None, construct=label, detail="refused with no allocation or write before the raise", bad_detail="the refusal comes after an allocation / a write", anchor=anchor, sub=op)
    # static SHAPE, dynamically sized ITEMS: the planner must look at the value's shape as well (it takes the shape
    # from the class: a longer list would silently lose its tail)
    for vshape, what in (([STATIC_DIMS[0] + 1], "one item too many"), ([STATIC_DIMS[0] - 1], "one item too few")):
        n += 1

        def thunk_dyn():
            item = W.desc("it", None)
            cls = lab.array("ArrDynItems", [STATIC_DIMS[0]], (0,), item)
            val = [Opaque(f"v{k}") for k in range(vshape[0])]
            I.call(cls, [val], {"_buffer": W.buffer})
            return 0

        res = I.explore(thunk_dyn, max_paths=16)
        accepted = [r for r in res if r["exc"] is None]
        cx.check(not accepted, None, construct=f"array[shape=[{STATIC_DIMS[0]}]] of dynamically sized items constructed from a list of {vshape[0]} values ({what})", detail="refused",
                 bad_detail="the value is accepted: the planner takes the shape from the class and never compares it with the value's (extra items are dropped silently, missing ones read past the list)", anchor="array::Array._inspect_args", sub="construct")
    cx.need(n >= 18, f"only {n} shape-refusal cases")


# ------------------------------------------------------------------------------------------ R14 reference writers/readers
@rule("R14", ["C08", "C05", "C09", "C11"], "reference writers and readers, evaluated: relative encoding, aliasing only inside the holder's buffer, duplicate otherwise, null, member id, refusal of non-members")
def r14(cx):
    """`Ref._to_buffer/_from_buffer`, `MetaUnionRef._to_buffer/_from_buffer` and `UnionRef.get` of the current source are
    evaluated on an abstract memory for every kind of value the documentation names: None, an object of the referent
    type in the holder's buffer (must be ALIASED: stored word = its position - slot position, nothing constructed), the
    same in another buffer and plain data (a NEW object must be constructed in the holder's buffer and referenced), for
    unions additionally every member class (recorded id = position in _reftypes), the (name, data) form, the 1-tuple
    and empty-tuple forms, another UnionRef as source, and a non-member (must be refused before the slot is written).
    After each write the readers must return None / a view of the right class at the referent's position."""
    m = cx.m
    lab = Lab(m)
    I, W = lab.I, lab.W
    SLOT = Poly.atom("slot")
    sc = I.global_lookup("scalar", "Float64")

    def setup():
        T = lab.struct("T", [("v", sc)])
        T2 = lab.struct("T2", [("w", sc), ("x", sc)])
        X = lab.struct("X", [("q", sc)])
        Ref = I.global_lookup("ref", "Ref")
        R = I.call(Ref, [T], {})
        MU = I.global_lookup("ref", "MetaUnionRef")
        U0 = I.global_lookup("ref", "UnionRef")
        U = I.call(I.class_attrs(MU)["__new__"], [MU, "U", (U0,), {"_reftypes": (T, T2)}], {})
        other = W.mk_buffer("other")
        return T, T2, X, R, U, other

    NULLV = -(2 ** 63)

    def word(mem, pos):
        v = mem.get(repr(pos))
        return None if v is None else pol(v)

    cases = []
    # (label, kind 'ref'|'union', builder(T,T2,X,R,U,other) -> value, expectation)
    cases.append(("Ref <- None", "ref", lambda e: None, ("null",)))
    cases.append(("Ref <- object of the referent type in the holder's buffer", "ref", lambda e: I.call(e["T"], [], {"v": Opaque("a"), "_buffer": W.buffer}), ("alias", "T")))
    cases.append(("Ref <- object of the referent type in ANOTHER buffer", "ref", lambda e: I.call(e["T"], [], {"v": Opaque("a"), "_buffer": e["other"]}), ("new", "T")))
    cases.append(("Ref <- plain data", "ref", lambda e: {"v": Opaque("a")}, ("new", "T")))
    cases.append(("UnionRef <- None", "union", lambda e: None, ("null",)))
    cases.append(("UnionRef <- ()", "union", lambda e: (), ("null",)))
    cases.append(("UnionRef <- first member in the holder's buffer", "union", lambda e: I.call(e["T"], [], {"v": Opaque("a"), "_buffer": W.buffer}), ("alias", "T", 0)))
    cases.append(("UnionRef <- second member in the holder's buffer", "union", lambda e: I.call(e["T2"], [], {"w": Opaque("a"), "x": Opaque("b"), "_buffer": W.buffer}), ("alias", "T2", 1)))
    cases.append(("UnionRef <- (member,) 1-tuple", "union", lambda e: (I.call(e["T2"], [], {"w": Opaque("a"), "x": Opaque("b"), "_buffer": W.buffer}),), ("alias", "T2", 1)))
    cases.append(("UnionRef <- member in ANOTHER buffer", "union", lambda e: I.call(e["T2"], [], {"w": Opaque("a"), "x": Opaque("b"), "_buffer": e["other"]}), ("new", "T2", 1)))
    cases.append(("UnionRef <- ('T2', data)", "union", lambda e: ("T2", {"w": Opaque("a"), "x": Opaque("b")}), ("new", "T2", 1)))
    cases.append(("UnionRef <- object of a class that is no member", "union", lambda e: I.call(e["X"], [], {"q": Opaque("a"), "_buffer": W.buffer}), ("refuse",)))
    cases.append(("UnionRef <- another UnionRef (same buffer) pointing to a member", "union", "usrc", ("alias-through", "T", 0)))
    cases.append(("UnionRef <- object of a class DERIVED from a member but with its own fields (another layout, another name)", "union", "derived", ("refuse",)))
    cases.append(("UnionRef <- another UnionRef (same buffer) that is null", "union", "unull", ("null",)))
    cases.append(("UnionRef <- another UnionRef (another buffer) that is null", "union", "unull-other", ("null",)))
    n = 0
    for label, kind, build, exp in cases:
        n += 1
        out = {}

        def thunk():
            T, T2, X, R, U, other = setup()
            env = {"T": T, "T2": T2, "X": X, "R": R, "U": U, "other": other}
            if build == "derived":
                MS = I.global_lookup("struct", "MetaStruct")
                D = I.call(I.class_attrs(MS)["__new__"], [MS, "Derived", (T,), {"n": sc, "m": sc, "k": sc}], {})
                val = I.call(D, [], {"n": Opaque("a"), "_buffer": W.buffer})
                out["target"] = val
            elif build in ("unull", "unull-other"):
                val = I.call(U, [], {"_buffer": W.buffer if build == "unull" else other})
                out["target"] = None
            elif build == "usrc":
                tgt = I.call(T, [], {"v": Opaque("a"), "_buffer": W.buffer})
                val = I.call(U, [tgt], {"_buffer": W.buffer})
                out["target"] = tgt
            else:
                val = build(env)
                out["target"] = val[0] if isinstance(val, tuple) and len(val) == 1 else val
            writer = R if kind == "ref" else U
            n0 = len(I.effects)
            I.call(I.getattr(writer, "_to_buffer"), [W.buffer, Sym(SLOT), val], {})
            out["eff"] = list(I.effects[n0:])
            out["mem"] = dict(I.mem)
            out["read"] = I.call(I.getattr(writer, "_from_buffer"), [W.buffer, Sym(SLOT)], {})
            if kind == "union":
                h = Obj("instance", {"_buffer": W.buffer, "_offset": Sym(SLOT)}, cls=U)
                out["get"] = I.call(I.getattr(h, "get"), [], {})
            out["env"] = env
            return dict(out)

        res = I.explore(thunk, max_paths=8)
        anchor = "ref::Ref._to_buffer" if kind == "ref" else "ref::MetaUnionRef._to_buffer"
        if len(res) > 1 and exp[0] != "refuse":
            # an undecided comparison of symbolic positions: the verdict is taken on the GENERIC path (no accidental
            # coincidence of positions: every `==` between symbolic values false, every `!=` true); if there is not
            # exactly one such path the case cannot be decided
            gen = [r for r in res if all(not (("==" in t and v is True and "!=" not in t) or ("!=" in t and v is False)) for t, v in r["conds"])]
            cx.recog(len(gen) == 1, None, f"R14 {label}: {len(res)} evaluation paths, {len(gen)} generic")
            res = gen
            if res[0]["exc"] is None:
                out = res[0]["result"]
        if exp[0] == "refuse":
            ok = all(r["exc"] is not None and r["exc"].etype in ("ValueError", "TypeError") for r in res)
            wrote = any(any(e.kind in ("write", "write_array") and getattr(e, "pos", None) is not None and (pol(e.pos) - SLOT).is_const() for e in r["effects"]) for r in res)
            cx.check(ok and not wrote, None, construct=label, detail="refused before the slot is written", bad_detail=("a value that is no member is accepted" if not ok else "the slot is written before the refusal"), anchor=anchor, sub="refuse")
            continue
        if len(res) != 1 or res[0]["exc"] is not None:
            e = res[0]["exc"]
            cx.bad(None, construct=label, detail=f"evaluation raises {e.etype if e else 'fork'}: {e.msg if e else res[0]['conds']}", anchor=anchor, sub="eval")
            continue
        mem, eff = out["mem"], out["eff"]
        w0 = word(mem, SLOT)
        w1 = word(mem, SLOT + Poly.const(8))
        allocs = [e for e in eff if e.kind == "alloc"]
        probs = []
        rd = out["read"]
        if exp[0] == "null":
            if w0 != Poly.const(NULLV):
                probs.append(f"null is stored as {w0!r}, the reserved value is -2**63")
            if kind == "union" and w1 != Poly.const(-1):
                probs.append(f"null member id is stored as {w1!r}, the reserved value is -1")
            if rd is not None or (kind == "union" and out.get("get") is not None):
                probs.append("a null reference does not read back as None")
            if allocs:
                probs.append("writing null allocates")
        else:
            tgt = out["target"]
            clsname = exp[1]
            if exp[0] in ("alias", "alias-through"):
                tpos = pol(I.getattr(tgt, "_offset"))
                if allocs:
                    probs.append(f"an object that already lives in the holder's buffer is duplicated ({len(allocs)} allocation(s)) instead of being shared: later writes through either handle are not seen by the other")
                if w0 != tpos - SLOT:
                    probs.append(f"stored word is {w0!r}, expected (position of the object - position of the slot) = {(tpos - SLOT)!r}")
                want_pos = tpos
            else:
                mine = [e for e in allocs if e.buf is W.buffer]
                if len(mine) != 1:
                    probs.append(f"{len(mine)} object(s) allocated in the holder's buffer, expected exactly one new object of the referent type")
                    want_pos = None
                else:
                    want_pos = pol(mine[0].pos)
                    if w0 != want_pos - SLOT:
                        probs.append(f"stored word is {w0!r}, expected (position of the new object - position of the slot) = {(want_pos - SLOT)!r}: the reference does not denote the object created in the holder's buffer")
                if any(e.buf is not W.buffer for e in allocs):
                    probs.append("an object is allocated in another buffer than the holder's")
            if kind == "union" and w1 != Poly.const(exp[2]):
                probs.append(f"member id stored is {w1!r}, the member is number {exp[2]} of _reftypes")
            for nm, r_ in (("_from_buffer", rd),) + ((("get", out.get("get")),) if kind == "union" else ()):
                if not isinstance(r_, Obj):
                    probs.append(f"{nm} returns {r_!r} instead of a view of the referent")
                    continue
                rc = r_.cls
                if getattr(rc, "name", None) != clsname:
                    probs.append(f"{nm} returns a view of class {getattr(rc, 'name', rc)!r}, the referent is a {clsname}")
                if want_pos is not None and pol(I.getattr(r_, "_offset")) != want_pos:
                    probs.append(f"{nm} views position {I.getattr(r_, '_offset')!r}, the referent is at {want_pos!r}")
                if I.getattr(r_, "_buffer") is not W.buffer:
                    probs.append(f"{nm} views another buffer than the holder's")
        if probs:
            for msg in probs[:2]:
                cx.bad(None, construct=f"{label}: {msg}", detail="reference semantics (alias in the same buffer, new object otherwise, relative encoding, reserved null)", anchor=anchor, sub=exp[0])
        else:
            cx.ok(None, construct=label, detail={"null": "reserved null written, reads back None", "alias": "aliased: stored word = object - slot, nothing constructed, readers view the object", "alias-through": "refers to the object the source union points to", "new": "one new object in the holder's buffer, referenced relatively, readers view it"}[exp[0]], anchor=anchor, sub=exp[0])
    # ---- default-initialised arrays of references: every slot holds the null encoding of its kind
    for kind in ("ref", "union"):
        for how in ("by length", "static shape, no argument"):
            n += 1
            out = {}

            def thunk2():
                T, T2, X, R, U, other = setup()
                item = R if kind == "ref" else U
                if how == "by length":
                    cls = lab.array("AR", (None,), (0,), item)
                    h = I.call(cls, [2], {"_buffer": W.buffer})
                else:
                    cls = lab.array("AR", (2,), (0,), item)
                    h = I.call(cls, [], {"_buffer": W.buffer})
                out["pos"] = [pol(I.call(I.getattr(h, "_get_offset"), [k], {})) for k in range(2)]
                out["mem"] = dict(I.mem)
                out["items"] = [I.call(I.getattr(h, "__getitem__"), [k], {}) for k in range(2)]
                return None

            res = I.explore(thunk2, max_paths=8)
            label = f"array of {'Ref' if kind == 'ref' else 'UnionRef'} items created {how}"
            if len(res) != 1 or res[0]["exc"] is not None:
                e = res[0]["exc"]
                raise AnalysisError(f"[R14] {label}: cannot be evaluated: {e.etype if e else 'fork'}: {e.msg if e else res[0]['conds']}")
            probs = []
            for k, p0 in enumerate(out["pos"]):
                w0 = word(out["mem"], p0)
                if w0 != Poly.const(NULLV):
                    probs.append(f"slot {k}: offset word is {w0!r}, a never-assigned reference must hold the reserved null -2**63")
                if kind == "union":
                    w1 = word(out["mem"], p0 + Poly.const(8))
                    if w1 != Poly.const(-1):
                        probs.append(f"slot {k}: member id word is {w1!r}, a null union reference records -1 (the C `typeid` accessor returns this word)")
                if out["items"][k] is not None:
                    probs.append(f"slot {k} does not read back as None")
            if probs:
                for msg in probs[:2]:
                    cx.bad(None, construct=f"{label}: {msg}", detail="default value of a reference is null, encoded as for an explicit None", anchor="array::Array._to_buffer", sub="default")
            else:
                cx.ok(None, construct=label, detail="every slot holds the null encoding of its kind and reads back None", anchor="array::Array._to_buffer", sub="default")
    # ---- arrays of references built from a LIST of objects that live in the holder's buffer: every item aliases its
    # object (nothing is constructed).  Referents that are sequences themselves (xobject arrays) of equal length are the
    # case in which a generic list -> array conversion takes the items apart (PF30)
    for label, mk in (("struct referents", "struct"), ("array referents of different lengths", "arr-ragged"), ("array referents of equal length", "arr-equal")):
        n += 1
        out = {}

        def thunk3():
            T, T2, X, R, U, other = setup()
            RefC = I.global_lookup("ref", "Ref")
            if mk == "struct":
                item = R
                t = [I.call(T, [], {"v": 1.5, "_buffer": W.buffer}), I.call(T, [], {"v": 2.5, "_buffer": W.buffer})]
            else:
                ArrF = lab.array("ArrNFloat64", (None,), (0,), sc)
                item = I.call(RefC, [ArrF], {})
                t = [I.call(ArrF, [[1.0, 2.0, 3.0]], {"_buffer": W.buffer}), I.call(ArrF, [[4.0, 5.0, 6.0] if mk == "arr-equal" else [4.0, 5.0]], {"_buffer": W.buffer})]
            cls = lab.array("AR", (None,), (0,), item)
            n0 = len([e for e in I.effects if e.kind == "alloc"])
            h = I.call(cls, [list(t)], {"_buffer": W.buffer})
            out["allocs"] = len([e for e in I.effects if e.kind == "alloc"]) - n0
            out["pos"] = [pol(I.call(I.getattr(h, "_get_offset"), [k], {})) for k in range(2)]
            out["tpos"] = [pol(x.attrs["_offset"]) for x in t]
            out["mem"] = dict(I.mem)
            return None

        res = I.explore(thunk3, max_paths=8)
        lab_ = f"array of Ref items built from a list of {label} of the same buffer"
        if len(res) != 1 or res[0]["exc"] is not None:
            e = res[0]["exc"]
            raise AnalysisError(f"[R14] {lab_}: cannot be evaluated: {e.etype if e else 'fork'}: {e.msg if e else res[0]['conds']}")
        probs = []
        if out["allocs"] != 1:
            probs.append(f"{out['allocs'] - 1} object(s) are constructed besides the array itself: the items refer to duplicates, not to the objects given")
        for k in range(2):
            w0 = word(out["mem"], out["pos"][k])
            if w0 != out["tpos"][k] - out["pos"][k]:
                probs.append(f"slot {k} holds {w0!r}, the object given lives at relative position {out['tpos'][k] - out['pos'][k]!r}")
        if probs:
            cx.bad(None, construct=lab_, detail="; ".join(probs[:2]), anchor="array::Array._to_buffer", sub="list")
        else:
            cx.ok(None, construct=lab_, detail="every item aliases the object given (stored word = its position - slot position), nothing is constructed", anchor="array::Array._to_buffer", sub="list")
    cx.need(n >= 23, "R14 cases")


# ------------------------------------------------------------------------------------------ L1b bulk path
@rule("L1b", ["C01", "C05"], "array bulk (ndarray) initialisation writes the values in memory order at the data offset")
def l1b(cx):
    m = cx.m
    lab = Lab(m)
    I, W = lab.I, lab.W
    n = 0
    for nd in (1, 2, 3):
        for order in itertools.permutations(range(nd)):
            for dyn in (False, True):
                n += 1
                cshape = [None if dyn else STATIC_DIMS[k] for k in range(nd)]
                dims = [DIMS[k] if dyn else STATIC_DIMS[k] for k in range(nd)]
                label = f"nd={nd} order={list(order)} {'dynamic' if dyn else 'static'} shape"
                out = {}

                def thunk():
                    Float = I.global_lookup("scalar", "Float64")
                    cls = lab.array("Arr", cshape, order, Float)
                    val = lab.value("v", dims, nplike=True)
                    info = I.call(I.getattr(cls, "_inspect_args"), [val], {})
                    I.call(I.getattr(cls, "_to_buffer"), [W.buffer, Sym(OFF), val, info], {})
                    out["eff"] = list(I.effects)
                    out["cls"] = cls
                    return cls

                res = lab.I.explore(thunk, max_paths=16)
                good = [r for r in res if r["exc"] is None]
                if not good:
                    e = res[0]["exc"]
                    cx.bad(None, construct=f"bulk[{label}]", detail=f"evaluation raises {e.etype}: {e.msg}", anchor="array::Array._to_buffer")
                    continue
                # take the path where the value is already a context array
                r = good[0]
                ups = [e for e in r["effects"] if e.kind == "update_from_nplike"]
                if len(ups) != 1:
                    cx.bad(None, construct=f"bulk[{label}]", detail=f"{len(ups)} bulk writes on the ndarray path", anchor="array::Array._to_buffer")
                    continue
                pos, dt, operand = ups[0].args
                cls = out["cls"]
                want_pos = OFF + Poly.const(cls.attrs["_data_offset"])
                perm = getattr(operand, "perm", None)
                ident = list(range(nd))
                want_perm = list(order)
                perm_ok = (perm == want_perm) or (perm is None and want_perm == ident)
                cx.check(pol(pos) == want_pos and perm_ok, None, construct=f"bulk[{label}]: update_from_nplike(off+{cls.attrs['_data_offset']}, value{'.transpose(' + str(perm) + ')' if perm else ''})",
                         detail="values are laid out in the array's memory order right after the header",
                         bad_detail=(f"values are written with axis permutation {perm}, memory order needs {want_perm}: elements come back permuted" if not perm_ok else f"bulk data written at {pos!r}, documented {want_pos!r}"),
                         anchor="array::Array._to_buffer")
    cx.need(n >= 18, "bulk descriptors")


# ------------------------------------------------------------------------------------------ L6 strings
STRINGS = ["", "a", "abcdefg", "abcdefgh", "abcdefghijklmno", "héllo wörld", "日本語", "x" * 23, "x" * 24]


@rule("L6", ["C01", "C03", "C05", "C11", "C10"], "string: planned size, written extent, NUL termination and padding agree with the documented layout")
def l6(cx):
    m = cx.m
    lab = Lab(m)
    I, W = lab.I, lab.W
    String = None
    for s in STRINGS:
        out = {}

        def thunk():
            String = I.global_lookup("string", "String")
            info = I.call(I.getattr(String, "_inspect_args"), [s], {})
            out["info"] = info
            I.call(I.getattr(String, "_to_buffer"), [W.buffer, Sym(OFF), s, info], {})
            out["eff"] = list(I.effects)
            out["mem"] = dict(I.mem)

        res = _run(lab, thunk)
        if len(res) != 1 or res[0]["exc"] is not None:
            e = res[0]["exc"]
            cx.bad(None, construct=f"String({s!r})", detail=f"evaluation raises {e.etype if e else 'fork'}", anchor="string::MetaString._to_buffer")
            continue
        data = s.encode("utf8")
        want = (len(data) + 1 + 8 + 7) & -8
        size = I.getattr(out["info"], "size")
        ups = [e for e in out["eff"] if e.kind == "update_from_buffer"]
        w0 = out["mem"].get(repr(OFF))
        ok = size == want and w0 == want and len(ups) == 1
        why = f"planned size {size!r} / size word {w0!r}, documented {want} = slot(len+1+8)"
        if ok:
            pos, payload = ups[0].args
            ok = pol(pos) == OFF + Poly.const(8) and isinstance(payload, bytes) and len(payload) == want - 8 and payload.startswith(data) and set(payload[len(data):]) <= {0} and payload[len(data):len(data) + 1] == b"\x00"
            why = f"payload {payload!r} at {pos!r}: must be the UTF-8 bytes + NUL padding, exactly size-8 = {want - 8} bytes at off+8"
        cx.check(ok, None, construct=f"String({s!r}): size {want}, {len(data)} data bytes + {want - 8 - len(data)} NUL", detail="size word, data, NUL padding fill exactly the planned extent", bad_detail=why, anchor="string::MetaString._to_buffer")
    # capacity form: only the size word
    out = {}

    def thunk2():
        String = I.global_lookup("string", "String")
        info = I.call(I.getattr(String, "_inspect_args"), [10], {})
        out["info"] = info
        I.call(I.getattr(String, "_to_buffer"), [W.buffer, Sym(OFF), 10, info], {})
        out["eff"] = list(I.effects)
        out["mem"] = dict(I.mem)

    res = _run(lab, thunk2)
    ok = len(res) == 1 and res[0]["exc"] is None
    why = "evaluation fails"
    if ok:
        ups = [e for e in out["eff"] if e.kind == "update_from_buffer"]
        ok = I.getattr(out["info"], "size") == 18 and out["mem"].get(repr(OFF)) == 18
        why = "capacity form does not plan capacity+8 bytes"
        if ok:
            # the string is EMPTY whatever the memory held before: the data area must start with a NUL written now, and
            # nothing but NULs may be written, inside [off+8, off+18)
            cover = [e for e in ups if pol(e.args[0]) == OFF + Poly.const(8) and isinstance(e.args[1], (bytes, bytearray)) and len(e.args[1]) >= 1]
            ok = bool(cover) and all(isinstance(e.args[1], (bytes, bytearray)) and set(e.args[1]) <= {0} and (pol(e.args[0]) - OFF).is_const() and 8 <= (pol(e.args[0]) - OFF).const_value() and (pol(e.args[0]) - OFF).const_value() + len(e.args[1]) <= 18 for e in ups) and not [e for e in out["eff"] if e.kind == "update_from_xbuffer"]
            why = "the data area of a string created from a capacity is not cleared: in reused memory it shows the previous contents (no NUL terminator) instead of ''" if not cover else "the capacity form writes something else than NULs inside its data area"
    cx.check(ok, None, construct="String(10): size word 18, data area NUL-filled (reads back as '' on any memory)", detail="capacity form reserves capacity+8 bytes and is the empty string", bad_detail=why, anchor="string::MetaString._to_buffer")
    # a String OBJECT as value (with spare capacity, e.g. made by String(24) and filled later): the writer copies the
    # whole source object, so the planner must reserve the source's size -- planned size = bytes written
    for cap, text in ((24, None), (40, None), (None, "abcdefghijklmnopq")):
        out = {}

        def thunk4():
            W.copy_bytes = W.zero_fill = True
            String = I.global_lookup("string", "String")
            src = I.call(String, [cap if cap is not None else text], {"_buffer": W.mk_buffer("srcbuf")})
            out["srcsize"] = pol(src.attrs["_size"])
            info = I.call(I.getattr(String, "_inspect_args"), [src], {})
            out["planned"] = pol(I.getattr(info, "size"))
            n0 = len(I.effects)
            I.call(I.getattr(String, "_to_buffer"), [W.buffer, Sym(OFF), src, info], {})
            out["eff"] = list(I.effects[n0:])

        try:
            res = _run(lab, thunk4)
        finally:
            W.copy_bytes = W.zero_fill = False
        lbl = f"String <- String object of {cap + 8 if cap is not None else 'text'} bytes" + (" (spare capacity)" if cap is not None else "")
        cx.recog(len(res) == 1 and res[0]["exc"] is None, None, f"L6 {lbl}: evaluation did not end in one normal path ({res[0]['exc'] if res else ''})")
        ext = Poly.const(0)
        for e in out["eff"]:
            if e.kind == "update_from_xbuffer":
                ext = pol(e.args[3]) + (pol(e.args[0]) - OFF)
            elif e.kind == "update_from_buffer" and isinstance(e.args[1], (bytes, bytearray)):
                ext = Poly.const(len(e.args[1])) + (pol(e.args[0]) - OFF)
        ok = ext.is_const() and out["planned"].is_const() and ext.const_value() <= out["planned"].const_value()
        cx.check(ok, None, construct=f"{lbl}: planned {out['planned']!r} bytes, written extent {ext!r}", detail="the bytes written for a String object value stay inside the size the planner reserved for it",
                 bad_detail=f"the planner reserves {out['planned']!r} bytes but the writer copies {ext!r}: the excess lands on the next field / the next object", anchor="string::MetaString._inspect_args", sub="object")
    # reader (evaluated): after writing each string, _from_buffer must read exactly the written payload
    # ([off+8, off+size)) and give the string back without the NUL padding
    for s in STRINGS:
        out = {}

        def thunk3():
            String = I.global_lookup("string", "String")
            info = I.call(I.getattr(String, "_inspect_args"), [s], {})
            I.call(I.getattr(String, "_to_buffer"), [W.buffer, Sym(OFF), s, info], {})
            ups = [e for e in I.effects if e.kind == "update_from_buffer"]
            payload = ups[-1].args[1] if ups else b""
            reads = []
            old = W.buffer.attrs["to_bytearray"]

            def tba(*a, **k):
                pos = a[0] if a else k.get("offset")
                nb = a[1] if len(a) > 1 else k.get("nbytes")
                reads.append((pos, nb))
                return payload

            W.buffer.attrs["to_bytearray"] = Builtin("buffer.to_bytearray", tba)
            try:
                out["val"] = I.call(I.getattr(String, "_from_buffer"), [W.buffer, Sym(OFF)], {})
            finally:
                W.buffer.attrs["to_bytearray"] = old
            out["reads"] = reads
            out["payload"] = payload

        res = _run(lab, thunk3)
        data = s.encode("utf8")
        want = (len(data) + 1 + 8 + 7) & -8
        cx.recog(len(res) == 1 and res[0]["exc"] is None, None, f"String._from_buffer({s!r}): evaluation did not end in one normal path ({res[0]['exc'] if res else ''})")
        rd = out.get("reads", [])
        okr = len(rd) == 1 and pol(rd[0][0]) == OFF + Poly.const(8) and pol(rd[0][1]) == Poly.const(want - 8)
        cx.check(okr, None, construct=f"String({s!r}) read back: {want - 8} bytes at off+8", detail="reader covers exactly the written payload", bad_detail=f"string reader does not read (size-8) bytes at offset+8: reads {rd!r}", anchor="string::MetaString._get_data", sub="read.extent")
        cx.check(out.get("val") == s, None, construct=f"String({s!r}) read back: value", detail="decoded, NUL padding stripped", bad_detail=f"string reader returns {out.get('val')!r} for a stored {s!r}", anchor="string::MetaString._from_buffer", sub="read")


# ------------------------------------------------------------------------------------------ C side
def _gen(lab, fname, args):
    I = lab.I
    f = I.global_lookup("capi", fname)
    return I.call(f, args, {})


def _typenames(*classes):
    return {c.name for c in classes if hasattr(c, "name")} | {"Arr", "S", "T", "U", "Inner", "Outer"}


@rule("T1", ["C02", "C07", "C15"], "generated C address arithmetic = Python locator = documented layout, for nested paths with a non-zero parent offset")
def t1(cx):
    m = cx.m
    lab = Lab(m)
    I, W = lab.I, lab.W
    n = 0
    # ---- arrays nested in a struct (parent offset != 0), every descriptor
    for nd, mask, order, itemkind in [d[:4] for d in array_descriptors(cx.tier) if d[4] is None and d[3] != "small"]:
        isz = 24 if itemkind == "static" else None
        cshape = [None if mask[k] else STATIC_DIMS[k] for k in range(nd)]
        dims = [DIMS[k] if mask[k] else STATIC_DIMS[k] for k in range(nd)]
        label = f"S.a[{','.join('i%d' % k for k in range(nd))}] nd={nd} shape={cshape} order={list(order)} item={itemkind}"
        out = {}

        def thunk():
            item = W.desc("it", isz)
            if isz is None:
                def insp(*a, **k):
                    tag = a[0].tag if a and isinstance(a[0], Opaque) else "x"
                    return W.info(size=Sym(Poly.atom("n_" + tag)))

                item.attrs["_inspect_args"] = Builtin("it._inspect_args", insp)
            arr = lab.array("Arr", cshape, order, item)
            Int64 = I.global_lookup("scalar", "Int64")
            S = lab.struct("S", [("p", Int64), ("q", Int64), ("a", arr)])
            out["S"], out["arr"] = S, arr
            val = lab.value("e", dims)
            sarg = {"p": 1, "q": 2, "a": val}
            sinfo = I.call(I.getattr(S, "_inspect_args"), [sarg], {})
            I.call(I.getattr(S, "_to_buffer"), [W.buffer, Sym(OFF), sarg, sinfo], {})
            out["mem"] = dict(I.mem)
            view = I.call(I.getattr(S, "_from_buffer"), [W.buffer, Sym(OFF)], {})
            fa = [f for f in S.attrs["_fields"] if f.attrs["name"] == "a"][0]
            aview_t, apos = I.call(I.getattr(fa, "get_offset"), [view], {})
            aview = I.call(I.getattr(arr, "_from_buffer"), [W.buffer, apos], {})
            out["apos"] = apos
            out["pyloc"] = {idx: I.call(I.getattr(aview, "_get_offset"), [idx if nd > 1 else idx[0]], {}) for idx in itertools.product(*[range(d) for d in dims])}
            Index = I.global_lookup("array", "Index")
            path = [S, fa, I.call(Index, [arr], {})]
            out["code"] = _gen(lab, "gen_method_offset", [path, dict(CONF)])
            out["lenc"] = _gen(lab, "gen_method_len", [S, [S, fa, arr], dict(CONF)])[0]
            out["len_py"] = I.call(I.getattr(aview, "__len__"), [], {})
            return S

        res = _run(lab, thunk)
        if len(res) != 1 or res[0]["exc"] is not None:
            e = res[0]["exc"]
            cx.bad(None, construct=f"C[{label}]", detail=f"evaluating generator/locators raises {e.etype if e else 'fork'}: {e.msg if e else ''}", anchor="capi::gen_method_offset", sub="eval")
            continue
        n += 1
        stmts = parse_body("{" + out["code"] + "}", _typenames())
        bad = None
        for idx, pypos in out["pyloc"].items():
            env = {f"i{k}": Poly.const(v) for k, v in enumerate(idx)}
            ev = CEval(out["mem"], OFF, env)
            ev.run(stmts)
            caddr = OFF + ev.env["offset"]
            if caddr != pol(pypos):
                bad = (idx, caddr, pol(pypos))
                break
        cx.check(bad is None, None, construct=f"C[{label}]: {' '.join(out['code'].split())[:150]}",
                 detail="C address = Python locator for every index (array at a non-zero offset inside its parent)",
                 bad_detail=(f"index {bad[0]}: C computes obj+{bad[1] - OFF!r}, Python/documented obj+{bad[2] - OFF!r}" if bad else ""), anchor="capi::Index_get_c_offset")
        # len
        ls = parse_body(out["lenc"], _typenames())
        ev = CEval(out["mem"], OFF, {})
        r = ev.run(ls)
        want = 1
        for d in dims:
            want *= d
        okl = r is not None and r[0] == "return" and isinstance(r[1], Poly) and r[1] == Poly.const(want)
        cx.check(okl, None, construct=f"Clen[{label}]: {' '.join(out['lenc'].split())[-90:]}", detail=f"C length = product of the dimensions = {want}",
                 bad_detail=f"C length evaluates to {r[1] if r else None!r}, Python len = {want}", anchor="capi::gen_method_len", sub="len")
    # ---- struct field paths: static, dynamic (offset word), nested struct in array in struct
    for kinds in struct_descriptors("quick"):
        if len(kinds) < 2:
            continue
        label = "S[" + "".join(kinds) + "]"
        out = {}

        def thunk2():
            fields = []
            for i, k in enumerate(kinds):
                sz = STATIC_SIZES[i % len(STATIC_SIZES)] if k == "S" else None
                fields.append((f"f{i}", W.desc(f"f{i}", sz)))
            inner = lab.struct("Inner", fields)
            Int64 = I.global_lookup("scalar", "Int64")
            outer = lab.struct("Outer", [("h", Int64), ("z", inner)])
            arg_in = {f"f{i}": Opaque(f"v{i}") for i in range(len(kinds))}
            arg = {"h": 1, "z": arg_in}
            info = I.call(I.getattr(outer, "_inspect_args"), [arg], {})
            I.call(I.getattr(outer, "_to_buffer"), [W.buffer, Sym(OFF), arg, info], {})
            out["mem"] = dict(I.mem)
            view = I.call(I.getattr(outer, "_from_buffer"), [W.buffer, Sym(OFF)], {})
            fz = outer.attrs["_fields"][1]
            _, zpos = I.call(I.getattr(fz, "get_offset"), [view], {})
            zview = I.call(I.getattr(inner, "_from_buffer"), [W.buffer, zpos], {})
            codes, pys = [], []
            for f in inner.attrs["_fields"]:
                pys.append(I.call(I.getattr(f, "get_offset"), [zview], {})[1])
                codes.append(_gen(lab, "gen_method_offset", [[outer, fz, inner, f], dict(CONF)]))
            out["codes"], out["pys"] = codes, pys
            return outer

        res = _run(lab, thunk2)
        if len(res) != 1 or res[0]["exc"] is not None:
            e = res[0]["exc"]
            cx.bad(None, construct=f"C[{label}]", detail=f"evaluation raises {e.etype if e else 'fork'}: {e.msg if e else ''}", anchor="capi::Field_get_c_offset", sub="eval")
            continue
        n += 1
        bad = None
        for i, (code, py) in enumerate(zip(out["codes"], out["pys"])):
            ev = CEval(out["mem"], OFF, {})
            ev.run(parse_body("{" + code + "}", _typenames()))
            if OFF + ev.env["offset"] != pol(py):
                bad = (i, ev.env["offset"], pol(py) - OFF, code)
                break
        cx.check(bad is None, None, construct=f"C[Outer.z.f_i, z:{label}]", detail="C field address = Python field locator for every field of a nested struct",
                 bad_detail=(f"field {bad[0]}: C computes obj+{bad[1]!r}, Python obj+{bad[2]!r}  [{' '.join(bad[3].split())}]" if bad else ""), anchor="capi::Field_get_c_offset", sub="field")
    cx.need(n >= 80, f"only {n} C address comparisons")


# ------------------------------------------------------------------------------------------ L8 class factory over sequences
@rule("L8", ["C05", "C01", "C06"], "the array class factory over SEQUENCES of requests: the class obtained for a spelling (shape, axis order) has the layout that spelling gives alone, whatever was requested before")
def l8(cx):
    """`itemtype[shape]` makes classes on demand; the class NAME leaves the axis order out.  `Array.mk_arrayclass` of the
    current source is evaluated, in ONE interpreter, on every ordered pair of spellings of one rank over one item type
    (2-d: C order, F order, explicit (0,1) / (1,0), static / dynamic extents; 3-d: four orders) and the class obtained
    SECOND is compared with what the same spelling yields in a fresh interpreter: shape, order, strides, data offset,
    size, item type.  (A registry keyed by the generated name hands the first class out again -- seeded C05-f.)"""
    m = cx.m
    m.func("array::Array.mk_arrayclass")
    S = slice
    spell2 = {"[2,3]": (2, 3), "[2:1,3:0]": (S(2, 1), S(3, 0)), "[2:0,3:1]": (S(2, 0), S(3, 1)), "[:,3]": (S(None, None), 3), "[::1,3:0]": (S(None, 1), S(3, 0)), "[:,:]": (S(None, None), S(None, None)), "[::1,::0]": (S(None, 1), S(None, 0))}
    spell3 = {"[2,3,4]": (2, 3, 4), "[2:2,3:1,4:0]": (S(2, 2), S(3, 1), S(4, 0)), "[2:1,3:2,4:0]": (S(2, 1), S(3, 2), S(4, 0)), "[2:2,3:0,4:1]": (S(2, 2), S(3, 0), S(4, 1))}
    ATTRS = ("_shape", "_order", "_strides", "_data_offset", "_size", "_is_static_shape")

    def describe(I, c):
        if not (isinstance(c, Obj) and c.kind == "class"):
            raise AnalysisError(f"[L8] mk_arrayclass returns {c!r}")
        d = {}
        for a in ATTRS:
            v = c.attrs.get(a)
            d[a] = tuple(repr(pol(x)) if topoly(x) is not None else repr(x) for x in v) if isinstance(v, (tuple, list)) else (repr(pol(v)) if v is not None and topoly(v) is not None else repr(v))
        d["_itemtype"] = getattr(c.attrs.get("_itemtype"), "name", repr(c.attrs.get("_itemtype")))
        return d

    def run(seq, table):
        lab = Lab(m)
        I = lab.I
        out = []

        def thunk():
            F = I.global_lookup("scalar", "Float64")
            A = I.global_lookup("array", "Array")
            for k in seq:
                out.append(describe(I, I.call(I.getattr(A, "mk_arrayclass"), [F, table[k]], {})))
            return None

        res = I.explore(thunk, max_paths=4)
        if len(res) != 1 or res[0]["exc"] is not None:
            e = res[0]["exc"]
            raise AnalysisError(f"[L8] mk_arrayclass cannot be evaluated on {seq}: {e.etype + ': ' + str(e.msg) if e else 'fork'}")
        return out

    n = 0
    for table in (spell2, spell3):
        alone = {k: run([k], table)[0] for k in table}
        cx.need(len({repr(sorted(v.items())) for v in alone.values()}) >= 4, "[L8] fewer than four different class layouts among the spellings: the probe set is not discriminating")
        badn = 0
        for a, b in itertools.permutations(table, 2):
            n += 1
            got = run([a, b], table)[1]
            if got != alone[b]:
                badn += 1
                if badn <= 2:
                    diff = [f"{k}: {got[k]} instead of {alone[b][k]}" for k in got if got[k] != alone[b][k]]
                    cx.bad(None, construct=f"Float64{a} then Float64{b}", detail=f"the class obtained for Float64{b} after Float64{a} was requested differs from the class this spelling gives alone: {'; '.join(diff[:3])} -- objects of the second type are laid out (and read) with the first type's order / extents", anchor="array::Array.mk_arrayclass", sub="sequence")
        if not badn:
            cx.ok(None, construct=f"{len(table)} spellings of rank {len(next(iter(table.values())))}: {len(table) * (len(table) - 1)} ordered pairs", detail="the second class of every pair = the class its spelling gives alone", anchor="array::Array.mk_arrayclass", sub="sequence")
    cx.need(n >= 50, f"only {n} ordered pairs of spellings")
