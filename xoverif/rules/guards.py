"""Guard rules G1-G5, materialiser rules M1/M2, planner rounding L3, order-aware flat writes L4."""
import ast

from ..core import rule
from ..flow import DF, Flow, atoms
from ..linear import Defs, Lin, Poly
from ..srcmodel import AnalysisError, attr_chain, call_name, get_arg, norm, own_nodes, param_names, short, stmt_of


# ------------------------------------------------------------------------------------------ helpers
def struct_closure(m, name, dynamic):
    """the `_inspect_args` / `_get_size` closure MetaStruct.__new__ installs for static or dynamic structs"""
    c = m.lookup_all(f"struct::MetaStruct.__new__.{name}")
    if len(c) != 2:
        raise AnalysisError(f"struct::MetaStruct.__new__: expected two nested `{name}` closures (static/dynamic), found {len(c)}")

    def is_dyn(f):
        src = norm(f)
        return "_from_buffer" in src or "d_fields" in src or "_d_fields" in src

    pick = [f for f in c if is_dyn(f) == dynamic]
    if len(pick) != 1:
        raise AnalysisError(f"struct::MetaStruct.__new__: cannot tell the static from the dynamic `{name}` closure")
    return pick[0]


def _has_refs_guard(conds):
    """a dominating condition that is false whenever the type contains references"""
    for c in conds:
        t = c.test
        if isinstance(t, ast.Attribute) and t.attr == "_has_refs" and not c.pol:
            return c
        if isinstance(t, ast.Compare) and len(t.ops) == 1 and isinstance(t.left, ast.Attribute) and t.left.attr == "_has_refs":
            rhs = norm(t.comparators[0])
            if isinstance(t.ops[0], (ast.Is, ast.Eq)) and rhs == "False" and c.pol:
                return c
            if isinstance(t.ops[0], (ast.IsNot, ast.NotEq)) and rhs == "False" and not c.pol:
                return c
            if isinstance(t.ops[0], (ast.Is, ast.Eq)) and rhs == "True" and not c.pol:
                return c
    return None


def _whole_object_copy(call):
    """update_from_xbuffer(dst, X._buffer, X._offset, X._size) -> 'X' else None"""
    if len(call.args) != 4 or call.keywords:
        return None
    b, o, s = call.args[1:]
    if all(isinstance(x, ast.Attribute) for x in (b, o, s)) and (b.attr, o.attr, s.attr) == ("_buffer", "_offset", "_size"):
        bases = {norm(b.value), norm(o.value), norm(s.value)}
        if len(bases) == 1:
            return bases.pop()
    return None


# ------------------------------------------------------------------------------------------ G1
@rule("G1", ["C09", "C10", "C03", "C08"], "a whole-object byte copy is reachable only for reference-free types; _has_refs propagates through containers")
def g1(cx):
    m = cx.m
    n_guarded = 0
    for modname in ("struct", "array", "ref", "string", "hybrid_class"):
        for c in [x for x in ast.walk(m.mod(modname).tree) if isinstance(x, ast.Call)]:
            if not (isinstance(c.func, ast.Attribute) and c.func.attr == "update_from_xbuffer"):
                continue
            src = _whole_object_copy(c)
            fn = m.enclosing_func(c)
            q = m.qualname(c)
            if src is None:
                cx.note(c, detail="not a whole-object copy (arguments are not X._buffer, X._offset, X._size)")
                continue
            if q.startswith("string::MetaString"):
                cx.ok(c, detail="exempt by kind: a String holds bytes only, it cannot contain references", trivial=True, sub="exempt")
                continue
            fl = Flow(fn)
            g = _has_refs_guard(fl.conds_at(c))
            n_guarded += 1
            cx.check(g is not None, c, construct=f"{q.split('::')[1]}: byte copy of `{src}`" + (f" under {g.text()}" if g else ""),
                     detail="raw copy taken only when the type holds no references",
                     bad_detail="whole-object byte copy without a dominating `not ..._has_refs` test: relative references are duplicated verbatim and point to unrelated bytes in the copy")
    cx.need(n_guarded >= 3, f"only {n_guarded} guarded whole-object copy sites found (Struct._to_buffer, Struct._update, Array._to_buffer expected)")
    # G1b (propagation of _has_refs through the metaclasses) is decided by evaluation: rule G1b in rules/layout.py


# ------------------------------------------------------------------------------------------ G2
G2_SITES = [
    ("struct::Field.__set__", "field of dynamically sized type without _update (String)"),
    ("array::Array.__setitem__", "item of dynamically sized type without _update (String)"),
    ("array::Array._update", "whole array with dynamically sized items / dynamic shape"),
]


def _reserved_atom(a, wargs):
    if a in ("self._get_size()", "self._size"):
        return True
    if a.startswith("Int64._from_buffer(") and a.endswith(")"):
        inner = a[len("Int64._from_buffer(") : -1]
        return inner.replace(" ", "") == ",".join(wargs).replace(" ", "")
    return False


@rule("G2", ["C11", "C03", "C10"], "a comparison of the new size with the reserved size dominates every in-place rewrite whose extent derives from the new value")
def g2(cx):
    m = cx.m
    for spec, what in G2_SITES:
        fn = m.func(spec)
        fl = Flow(fn)
        d = Defs(fn)
        lin = Lin(d.resolver())
        writes = [c for c in own_nodes(fn) if isinstance(c, ast.Call) and isinstance(c.func, ast.Attribute) and c.func.attr == "_to_buffer"]
        cx.need(writes, f"{spec}: no `_to_buffer` write found")
        raises = [r for r in own_nodes(fn) if isinstance(r, ast.Raise)]
        for w in writes:
            T = norm(w.func.value)
            cx.need(len(w.args) >= 3, f"{spec}: write with unexpected arguments")
            wargs = [repr(lin.poly(w.args[0])), repr(lin.poly(w.args[1]))]
            wconds = {id(c.test) for c in fl.conds_at(w)}
            # exempt when the write itself is under a static-size fact
            static_fact = any(norm(c.test) in (f"{T}._size is None",) and not c.pol or norm(c.test) == f"{T}._size is not None" and c.pol for c in fl.conds_at(w))
            if static_fact:
                cx.ok(w, detail="write only for statically sized types", trivial=True)
                continue
            found = None
            why = "no raising comparison between the planned size of the new value and the size reserved at creation precedes the write"
            for r in raises:
                if not fl.ordered_before(r, w):
                    continue
                rconds = fl.conds_at(r)
                for c in rconds:
                    fk = lin.fact(c.test, c.pol)
                    if not fk or fk[0] != ">=0":
                        continue
                    P = fk[1]
                    planned = [a for a in P.atoms() if a.endswith(".size") and P.coeff(a) == 1]
                    reserved = [a for a in P.atoms() if P.coeff(a) == -1 and _reserved_atom(a, wargs)]
                    if len(planned) != 1 or len(reserved) != 1 or len(P.atoms()) != 2:
                        continue
                    base = planned[0][: -len(".size")]
                    from_plan = any(v is not None and isinstance(v, ast.Call) and call_name(v) in ("_inspect_args", "dispatch_arg") for v, _ in d.defs_of(base))
                    if not from_plan:
                        continue
                    k = -P.const_value()
                    others = [x for x in rconds if x is not c and id(x.test) not in wconds and x.kind == "if"]
                    dyn_only = all(norm(x.test) in (f"{T}._size is None", f"_is_dynamic({T})") and x.pol for x in others)
                    if not dyn_only:
                        why = f"the size guard is conditional on `{', '.join(x.text() for x in others)}`, which is not the dynamic-size test of `{T}`"
                        continue
                    if k > 1:
                        why = f"guard raises only when planned - reserved >= {k}: a value {k - 1} byte(s) too large is written"
                        continue
                    found = (c, planned[0], reserved[0], k)
            cx.check(found is not None, w, construct=f"{spec.split('::')[1]}: {T}._to_buffer(...) [{what}]",
                     nf=(f"raise when {found[1]} - {found[2]} >= {found[3]}" if found else None),
                     detail="the new value is refused unless it fits the space fixed at creation",
                     bad_detail=why + ": a larger value overwrites the bytes that follow")
            if found is not None and len(w.args) + len(w.keywords) >= 4:
                info_arg = w.args[3] if len(w.args) >= 4 else w.keywords[0].value
                ia = info_arg
                for _ in range(3):  # follow `info = plan` aliases
                    if isinstance(ia, ast.Name) and norm(ia) != found[1][: -len(".size")]:
                        dv = [v for v, _s in d.defs_of(ia.id) if v is not None and not (isinstance(v, ast.Constant) and v.value is None)]
                        if len(dv) == 1 and isinstance(dv[0], ast.Name):
                            ia = dv[0]
                            continue
                    break
                cx.check(norm(ia) == found[1][: -len(".size")], w, construct=f"info={norm(info_arg)}", detail="the checked plan is the plan the writer uses",
                         bad_detail="the writer is not given the plan that was checked", sub="plan")
    # Struct._update: byte copy only for equal sizes
    fn = m.func("struct::Struct._update")
    fl = Flow(fn)
    lin = Lin(Defs(fn).resolver())
    cps = [c for c in own_nodes(fn) if isinstance(c, ast.Call) and call_name(c) == "update_from_xbuffer"]
    for c in cps:
        src = _whole_object_copy(c)
        ok = False
        for x in fl.conds_at(c):
            fk = lin.fact(x.test, x.pol)
            if fk and fk[0] == "==0" and fk[1].atoms() == {f"{src}._size", "self._size"}:
                ok = True
        cx.check(ok, c, construct="Struct._update: byte copy under value._size == self._size", detail="copy moves exactly the reserved number of bytes",
                 bad_detail="byte copy of another struct without a size equality test", sub="struct-update")
    cx.floor(4, "in-place rewrite sites")


# ------------------------------------------------------------------------------------------ G3
@rule("G3", ["C11"], "bound_check dominates every index->offset locator of Array")
def g3(cx):
    m = cx.m
    n = 0
    for name in ("__getitem__", "__setitem__", "_get_offset"):
        fn = m.func(f"array::Array.{name}")
        fl = Flow(fn)
        idx = param_names(fn)[1]
        checks = [c for c in own_nodes(fn) if isinstance(c, ast.Call) and call_name(c) == "bound_check"]
        locs = []
        for x in own_nodes(fn):
            if isinstance(x, ast.Subscript) and norm(x.value) == "self._offsets" and isinstance(x.ctx, ast.Load):
                locs.append(x)
            if isinstance(x, ast.Call) and call_name(x) == "get_offset" and x.args and norm(x.args[0]) == idx:
                locs.append(x)
        if not locs and name != "_get_offset":
            dele = [c for c in own_nodes(fn) if isinstance(c, ast.Call) and norm(c.func) == "self._get_offset" and c.args and norm(c.args[0]) == idx]
            cx.recog(bool(dele), fn, f"Array.{name}: index -> offset locator (inline or through self._get_offset)")
            cx.ok(dele[0], construct=f"Array.{name}: locates through self._get_offset({idx})", detail="the bound-checked locator of _get_offset is reused")
            continue
        cx.need(locs, f"Array.{name}: no locator found")
        for L in locs:
            n += 1
            ok = False
            for c in checks:
                args_ok = len(c.args) == 2 and norm(c.args[0]) == idx and norm(c.args[1]) in ("self._shape", "shape")
                if args_ok and fl.dominates(c, L):
                    ok = True
            cx.check(ok, L, construct=f"Array.{name}: {short(L)}", detail="index validated against the shape before it is turned into an offset",
                     bad_detail="locator not dominated by bound_check(index, self._shape): a negative index wraps around silently (numpy indexing) instead of raising IndexError")
    cx.need(n >= 2, f"expected the locators of Array._get_offset at least, found {n}")
    # bound_check itself: both bounds, raising
    bc = m.func("array::bound_check")
    fl = Flow(bc)
    rs = [r for r in own_nodes(bc) if isinstance(r, ast.Raise)]
    cx.need(len(rs) == 1, "bound_check: single raise expected")
    lin = Lin()
    loops = fl.loops_at(rs[0])
    cx.need(loops and isinstance(loops[-1].iter, ast.Call) and call_name(loops[-1].iter) == "zip", "bound_check: loop over zip(index, shape) expected")
    iv, sv = [norm(e) for e in loops[-1].target.elts]
    test = None
    st = rs[0].parent
    cx.need(isinstance(st, ast.If), "bound_check: raise not under an if")
    disj = st.test.values if isinstance(st.test, ast.BoolOp) and isinstance(st.test.op, ast.Or) else [st.test]
    lo = hi = False
    for dj in disj:
        fk = lin.fact(dj, True)
        if fk and fk[0] == ">=0":
            if fk[1] == -Poly.atom(iv) - Poly.const(1):
                lo = True
            if fk[1] == Poly.atom(iv) - Poly.atom(sv):
                hi = True
    cx.check(lo and hi and "IndexError" in norm(rs[0].exc), rs[0], construct=f"bound_check: raise IndexError if {short(st.test)}",
             detail="rejects i < 0 and i >= dim for every component", bad_detail="bound_check does not reject both i < 0 and i >= dim with IndexError", sub="def")


# ------------------------------------------------------------------------------------------ G4
class _Unsafe(DF):
    """may-analysis: names that may denote an object living in another buffer"""

    def __init__(self, bufname, uses):
        self.buf = bufname
        self.uses = uses

    def join(self, a, b):
        return a | b

    def _safe_value(self, v):
        if v is None:
            return False
        if isinstance(v, ast.Constant) and v.value is None:
            return True
        if isinstance(v, ast.Call):
            for k in v.keywords:
                if k.arg == "_buffer" and norm(k.value) == self.buf:
                    return True
        return False

    def transfer(self, st, state):
        if isinstance(st, ast.Assign):
            for t in st.targets:
                if isinstance(t, ast.Name):
                    state = (state - {t.id}) if self._safe_value(st.value) else (state | {t.id})
                elif isinstance(t, (ast.Tuple, ast.List)):
                    for e in t.elts:
                        if isinstance(e, ast.Name):
                            state = state | {e.id}
        elif isinstance(st, ast.For) and isinstance(st.target, ast.Name):
            state = state | {st.target.id}
        return state

    def refine(self, test, pol, state):
        if isinstance(test, ast.Compare) and len(test.ops) == 1:
            l, r = test.left, test.comparators[0]
            op = test.ops[0]
            same = (isinstance(op, (ast.Is, ast.Eq)) and pol) or (isinstance(op, (ast.IsNot, ast.NotEq)) and not pol)
            for a, b in ((l, r), (r, l)):
                if isinstance(a, ast.Attribute) and a.attr == "_buffer" and isinstance(a.value, ast.Name) and norm(b) == self.buf and same:
                    return state - {a.value.id}
                if isinstance(a, ast.Name) and isinstance(b, ast.Constant) and b.value is None and same:
                    return state - {a.id}
        return state

    def visit(self, node, state):
        for n in ast.walk(node):
            if isinstance(n, ast.Attribute) and n.attr == "_offset" and isinstance(n.value, ast.Name) and isinstance(n.ctx, ast.Load):
                if n.value.id in ("self", "cls"):
                    continue
                par = getattr(n, "parent", None)
                if not (isinstance(par, ast.BinOp) and isinstance(par.op, ast.Sub) and par.left is n):
                    continue
                # expression-level facts (e.g. inside `a and b`) are handled by statement refinement only
                self.uses.append((n, n.value.id not in state))


@rule("G4", ["C08", "C09"], "an aliasing offset is stored only for an object of the same buffer (or one constructed in it)")
def g4(cx):
    m = cx.m
    n = 0
    for spec in ("ref::Ref._to_buffer", "ref::MetaUnionRef._to_buffer"):
        fn = m.func(spec)
        pn = param_names(fn)
        buf = pn[1]
        uses = []
        an = _Unsafe(buf, uses)
        init = frozenset(p for p in pn if p not in ("self", "cls", buf, "offset", "info"))
        an.run_function(fn, init)
        seen = {}
        for node, ok in uses:
            seen[node] = seen.get(node, True) and ok
        for node, ok in seen.items():
            n += 1
            cx.check(ok, node, construct=f"{spec.split('::')[1]}: {short(stmt_of(node))}",
                     detail="the object whose offset is stored is in the holder's buffer on every path",
                     bad_detail=f"`{norm(node)}` is stored as a reference although `{node.value.id}` may live in another buffer: the reference would address unrelated bytes of this buffer")
    cx.need(n >= 3, f"expected >= 3 stored-offset sites, found {n}")
    # C08.R1: the alias arm stores without constructing
    fn = m.func("ref::Ref._to_buffer")
    fl = Flow(fn)
    vname = param_names(fn)[3]
    alias = [s for s in own_nodes(fn) if isinstance(s, ast.Assign) and f"{vname}._offset" in norm(s.value)]
    cx.check(len(alias) == 1 and not [c for c in ast.walk(alias[0].value) if isinstance(c, ast.Call)], alias[0] if alias else fn,
             detail="same-buffer object: the reference denotes that very object (no copy)", bad_detail="no arm aliases an existing same-buffer object", sub="alias-arm")
    if alias:
        conds = fl.conds_at(alias[0])
        same_type = any("__name__" in norm(c.test) and c.pol for c in conds)
        cx.check(same_type, alias[0], detail="aliasing requires the referenced type", bad_detail="alias arm does not test the type of the value", sub="alias-type")


# ------------------------------------------------------------------------------------------ G5
MUTATORS = {"_to_buffer", "_update", "update_from_xbuffer", "update_from_buffer", "update_from_native", "update_from_nplike", "_array_to_buffer", "_set_offsets", "__set__"}

G5_FUNCS = [
    "struct::Field.__set__",
    "struct::Struct._update",
    "array::Array.__setitem__",
    "array::Array._update",
    "array::Array._to_buffer",
    "struct::Struct._to_buffer",
    "string::MetaString._to_buffer",
    "ref::Ref._to_buffer",
    "ref::MetaUnionRef._to_buffer",
    "hybrid_class::_FieldOfDressed.__set__",
    "hybrid_class::HybridClass.move",
    "typeutils::allocate_on_buffer",
]


def _is_mutation(c):
    if not isinstance(c, ast.Call):
        return False
    n = call_name(c)
    if n in MUTATORS:
        return True
    if n == "setattr" and c.args and "_xobject" in norm(c.args[0]):
        return True
    if n in ("allocate", "new_buffer"):
        return True
    return False


def _final_else_of_kind_chain(r):
    """raise is the final else of an if/elif chain that dispatches on the kind of one value"""
    p = r.parent
    if not isinstance(p, ast.If) or r not in p.orelse:
        return None
    tests = [p.test]
    q = p
    while isinstance(q.parent, ast.If) and q.parent.orelse == [q]:
        q = q.parent
        tests.append(q.test)
    subj = set()
    for t in tests:
        if isinstance(t, ast.Call) and call_name(t) in ("isinstance", "is_integer") and t.args:
            subj.add(norm(t.args[0]))
        else:
            return None
    return subj.pop() if len(subj) == 1 else None


@rule("G5", ["C11"], "in functions that rewrite existing objects no refusal (raise) is reachable after a mutation")
def g5(cx):
    _g5(cx, G5_FUNCS, 6)


@rule("G5h", ["C18"], "hybrid field assignment / move: the refusal precedes every mutation")
def g5h(cx):
    _g5(cx, [f for f in G5_FUNCS if f.startswith("hybrid_class::")], 2)


def _g5(cx, funcs, floor):
    m = cx.m
    nf = 0
    for spec in funcs:
        fn = m.func(spec)
        fl = Flow(fn)
        muts = [c for c in own_nodes(fn) if _is_mutation(c)]
        raises = [r for r in own_nodes(fn) if isinstance(r, ast.Raise)]
        if not raises:
            cx.ok(fn, construct=f"{spec.split('::')[1]}: no refusal", detail="function never raises by itself", trivial=True)
            continue
        nf += 1
        for r in raises:
            after = [c for c in muts if fl.may_follow(c, r)]
            if not after:
                cx.ok(r, construct=f"{spec.split('::')[1]}: {short(r, 90)}", detail="refusal precedes every mutation of the function")
                continue
            if spec == "string::MetaString._to_buffer":
                subj = _final_else_of_kind_chain(r)
                ia = m.func("string::MetaString._inspect_args")
                ia_raises = [x for x in own_nodes(ia) if isinstance(x, ast.Raise)]
                if subj is not None and ia_raises:
                    cx.ok(r, construct="MetaString._to_buffer: final else of the value-kind chain", detail="infeasible after a write: _inspect_args is evaluated on the same value before any byte is written (here or by the caller supplying info) and raises for every kind the three arms do not handle", sub="infeasible")
                    continue
            cx.bad(r, construct=f"{spec.split('::')[1]}: {short(r, 90)} after {short(after[0], 70)}",
                   detail=f"the operation is refused after `{short(after[0], 70)}` already modified the object: a failed operation leaves side effects")
    cx.need(nf >= floor, f"expected >= {floor} raising mutators, found {nf}")


# ------------------------------------------------------------------------------------------ M1
class _Assigned(DF):
    """must-analysis: instance attributes assigned on every path (self.X = ..., self.A, self.B = ...)"""

    def __init__(self, selfname, exits):
        self.s = selfname
        self.exits = exits

    def join(self, a, b):
        return a & b

    def transfer(self, st, state):
        if isinstance(st, ast.Assign):
            for t in st.targets:
                ts = t.elts if isinstance(t, (ast.Tuple, ast.List)) else [t]
                for e in ts:
                    if isinstance(e, ast.Attribute) and norm(e.value) == self.s:
                        state = state | {e.attr}
        for c in ast.walk(st) if not isinstance(st, (ast.If, ast.For, ast.While, ast.Try, ast.With)) else []:
            if isinstance(c, ast.Call) and isinstance(c.func, ast.Attribute):
                if norm(c.func.value) == self.s + ".__dict__" and c.func.attr == "update":
                    state = state | {"*dict-update"}
                if norm(c.func.value) == self.s and c.func.attr.startswith("_reinit"):
                    state = state | {"*" + c.func.attr}
                if norm(c.func.value) == self.s and c.func.attr == "xoinitialize":
                    state = state | {"*xoinitialize"}
        return state

    def on_exit(self, st, state):
        # a `return <same function>(...)` delegates the result to another activation
        if isinstance(st, ast.Return) and isinstance(st.value, ast.Call) and getattr(self, "fname", None) and call_name(st.value) == self.fname:
            return
        self.exits.append(state)


def _must_assigned(fn, selfname):
    exits = []
    an = _Assigned(selfname, exits)
    an.run_function(fn, frozenset())
    if not exits:
        return frozenset()
    out = exits[0]
    for e in exits[1:]:
        out = out & e
    return out


def _cond_assigned(fn, selfname):
    """attr -> set of normalised class-descriptor conditions under which it is assigned"""
    fl = Flow(fn)
    out = {}
    for st in own_nodes(fn):
        if isinstance(st, ast.Assign):
            for t in st.targets:
                ts = t.elts if isinstance(t, (ast.Tuple, ast.List)) else [t]
                for e in ts:
                    if isinstance(e, ast.Attribute) and norm(e.value) == selfname:
                        conds = frozenset(c.text() for c in fl.conds_at(st) if c.kind == "if" and norm(c.test).startswith("cls."))
                        other = [c for c in fl.conds_at(st) if c.kind == "if" and not norm(c.test).startswith("cls.")]
                        out.setdefault(e.attr, []).append((conds, [c.text() for c in other], st))
    return out


@rule("M1", ["C06", "C20"], "every materialiser (__init__, _from_buffer, __setstate__) establishes every cache the view materialiser establishes")
def m1(cx):
    m = cx.m
    # ---- Struct
    fb = m.func("struct::Struct._from_buffer")
    ref = _must_assigned(fb, "self")
    required = {"_buffer", "_offset", "_offsets", "_size"}
    cx.check(required <= ref, fb, construct=f"Struct._from_buffer establishes {sorted(ref)}", detail="the view has every cache the accessors read",
             bad_detail=f"the view materialiser does not establish {sorted(required - ref)}: accessors of nested views raise AttributeError / read stale values", sub="struct")
    ref = ref | required
    ss = m.func("struct::Struct.__setstate__")
    got = _must_assigned(ss, "self")
    miss = sorted(ref - got)
    cx.check(not miss, ss, construct=f"Struct.__setstate__ establishes {sorted(got)}", detail="an unpickled struct has every cache a view has",
             bad_detail=f"__setstate__ does not restore {miss}: accessors of an unpickled struct raise AttributeError (e.g. second dynamic field reads instance._offsets)", sub="struct")
    ini = m.func("struct::Struct.__init__")
    got = _must_assigned(ini, "self")
    ca = _cond_assigned(ini, "self")
    miss = ref - got
    if miss == {"_offsets"} and "_offsets" in ca and all(o == ['hasattr(info, "_offsets")'.replace('"', "'")] or o == ["hasattr(info, '_offsets')"] for _, o, _ in ca["_offsets"]):
        # justified exception: planner sets info._offsets for every dynamic struct
        dyn = struct_closure(m, "_inspect_args", True)
        exits = []
        an = _Assigned("info", exits)
        an.fname = dyn.name
        an.run_function(dyn, frozenset())
        planner_ok = exits and all("_offsets" in e for e in exits)
        cx.check(planner_ok, ini, construct="Struct.__init__: _offsets iff the plan carries it; dynamic planner sets info._offsets on every returning path",
                 detail="static structs have no offset-table fields (is_reference is False for all), dynamic plans always carry _offsets",
                 bad_detail="the dynamic planner has a returning path without info._offsets: the constructor handle of a dynamic struct lacks the cache", sub="struct")
    else:
        cx.check(not miss, ini, construct=f"Struct.__init__ establishes {sorted(got)}", detail="constructor handle has every cache", bad_detail=f"__init__ does not establish {sorted(miss)}", sub="struct")
    # ---- Array: parity of conditional caches between __init__ and _from_buffer
    afb = _cond_assigned(m.func("array::Array._from_buffer"), "self")
    ain = _cond_assigned(m.func("array::Array.__init__"), "self")
    for attr in ("_buffer", "_offset", "_size", "_shape", "_strides", "_offsets"):
        cx.need(attr in afb, f"Array._from_buffer no longer assigns {attr}")
        a = {c for c, _, _ in afb[attr]}
        if attr not in ain:
            cx.bad(m.func("array::Array.__init__"), construct=f"Array.__init__ never assigns {attr}", detail=f"view sets {attr}, constructor handle lacks it", sub="array")
            continue
        b = {c for c, _, _ in ain[attr]}
        cx.check(a == b, ain[attr][0][2], construct=f"Array: {attr} assigned under {sorted(map(sorted, b))} (constructor) / {sorted(map(sorted, a))} (view)",
                 detail="both materialisers establish the cache under the same class condition",
                 bad_detail=f"constructor and view establish {attr} under different class conditions", sub="array")
    only_init = sorted(set(ain) - set(afb))
    for attr in only_init:
        readers = 0
        for mod in ("array", "struct", "capi", "hybrid_class", "ref", "context_cpu"):
            for n in ast.walk(m.mod(mod).tree):
                if isinstance(n, ast.Attribute) and n.attr == attr and isinstance(n.ctx, ast.Load) and norm(n.value) not in ("info", "cls"):
                    readers += 1
        if readers:
            cx.bad(ain[attr][0][2], construct=f"Array.__init__ alone assigns {attr}, which is read {readers}x", detail="a view lacks a cache that accessors read", sub="array")
        else:
            cx.note(ain[attr][0][2], construct=f"{attr} set only by __init__", detail="read nowhere: not a required cache")
    # ---- classes relying on default pickling must not define half of the protocol
    for modname in ("struct", "array", "ref", "string", "hybrid_class", "context", "context_cpu", "context_cupy", "context_pyopencl"):
        for c in m.all_classes(modname):
            ms = m.methods(c)
            if ("__getstate__" in ms) != ("__setstate__" in ms):
                which = "__getstate__" if "__getstate__" in ms else "__setstate__"
                cx.bad(ms[which], construct=f"{c.name} defines only {which}", detail="state produced by one protocol half is not restored by the other", sub="protocol")
            elif "__getstate__" in ms:
                cx.ok(ms["__getstate__"], construct=f"{c.name}: __getstate__/__setstate__ pair", detail="both halves defined", sub="protocol")


@rule("M1h", ["C06", "C20", "C18"], "hybrid materialisers (__setstate__, move, xoinitialize) re-dress from the struct view")
def m1h(cx):
    m = cx.m
    # ---- HybridClass materialisers re-dress from the xobject
    for name in ("__setstate__", "move"):
        fn = m.func(f"hybrid_class::HybridClass.{name}")
        got = _must_assigned(fn, "self")
        cx.check("*_reinit_from_xobject" in got, fn, construct=f"HybridClass.{name}: re-dresses from the (new) struct view on every path (_reinit_from_xobject sets _xobject)",
                 detail="hybrid handle rebuilt from the buffer view", bad_detail=f"HybridClass.{name} does not (on every path) set _xobject and call _reinit_from_xobject", sub="hybrid")
    xi = m.func("hybrid_class::HybridClass.xoinitialize")
    got = _must_assigned(xi, "self")
    cx.check("*_reinit_from_xobject" in got, xi, construct="HybridClass.xoinitialize re-dresses on every path", detail="both initialisation paths dress nested fields",
             bad_detail="an initialisation path skips _reinit_from_xobject", sub="hybrid")
    rx = m.func("hybrid_class::HybridClass._reinit_from_xobject")
    got = _must_assigned(rx, "self")
    cx.check("_xobject" in got, rx, construct="_reinit_from_xobject sets self._xobject", detail="the handle views the given xobject", bad_detail="_reinit_from_xobject does not set _xobject", sub="hybrid")
    sg = m.func("hybrid_class::HybridClass.__setstate__")
    calls = [c for c in own_nodes(sg) if isinstance(c, ast.Call) and call_name(c) == "_from_buffer"]
    calls = list({norm(c): c for c in calls}.values())  # an inlined temporary repeats the call text
    cx.recog(len(calls) == 1, sg, "HybridClass.__setstate__: rebuild of the struct view through _from_buffer")
    ok = norm(calls[0].func.value) == "self._XoStruct"
    if ok:
        b, o = get_arg(calls[0], 0, "buffer"), get_arg(calls[0], 1, "offset")
        dsg = Defs(sg)

        def r1(e):
            return dsg.single(e.id) if isinstance(e, ast.Name) and dsg.single(e.id) is not None else e

        ok = b is not None and o is not None and norm(r1(b)) == "state[0]" and norm(r1(o)) == "state[1]"
    cx.check(ok, sg, construct="HybridClass.__setstate__: _XoStruct._from_buffer(state[0], state[1])", detail="view rebuilt from the pickled (buffer, offset)", bad_detail="state is not rebuilt through the struct's view materialiser with (buffer, offset)", sub="hybrid")


# ------------------------------------------------------------------------------------------ M3
CACHE_ATTRS = ("_offsets", "_shape", "_strides")


@rule("M3", ["C09", "C10", "C06"], "handle caches that may be shared between two handles are never edited in place")
def m3(cx):
    """A copy is planned from its source (`info._offsets = arg._offsets`) and keeps the plan's table as its own
    cache (`self._offsets = info._offsets`): two handles may hold ONE dict.  That is harmless as long as every
    refresh REBINDS the cache to a fresh container.  An in-place store (`self._offsets[k] = v`, `.update`, `del`)
    on a handle's cache then edits the other handle's cache as well: after `copy._update(...)` the source
    handle addresses the copy's layout (PF21: MemoryError / wrong bytes through the source)."""
    m = cx.m
    alias, inplace = [], []
    for modname in ("struct", "array", "ref", "string", "hybrid_class"):
        for fn in m.all_functions(modname):
            for st in own_nodes(fn):
                if isinstance(st, ast.Assign):
                    v = st.value
                    for t in st.targets:
                        # alias: <obj>.<cache> = <other obj>.<cache>  (no copy call around it)
                        if isinstance(t, ast.Attribute) and (t.attr in CACHE_ATTRS or (t.attr in ("offsets", "shape", "strides") and norm(t.value) == "info")) and isinstance(v, ast.Attribute) and v.attr in CACHE_ATTRS + ("offsets", "shape", "strides") and norm(v.value) not in ("cls", "self.__class__"):
                            alias.append(st)
                        # in place: <obj>.<cache>[k] = ...
                        if isinstance(t, ast.Subscript) and isinstance(t.value, ast.Attribute) and t.value.attr in CACHE_ATTRS and norm(t.value.value) not in ("cls",):
                            inplace.append(st)
                elif isinstance(st, ast.AugAssign):
                    t = st.target
                    if isinstance(t, ast.Subscript) and isinstance(t.value, ast.Attribute) and t.value.attr in CACHE_ATTRS:
                        inplace.append(st)
                    if isinstance(t, ast.Attribute) and t.attr in CACHE_ATTRS and norm(t.value) != "cls":
                        inplace.append(st)
                elif isinstance(st, ast.Delete):
                    for t in st.targets:
                        if isinstance(t, ast.Subscript) and isinstance(t.value, ast.Attribute) and t.value.attr in CACHE_ATTRS:
                            inplace.append(st)
                elif isinstance(st, ast.Expr) and isinstance(st.value, ast.Call) and isinstance(st.value.func, ast.Attribute):
                    f = st.value.func
                    if f.attr in ("update", "pop", "clear", "setdefault", "popitem", "fill", "sort", "resize", "itemset") and isinstance(f.value, ast.Attribute) and f.value.attr in CACHE_ATTRS and norm(f.value.value) != "cls":
                        inplace.append(st)
    # which caches are BUFFER-BACKED for a view handle?  (a numpy window onto the bytes of the object in its buffer:
    # `_array_from_buffer(...)` / `to_nplike(...)` without a copy).  Such a cache changes whenever those bytes are
    # rewritten, so it may never be handed to ANOTHER handle (a copy would read the source's current table):
    backed = set()
    for modname in ("struct", "array"):
        for fn in m.all_functions(modname):
            if fn.name not in ("_from_buffer", "__setstate__"):
                continue
            for st in own_nodes(fn):
                if isinstance(st, ast.Assign):
                    for t in st.targets:
                        if isinstance(t, ast.Attribute) and t.attr in CACHE_ATTRS and norm(t.value) == "self":
                            v = norm(st.value)
                            if ("_array_from_buffer(" in v or "to_nplike(" in v or "frombuffer(" in v) and ".copy()" not in v and "np.array(" not in v:
                                backed.add((modname, t.attr))
    for a in list(alias):
        fn = m.enclosing_func(a)
        modname = a.modname
        v = a.value
        src_obj = norm(v.value)
        from_other_handle = src_obj not in ("self", "info", "cls") and not src_obj.startswith("self.")
        if from_other_handle and (modname, "_" + v.attr.lstrip("_")) in backed:
            cx.bad(a, construct=f"{m.qualname(a).split('::')[1]}: {short(a, 90)}", detail=f"`{src_obj}.{v.attr}` of a handle read out of a buffer is a live window onto that object's bytes (see {modname}::_from_buffer); handing it to the plan / handle of ANOTHER object makes the copy locate its items through the SOURCE's table: after the source is rewritten in place the copy reads garbage", sub="backed")
            alias.remove(a)
    cx.need(len(alias) >= 2, "alias sites of the handle caches (plan <- source handle, handle <- plan) not found")
    for a in alias:
        cx.ok(a, construct=f"shared: {short(a, 100)}", detail="the cache container is handed on without a copy: sound while nobody edits it in place", nf=f"in-place editors in the package: {len(inplace)}")
    for st in inplace:
        cx.bad(st, construct=f"in-place edit of a handle cache: {short(st, 120)}",
               detail=f"the container may be shared with another handle ({m.loc(alias[0])}: `{short(alias[0], 60)}`): editing it in place re-addresses the other handle too; rebind a fresh container instead", sub="inplace")


# ------------------------------------------------------------------------------------------ M4
STRUCT_CACHES = {"_buffer", "_offset", "_size", "_offsets", "_shape", "_strides", "_dshape"}
DERIVING = {"_from_buffer", "_array_from_buffer", "__get__", "__getitem__", "to_nplike", "to_nparray", "_get_size", "get_offset", "_get_offset", "to_bytearray", "get"}


@rule("M4", ["C06", "C10", "C18"], "xobject handles keep (buffer, offset, structure caches) only: no view or value read from the buffer is memoised on a handle")
def m4(cx):
    """A handle is equivalent to a view rebuilt from (buffer, offset) because everything else it holds is a structure
    cache that every rewrite site re-derives (rules R10.refresh, M1, M3).  A child view or a value memoised on the
    parent handle is not known to those sites: after `_update` / a field assignment moved or resized a nested part
    the handle keeps addressing the old place while a rebuilt view reads the new one (seeded C06-b)."""
    m = cx.m
    sites = 0
    for modname in ("struct", "array", "string", "ref"):
        for fn in m.all_functions(modname):
            q = m.qualname(fn)
            params = [a.arg for a in fn.args.args]
            handles = {p_ for p_ in params if p_ in ("self", "instance")}
            if "." not in q.split("::")[1]:
                continue
            owner = q.split("::")[1].split(".")[0]
            if owner.startswith("Meta") or owner in ("Ref", "NumpyScalar", "Info"):
                continue  # type objects, not handles
            if owner == "Field":
                handles &= {"instance"}
            if not handles:
                continue
            d = Defs(fn)

            def derived(v):
                return v is not None and any(isinstance(n, ast.Call) and call_name(n) in DERIVING for n in ast.walk(v))

            aliases = {}  # local name -> description of the handle state it aliases
            for st in own_nodes(fn):
                if isinstance(st, ast.Assign) and len(st.targets) == 1 and isinstance(st.targets[0], ast.Name):
                    v = st.value
                    txt = norm(v)
                    for h in handles:
                        if txt == f"{h}.__dict__" or txt.startswith(f"{h}.__dict__.setdefault(") or txt.startswith(f"{h}.__dict__[") or txt.startswith(f"vars({h})") or (txt.startswith(f"getattr({h}, ") and isinstance(v, ast.Call) and len(v.args) == 3):
                            aliases[st.targets[0].id] = txt
                        if isinstance(v, ast.Attribute) and norm(v.value) == h and v.attr not in STRUCT_CACHES and v.attr.startswith("_") and not v.attr.startswith("__"):
                            aliases[st.targets[0].id] = txt
            for st in own_nodes(fn):
                tgt = val = None
                what = None
                if isinstance(st, ast.Assign):
                    val = st.value
                    for t in st.targets:
                        ts = t.elts if isinstance(t, (ast.Tuple, ast.List)) else [t]
                        for e in ts:
                            if isinstance(e, ast.Attribute) and norm(e.value) in handles:
                                sites += 1
                                if e.attr not in STRUCT_CACHES and derived(val):
                                    what = f"{norm(e)} = {short(val, 70)}"
                            elif isinstance(e, ast.Subscript):
                                base = norm(e.value)
                                if any(base == f"{h}.__dict__" for h in handles):
                                    sites += 1
                                    k = e.slice.value if isinstance(e.slice, ast.Constant) else None
                                    if k not in STRUCT_CACHES and derived(val):
                                        what = f"{norm(e)} = {short(val, 70)}"
                                elif isinstance(e.value, ast.Name) and e.value.id in aliases and derived(val):
                                    sites += 1
                                    what = f"{norm(e)} = {short(val, 70)}   [{e.value.id} is {aliases[e.value.id]}]"
                elif isinstance(st, ast.Expr) and isinstance(st.value, ast.Call):
                    c = st.value
                    if call_name(c) == "setattr" and len(c.args) == 3 and norm(c.args[0]) in handles:
                        sites += 1
                        k = c.args[1].value if isinstance(c.args[1], ast.Constant) else None
                        if k not in STRUCT_CACHES and derived(c.args[2]):
                            what = short(c, 100)
                    elif isinstance(c.func, ast.Attribute) and c.func.attr in ("append", "update", "setdefault", "insert", "add") and isinstance(c.func.value, ast.Name) and c.func.value.id in aliases and any(derived(a) for a in c.args):
                        sites += 1
                        what = short(c, 100) + f"   [{c.func.value.id} is {aliases[c.func.value.id]}]"
                if what:
                    cx.bad(st, construct=f"{q.split('::')[1]}: {what}", detail="a view / value read from the buffer is kept on the handle: no rewrite site (Struct._update, Array._update, field assignment) refreshes it, so after the nested part moves or changes size the handle reads the old place while a view rebuilt from (buffer, offset) reads the new one")
    cx.need(sites >= 15, f"only {sites} handle-state stores found in struct/array/string/ref (the census no longer matches the code)")
    cx.ok(m.func("struct::Field.__get__"), construct=f"{sites} stores into handle state examined: structure caches {sorted(STRUCT_CACHES)} only", detail="no memoised view or value on any xobject handle")


# ------------------------------------------------------------------------------------------ M2
def _rank(e, d, depth=0):
    """abstract rank of an array expression: 'nd' | 1 | None(unknown)"""
    if depth > 6:
        return None
    if isinstance(e, ast.Name):
        rs = {_rank(v, d, depth + 1) if v is not None else None for v, _ in d.defs_of(e.id)}
        return rs.pop() if len(rs) == 1 else None
    if isinstance(e, ast.Call) and isinstance(e.func, ast.Attribute):
        a = e.func.attr
        if a == "_array_from_buffer":
            return 1
        if a in ("transpose", "copy", "astype", "view"):
            return _rank(e.func.value, d, depth + 1)
        if a == "reshape":
            arg = e.args[0] if e.args else None
            if isinstance(arg, ast.Starred):
                arg = arg.value
            if isinstance(arg, ast.Name):
                s = d.single(arg.id)
                if arg.id in ("shape", "cshape") or (s is not None and isinstance(s, ast.ListComp)):
                    return "nd"
            if isinstance(arg, ast.ListComp):
                it = norm(arg.generators[0].iter)
                if "order" in it or "shape" in it:
                    return "nd"
            if isinstance(arg, ast.Constant) and arg.value == -1:
                return 1
            return None
        if a in ("empty", "zeros", "ones") and e.args:
            if norm(e.args[0]) in ("shape", "info.shape", "self._shape"):
                return "nd"
            return None
        if a in ("flatten", "ravel"):
            return 1
    if isinstance(e, ast.Attribute) and e.attr == "_offsets":
        return "same-as-view"
    if isinstance(e, ast.Attribute) and e.attr == "offsets" and norm(e.value) == "info":
        return "same-as-plan"
    return None


@rule("M2", ["C06"], "every producer of Array._offsets yields an array of rank nd (it is indexed with the full index tuple)")
def m2(cx):
    m = cx.m
    prods = []
    fb = m.func("array::Array._from_buffer")
    d = Defs(fb)
    for st in own_nodes(fb):
        if isinstance(st, ast.Assign) and any(norm(t) == "self._offsets" for t in st.targets):
            prods.append(("view", st, _rank(st.value, d)))
    ia = m.func("array::Array._inspect_args")
    d2 = Defs(ia)
    for st in own_nodes(ia):
        if isinstance(st, ast.Assign) and any(norm(t) == "info.offsets" for t in st.targets):
            prods.append(("plan", st, _rank(st.value, d2)))
    up = m.func("array::Array._update")
    d3 = Defs(up)
    for st in own_nodes(up):
        if isinstance(st, ast.Assign) and any(norm(t) == "self._offsets" for t in st.targets):
            prods.append(("update", st, _rank(st.value, d3)))
    cx.need(len(prods) >= 2, "producers of the item offset cache not found")
    for kind, st, r in prods:
        if r is None:
            raise AnalysisError(f"[M2] rank of `{short(st)}` cannot be determined")
        cx.check(r in ("nd", "same-as-view", "same-as-plan"), st, construct=f"{kind}: {short(st, 140)}", nf=f"rank = {r}",
                 detail="cache has one axis per array dimension",
                 bad_detail=f"cache has rank {r}, but accessors index it with the full nd-tuple: views of arrays with 2+ dimensions raise IndexError")


# ------------------------------------------------------------------------------------------ L3
@rule("L3", ["C05", "C01", "C03", "C07"], "planners advance the running offset by slot-rounded child sizes")
def l3(cx):
    m = cx.m
    planners = [
        ("struct::MetaStruct.__new__", m.func("struct::MetaStruct.__new__")),
        ("struct::MetaStruct.__new__._inspect_args[dynamic]", struct_closure(m, "_inspect_args", True)),
        ("array::Array._inspect_args", m.func("array::Array._inspect_args")),
    ]
    n = 0
    for label, fn in planners:
        for st in own_nodes(fn):
            if isinstance(st, ast.AugAssign) and isinstance(st.op, ast.Add) and isinstance(st.target, ast.Name):
                v = st.value
            elif isinstance(st, ast.Assign) and isinstance(st.targets[0], ast.Name) and isinstance(st.value, ast.BinOp) and isinstance(st.value.op, ast.Add) and st.targets[0].id in (norm(st.value.left), norm(st.value.right)):
                v = st.value.right if norm(st.value.left) == st.targets[0].id else st.value.left
            else:
                continue
            txt = norm(v)
            inner = v.args[0] if isinstance(v, ast.Call) and call_name(v) == "_to_slot_size" and v.args else None
            part_size = any(isinstance(x, ast.Attribute) and x.attr in ("size", "_size") for x in ast.walk(v))
            if not part_size and inner is None:
                continue  # header words: constant multiples of 8
            if inner is not None:
                n += 1
                cx.ok(st, construct=f"{label}: offset += {txt}", detail="child part advanced by its slot-rounded size")
                continue
            # un-rounded advance by a size
            if "cls._itemtype._size" in txt:
                cx.ok(st, construct=f"{label}: offset += {txt}", detail="exempt: statically sized items are packed at their own size (documented array layout), the total is rounded", trivial=True, sub="exempt")
                continue
            n += 1
            cx.bad(st, construct=f"{label}: offset += {txt}", detail="a dynamically sized child is advanced by its raw size: the next part starts off a slot boundary when that size is not a multiple of 8 (e.g. a String created from a capacity)")
    cx.need(n >= 5, f"expected >= 5 slot-rounded advances in planners, found {n}")
    # totals
    ia = m.func("array::Array._inspect_args")
    tot = [s for s in own_nodes(ia) if isinstance(s, ast.Assign) and norm(s.targets[0]) == "size" and norm(s.value) != "cls._size"]
    cx.need(len(tot) >= 2, "Array._inspect_args: total size assignments not found")
    for s in tot:
        cx.check(isinstance(s.value, ast.Call) and call_name(s.value) == "_to_slot_size" and norm(s.value.args[0]) == "offset", s,
                 construct=f"Array plan: {short(s)}", detail="total size is the slot-rounded running offset", bad_detail="total array size is not _to_slot_size(offset)", sub="total")
    ma = m.func("array::MetaArray.__new__")
    sz = [s for s in own_nodes(ma) if isinstance(s, ast.Assign) and norm(s.targets[0]) == "_size" and isinstance(s.value, ast.Call)]
    cx.check(any(call_name(s.value) == "_to_slot_size" and norm(s.value.args[0]) == "_size" for s in sz), sz[0] if sz else ma,
             construct="MetaArray: _size = _to_slot_size(_size)", detail="static array size is slot-rounded", bad_detail="static array class size is not slot-rounded", sub="total")


# ------------------------------------------------------------------------------------------ L4
@rule("L4", ["C01", "C05"], "flat writes of index-space quantities are order-aware (values fast path, item offset table)")
def l4(cx):
    m = cx.m
    fn = m.func("array::Array._to_buffer")
    fl = Flow(fn)
    d = Defs(fn)
    sinks = []
    for c in own_nodes(fn):
        if isinstance(c, ast.Call) and call_name(c) == "update_from_nplike" and len(c.args) == 3:
            sinks.append(("values", c, c.args[2]))
        if isinstance(c, ast.Call) and call_name(c) == "_array_to_buffer" and len(c.args) == 3:
            op = c.args[2]
            if "header" in norm(op):
                continue
            sinks.append(("offset table", c, op))
    cx.need(len(sinks) >= 2, f"Array._to_buffer: expected the bulk value write and the offset-table write, found {len(sinks)}")

    def order_aware(expr):
        for n in ast.walk(expr):
            if isinstance(n, ast.Call) and isinstance(n.func, ast.Attribute) and n.func.attr == "transpose" and n.args:
                if "order" in norm(n.args[0]):
                    return n
        return None

    for kind, c, op in sinks:
        tr = order_aware(op)
        why = ""
        if tr is None and isinstance(op, ast.Name):
            for v, st in d.defs_of(op.id):
                if v is None or not fl.ordered_before(st, c):
                    continue
                t = order_aware(v)
                if t is None:
                    continue
                conds = [x for x in fl.conds_at(st) if x.kind == "if" and id(x.test) not in {id(y.test) for y in fl.conds_at(c)}]
                if all("order" in norm(x.test) for x in conds):
                    tr = t
                else:
                    why = f" (transposition is conditional on {[x.text() for x in conds]})"
        guard = [x for x in fl.conds_at(c) if x.kind == "if" and ("order" in norm(x.test) or "len(cls._shape) == 1" in norm(x.test) or "ndim" in norm(x.test))]
        cx.check(tr is not None or bool(guard), c, construct=f"Array._to_buffer: flat write of the {kind}: {short(c, 100)}",
                 detail="operand is brought to memory order (transpose by the class order) before the flat write",
                 bad_detail=f"the {kind} are written in index-space C order whatever the array order{why}: for non-C orders they come back permuted / disagree with the strides")
        if tr is not None:
            arg = norm(tr.args[0])
            cx.check(arg.endswith("order") and "index" not in arg, tr, construct=f"writer transposes by {arg}", detail="index space -> memory space uses the order itself (order[j] = index axis at memory position j)",
                     bad_detail="writer-side transposition must use the order, not its inverse", sub="direction")
    # element-wise loops iterate in memory order with the class order
    loops = [l for l in own_nodes(fn) if isinstance(l, ast.For) and isinstance(l.iter, ast.Call) and call_name(l.iter) == "iter_index"]
    cx.need(len(loops) >= 3, "Array._to_buffer: element-wise loops over iter_index not found")
    for l in loops:
        ok = len(l.iter.args) == 2 and norm(l.iter.args[0]) == "info.shape" and norm(l.iter.args[1]) in ("cls._order", "info.order")
        cx.check(ok, l, construct=f"for {norm(l.target)} in {norm(l.iter)}", detail="elements are visited in memory order", bad_detail="element loop does not iterate iter_index(info.shape, order)", sub="loops")
    # readers use the inverse permutation
    for spec in ("array::Array._from_buffer", "array::Array.to_nplike", "array::Array.to_nparray"):
        f2 = m.func(spec)
        d2 = Defs(f2)
        trs = [n for n in own_nodes(f2) if isinstance(n, ast.Call) and isinstance(n.func, ast.Attribute) and n.func.attr == "transpose" and n.args]
        if not trs:
            cx.bad(f2, construct=f"{spec.split('::')[1]}: flat memory-order data is not transposed back to index space",
                   detail="the reader hands out memory-ordered data as if it were index-ordered", sub="inverse")
            continue
        for t in trs:
            a = t.args[0]
            if isinstance(a, ast.Name) and d2.single(a.id) is not None:
                a = d2.single(a.id)
            inv = False
            if isinstance(a, ast.ListComp) and len(a.generators) == 1:
                e = a.elt
                g = a.generators[0]
                if isinstance(e, ast.Call) and isinstance(e.func, ast.Attribute) and e.func.attr == "index" and "order" in norm(e.func.value) and norm(e.args[0]) == norm(g.target) and call_name(g.iter) == "range":
                    inv = True
            cx.check(inv, t, construct=f"{spec.split('::')[1]}: transpose({short(a, 70)})", detail="memory space -> index space uses the inverse permutation [order.index(k) for k]",
                     bad_detail="reader-side transposition uses the order itself; it equals its inverse only for involutive orders (C, F, swaps): e.g. order (1,2,0) yields wrong strides", sub="inverse")
