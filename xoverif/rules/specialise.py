"""Specialiser rules S1-S10 (DESIGN 4.C15, 4.C16): `specialize_source` is evaluated by the checker's
interpreter for every target and every line class of the annotation vocabulary."""
import ast
import re

from ..core import rule
from ..peval import Builtin, Interp, Namespace, Obj, PyExc
from ..srcmodel import AnalysisError, norm, own_nodes

TARGETS = ["cpu_serial", "cpu_openmp", "opencl", "cuda"]

QUAL_ORACLE = {
    # placeholder -> target -> allowed qualifier tokens
    "/*gpukern*/": {"cpu_serial": set(), "cpu_openmp": set(), "opencl": {"__kernel"}, "cuda": {"__global__"}},
    "/*gpufun*/": {"cpu_serial": {"static", "inline"}, "cpu_openmp": {"static", "inline"}, "opencl": set(), "cuda": {"__device__"}},
    "/*gpuglmem*/": {"cpu_serial": set(), "cpu_openmp": set(), "opencl": {"__global"}, "cuda": set()},
    "/*restrict*/": {"cpu_serial": {"restrict"}, "cpu_openmp": {"restrict"}, "opencl": set(), "cuda": set()},
}
QUAL_REQUIRED = {
    ("/*gpukern*/", "opencl"): {"__kernel"},
    ("/*gpukern*/", "cuda"): {"__global__"},
    ("/*gpufun*/", "cuda"): {"__device__"},
    ("/*gpuglmem*/", "opencl"): {"__global"},
}

SAMPLE = """\
#include <stdint.h>
#ifndef XOBJ_TYPEDEF_GridInfo
#define XOBJ_TYPEDEF_GridInfo
typedef struct GridInfo_s * GridInfo;
#endif
#ifndef XOBJ_TYPEDEF_Grid
#define XOBJ_TYPEDEF_Grid
typedef struct Grid_s * Grid;
 int Grid_len(Grid obj){ return 3; }
#endif
typedef long foo_t; //only_for_context opencl
typedef int bar_t; //only_for_context cuda cpu_serial
typedef short pad_t; // padding of the work-group //only_for_context opencl cuda
//include_file inc_gpu.h for_context opencl cuda
//include_file inc_cpu.h for_context cpu_serial cpu_openmp
//include_file inc_all.h for_context cpu_serial cpu_openmp opencl cuda
/*gpufun*/ double twice(/*gpuglmem*/ const double* x, int i){ return 2*x[i]; }
//include_file inc_snip.h for_context cpu_serial cpu_openmp opencl cuda
//include_file inc_snip.h for_context opencl cuda
/*gpukern*/
void scale(const int nn, /*gpuglmem*/ const double* /*restrict*/ xin, /*gpuglmem*/ double* /*restrict*/ yout){
  int aa = nn*3 + 1;   /* plain line */
  for (int kk=0; kk<3; kk++){ aa += kk; }
  //vectorize_over ii nn
    yout[ii] = twice(xin, ii) + aa;
  //end_vectorize
  //vectorize_over jj nn
    yout[jj] += 1;
  //end_vectorize
}
/*gpukern*/
void grid(const int nx, const int ny, /*gpuglmem*/ double* hits){
  //vectorize_over cell nx*ny
    hits[cell] += 1;
  //end_vectorize
}
/*gpukern*/
void forces(const int n_forces, const int n_alloc, /*gpuglmem*/ double* ff){
  int iforce = 0; //vectorize_over iforce n_forces
    ff[iforce] = 1;
  //end_vectorize
  for (int slot=0; slot<n_alloc; slot++){ //vectorize_over slot n_forces
    ff[slot] += 2;
  }//end_vectorize
}
"""
# (the last two blocks carry TEXT in front of the annotation -- the stand-in declaration / hand-written loop header
# that keeps the unspecialised source valid C.  The annotation alone says what runs: index and bound; the stand-in is
# dropped on every target.  Seeded C16-i kept a stand-in containing the letters "for" as the CPU loop.)
# line classes are crossed with their ORIGIN: the annotated lines of inc_all.h are the same classes as in
# the top-level sample but arrive through the include splice (seeded change C16-a resolved the
# context restriction before the splice, so restricted lines of an included file stayed active)
INC_ALL = [
    "#define IN_ALL 1\n",
    "typedef long inc_foo_t; //only_for_context opencl\n",
    "typedef int inc_bar_t; //only_for_context cuda cpu_openmp\n",
    "void incfun(const int mm, /*gpuglmem*/ double* qq){\n",
    "  //vectorize_over kk mm\n",
    "    qq[kk] = 0;\n",
    "  //end_vectorize\n",
    "} /* end incfun */\n",
]
# (inc_snip.h is requested TWICE by the sample, once for all targets and once for the GPU ones: a file is spliced once
# per request naming the target -- snippets are included wherever they are needed; seeded C16-f spliced each file once)
_F = {"inc_gpu.h": ["#define ON_GPU 1\n", "int gpu_only;\n"], "inc_cpu.h": ["#define ON_CPU 1\n"], "inc_all.h": INC_ALL, "inc_snip.h": ["#define SNIP_MARK 1\n"]}
FILES = {pre + k: v for k, v in _F.items() for pre in ("./", ".//")}


def _specialise(model, source, target, osname="posix"):
    I = Interp(model)
    isfile = Builtin("os.path.isfile", lambda p: p in FILES)
    osns = Namespace("os", {"name": osname, "path": Namespace("os.path", {"isfile": isfile})})
    I.modglobals.setdefault("specialize_source", {})["os"] = osns

    def with_hook(interp, st, fr):
        item = st.items[0]
        call = item.context_expr
        if not (isinstance(call, ast.Call) and norm(call.func) == "open"):
            raise AnalysisError("specialise: unsupported with-statement")
        path = interp.eval(call.args[0], fr)
        if path not in FILES:
            raise PyExc("IOError", path)
        f = Obj("file", {"readlines": Builtin("readlines", lambda: list(FILES[path])), "read": Builtin("read", lambda: "".join(FILES[path]))})
        interp.assign(item.optional_vars, f, fr)
        interp.exec_block(st.body, fr)

    I.hooks["with"] = with_hook
    fn = I.global_lookup("specialize_source", "specialize_source")
    res = I.explore(lambda: I.call(fn, [source, target], {"search_in_folders": []}), max_paths=8)
    if len(res) != 1:
        raise AnalysisError(f"specialize_source forks on unknown facts: {[r['conds'] for r in res]}")
    if res[0]["exc"] is not None:
        return None, res[0]["exc"]
    return res[0]["result"], None


@rule("S1", ["C16", "C15"], "specialiser: per-target loop/guard templates, brace balance, context-restricted lines, include splice, pass-through, qualifier substitution")
def s1(cx):
    m = cx.m
    f = m.func("specialize_source::specialize_source")
    # asserted target domain
    asserts = [s for s in f.body if isinstance(s, ast.Assert)]
    dom = None
    for a in asserts:
        t = a.test
        if isinstance(t, ast.Compare) and isinstance(t.ops[0], ast.In) and norm(t.left) == "specialize_for" and isinstance(t.comparators[0], (ast.List, ast.Tuple)):
            dom = [e.value for e in t.comparators[0].elts]
    cx.check(dom is not None and sorted(dom) == sorted(TARGETS), asserts[0] if asserts else f, construct=f"targets = {dom}", detail="asserted target domain is the four documented targets", bad_detail="target domain changed", sub="domain")
    outs = {}
    for tgt in TARGETS:
        out, exc = _specialise(m, SAMPLE, tgt)
        if exc is not None:
            if exc.etype in ("AttributeError", "NameError", "TypeError", "KeyError") and tgt in ("cpu_serial", "cpu_openmp", "opencl", "cuda"):
                # most likely a construct the checker's interpreter does not model (a specialiser that raised these on
                # every call would fail the existing suite at once): not a verdict
                raise AnalysisError(f"[S1] specialize_source cannot be evaluated for {tgt}: {exc.etype}: {exc.msg}")
            cx.bad(f, construct=f"specialize_source(sample, {tgt})", detail=f"raises {exc.etype}: {exc.msg}", sub="eval")
            continue
        outs[tgt] = out
    if len(outs) != 4:
        return
    for tgt, out in outs.items():
        lines = out.split("\n")
        txt = out
        # ---- S7 pass-through of unannotated lines
        # (guarded API blocks of two classes, the name of the later one a PREFIX of the earlier one's: the specialiser does
        # not interpret preprocessor guards -- seeded C15-i dropped "repeated" blocks of the device forms by a substring test)
        for plain in ("#include <stdint.h>", "typedef struct GridInfo_s * GridInfo;", "#ifndef XOBJ_TYPEDEF_Grid", "#define XOBJ_TYPEDEF_Grid", "typedef struct Grid_s * Grid;", " int Grid_len(Grid obj){ return 3; }", "  int aa = nn*3 + 1;   /* plain line */", "  for (int kk=0; kk<3; kk++){ aa += kk; }", "    yout[ii] = twice(xin, ii) + aa;", "    yout[jj] += 1;", "}",
                      "#define IN_ALL 1", "    qq[kk] = 0;", "} /* end incfun */"):
            cx.check(plain in lines, f, construct=f"[{tgt}] plain line `{plain.strip()}`", detail="unannotated text passes through unchanged", bad_detail="an unannotated line was altered or dropped", sub="S7")
        # ---- S6 only_for_context
        for line, ctxs in (("typedef long foo_t; //only_for_context opencl", ["opencl"]), ("typedef int bar_t; //only_for_context cuda cpu_serial", ["cuda", "cpu_serial"]),
                           # (an ordinary comment in front of the annotation: the annotation is found wherever it stands on the line)
                           ("typedef short pad_t; // padding of the work-group //only_for_context opencl cuda", ["opencl", "cuda"]),
                           ("typedef long inc_foo_t; //only_for_context opencl", ["opencl"]), ("typedef int inc_bar_t; //only_for_context cuda cpu_openmp", ["cuda", "cpu_openmp"])):
            active = line in lines
            commented = ("//" + line) in lines
            want_active = tgt in ctxs
            cx.check(active == want_active and commented == (not want_active), f, construct=f"[{tgt}] `{line}`", detail="active only in the named contexts, commented out elsewhere",
                     bad_detail=f"line restricted to {ctxs} is {'active' if active else 'commented' if commented else 'missing'} on {tgt}" + (" (line arrives through //include_file)" if "inc_" in line else ""), sub="S6")
        # ---- S9 include splice
        for marker, ctxs in (("#define ON_GPU 1", ["opencl", "cuda"]), ("#define ON_CPU 1", ["cpu_serial", "cpu_openmp"])):
            present = marker in lines
            cx.check(present == (tgt in ctxs), f, construct=f"[{tgt}] include providing `{marker}`", detail="file spliced only for the contexts it names", bad_detail=f"include for {ctxs} is {'spliced' if present else 'not spliced'} on {tgt}", sub="S9")
        nsnip = sum(1 for l in lines if l == "#define SNIP_MARK 1")
        want_snip = 2 if tgt in ("opencl", "cuda") else 1
        cx.check(nsnip == want_snip, f, construct=f"[{tgt}] a file requested by two //include_file lines ({want_snip} of them naming {tgt})", detail="spliced once per request that names the target", bad_detail=f"spliced {nsnip} time(s), {want_snip} requests name {tgt}: the text is missing where the other request stands", sub="S9")
        cx.check(not any("//include_file" in l and not l.lstrip().startswith("//") for l in lines) and "int gpu_only;" in lines if tgt in ("opencl", "cuda") else True, f, construct=f"[{tgt}] included lines verbatim", detail="included file content reaches the output", bad_detail="included file content is missing", sub="S9")
        # ---- vectorised blocks (two in the top-level source, one arriving through the include splice)
        is_plain = lambda l: l == "  for (int kk=0; kk<3; kk++){ aa += kk; }" or l.startswith("void incfun(") or l.startswith("void grid(") or l.startswith("void forces(")
        blocks = []
        # (the bound of the last block is an expression: the annotation is `//vectorize_over <index> <bound>`)
        for var, lim, stmt in (("ii", "nn", "yout[ii]"), ("jj", "nn", "yout[jj]"), ("kk", "mm", "qq[kk]"), ("cell", "nx*ny", "hits[cell]"), ("iforce", "n_forces", "ff[iforce]"), ("slot", "n_forces", "ff[slot]")):
            k = next((n for n, l in enumerate(lines) if stmt in l), None)
            cx.need(k is not None, f"[{tgt}] body statement {stmt} not found in the specialised sample")
            j = k - 1
            op = []
            while j >= 0 and not is_plain(lines[j]) and "end autovectorized" not in lines[j]:
                op.append(lines[j])
                j -= 1
            cx.need(j >= 0, f"[{tgt}] start of the opener of block {var} not found")
            opener = "\n".join(reversed(op))
            closer = lines[k + 1]
            blocks.append((var, lim, opener, closer))
        for var, lim, opener, closer in blocks:
            o = re.sub(r"//[^\n]*", "", opener)
            c = re.sub(r"//[^\n]*", "", closer)
            bal = (o.count("{") - o.count("}")) + (c.count("{") - c.count("}"))
            cx.check(bal == 0, f, construct=f"[{tgt}] block {var}: opener `{' '.join(o.split())}` closer `{c.strip()}`", detail="braces of a vectorised block balance", bad_detail=f"brace balance {bal:+d}", sub="S1")
            on = " ".join(o.split())
            if tgt.startswith("cpu"):
                mm = re.fullmatch(r"for \(int (\w+)\s*=\s*0; (\w+)\s*<\s*([^;]+?); (\w+)\+\+\)\s*\{", on)
                ok = mm is not None and mm.group(1) == mm.group(2) == mm.group(4) == var and mm.group(3) == lim
                cx.check(ok, f, construct=f"[{tgt}] `{on}`", detail="serial loop from 0 while < n, unit step: body once per index 0..n-1 (none for n = 0)", bad_detail="CPU loop is not `for (int v=0; v<n; v++){`", sub="S2")
            elif tgt == "cuda":
                mm = re.fullmatch(r"int (\w+); (\w+)\s*=\s*(.+?); ?if \((\w+)\s*<\s*([^;{]+?)\)\s*\{", on)
                ok = mm is not None and mm.group(1) == mm.group(2) == mm.group(4) == var and mm.group(5) == lim
                if ok:
                    terms = sorted(t.strip().replace(" ", "") for t in mm.group(3).split("+"))
                    ok = terms in (sorted(["blockDim.x*blockIdx.x", "threadIdx.x"]), sorted(["blockIdx.x*blockDim.x", "threadIdx.x"]))
                cx.check(ok, f, construct=f"[{tgt}] `{on}`", detail="global thread index, body guarded by index < n", bad_detail="CUDA opener is not `int v; v=blockDim.x*blockIdx.x+threadIdx.x; if (v<n){`: threads beyond n (grid is rounded up) would run the body", sub="S3")
            else:
                mm = re.fullmatch(r"int (\w+); (\w+)\s*=\s*get_global_id\(0\);", on)
                ok = mm is not None and mm.group(1) == mm.group(2) == var
                cx.check(ok and c.strip() == "", f, construct=f"[{tgt}] `{on}`", detail="work-item id, no guard (global size = n)", bad_detail="OpenCL opener is not `int v; v=get_global_id(0);` without brace", sub="S4")
        # ---- S8 qualifier substitution
        for ph, per in QUAL_ORACLE.items():
            cx.check(ph not in txt, f, construct=f"[{tgt}] `{ph}` substituted everywhere", detail="no placeholder is left", bad_detail=f"placeholder {ph} survives on {tgt}", sub="S8")
    # S8: what each placeholder is replaced by on each target, read off the EVALUATED output of a marker line (shape
    # independent: tables, dicts, if-chains ... all the same): only qualifier tokens of the target may appear, and the
    # ones the target needs must appear
    PH = ["/*gpukern*/", "/*gpufun*/", "/*gpuglmem*/", "/*restrict*/"]
    marker = "@0@" + "".join(f"{ph}@{k + 1}@" for k, ph in enumerate(PH))
    for tgt in TARGETS:
        out, exc = _specialise(m, "int before;\n" + marker + "\nint after;", tgt)
        cx.need(exc is None and out is not None, f"specialize_source cannot be evaluated on the marker line for {tgt}")
        line = [l for l in out.split("\n") if "@0@" in l]
        cx.need(len(line) == 1, f"[{tgt}] marker line not found in the output")
        mm = re.fullmatch(r".*@0@(.*)@1@(.*)@2@(.*)@3@(.*)@4@.*", line[0], re.S)
        cx.need(mm is not None, f"[{tgt}] marker line was altered beyond the placeholders: {line[0]!r}")
        for ph, val in zip(PH, mm.groups()):
            toks = set(val.split())
            allowed = QUAL_ORACLE[ph].get(tgt, set())
            req = QUAL_REQUIRED.get((ph, tgt), set())
            cx.check(toks <= allowed and req <= toks, f, construct=f"{ph} -> {val!r} on {tgt}", detail="replacement consists of target qualifier tokens only (cannot alter arithmetic)",
                     bad_detail=(f"replacement {val!r} lacks {sorted(req - toks)}" if not req <= toks else f"replacement {val!r} contains non-qualifier tokens {sorted(toks - allowed)}"), sub="S8")
    # ---- S5 nested blocks are rejected
    nested = SAMPLE.replace("    yout[ii] = twice(xin, ii) + aa;", "    //vectorize_over zz nn\n    yout[ii] = 0;")
    out, exc = _specialise(m, nested, "cpu_serial")
    cx.check(exc is not None and "ValueError" in exc.etype, f, construct="nested //vectorize_over", detail="a block opened inside an open block is refused", bad_detail="nested vectorised blocks are accepted silently", sub="S5")
    # windows restrict
    out, exc = _specialise(m, SAMPLE, "cpu_serial", osname="nt")
    cx.check(exc is None and out is not None and " restrict " not in out and "/*restrict*/" not in out, f, construct="os.name == 'nt': restrict dropped", detail="MSVC has no restrict keyword", bad_detail="restrict handling on Windows changed", sub="S8")
    cx.floor(100, "specialiser obligations")


HDR_ORACLE = {"int64_t": 8, "int32_t": 4, "int16_t": 2, "int8_t": 1, "uint64_t": 8, "uint32_t": 4, "uint16_t": 2, "uint8_t": 1}
OPENCL_WIDTH = {"long": 8, "int": 4, "short": 2, "char": 1, "unsigned long": 8, "unsigned int": 4, "unsigned short": 2, "unsigned char": 1}
CUDA_WIDTH = {"signed long long": 8, "long long": 8, "signed int": 4, "int": 4, "signed short": 2, "short": 2, "signed char": 1, "char": 1, "unsigned long long": 8, "unsigned int": 4, "unsigned short": 2, "unsigned char": 1}


@rule("S10", ["C15", "C16"], "target headers: integer typedefs have the widths the accessor templates assume; CUDA typedefs restricted to CUDA")
def s10(cx):
    m = cx.m
    for modname, var, widths, sign_kw in (("context_pyopencl", "openclheader", OPENCL_WIDTH, "unsigned"), ("context_cupy", "cudaheader", CUDA_WIDTH, "unsigned")):
        v = m.module_assign(modname, var)
        cx.need(isinstance(v, ast.List) and len(v.elts) == 1 and isinstance(v.elts[0], ast.Constant), f"{modname}.{var} is not a one-string list")
        txt = v.elts[0].value
        seen = {}
        for line in txt.splitlines():
            mm = re.match(r"\s*typedef\s+(.+?)\s+(u?int\d+_t)\s*;\s*(//.*)?$", line)
            if not mm:
                continue
            base, name, cmt = " ".join(mm.group(1).split()), mm.group(2), mm.group(3) or ""
            seen[name] = base
            w = widths.get(base)
            unsigned_ok = name.startswith("u") == base.startswith("unsigned")
            cx.check(w == HDR_ORACLE[name] and unsigned_ok, v, construct=f"{var}: typedef {base} {name};", detail=f"{HDR_ORACLE[name]} bytes on the target, signedness preserved",
                     bad_detail=f"`{base}` is {w} bytes / {'unsigned' if base.startswith('unsigned') else 'signed'} on the target, {name} must be {HDR_ORACLE[name]} bytes", anchor=f"{modname}::{var}")
            if var == "cudaheader":
                cx.check("//only_for_context cuda" in cmt, v, construct=f"{name}: {cmt.strip()}", detail="restricted to the CUDA target", bad_detail="CUDA typedef is not restricted with //only_for_context cuda", anchor=f"{modname}::{var}", sub="restricted")
        cx.check(set(seen) == set(HDR_ORACLE), v, construct=f"{var} defines {sorted(seen)}", detail="all eight fixed-width integer types are defined", bad_detail=f"missing typedefs {sorted(set(HDR_ORACLE) - set(seen))}", anchor=f"{modname}::{var}", sub="complete")
    # the headers are put first on their target
    for spec, hdr in (("context_cupy::ContextCupy.build_kernels", "cudaheader"), ("context_pyopencl::ContextPyopencl.build_kernels", "openclheader")):
        f = m.func(spec)
        src = norm(f)
        cx.check(f"headers = {hdr} + list(extra_headers)" in src, f, construct=f"headers = {hdr} + list(extra_headers)", detail="typedefs precede every class API", bad_detail="target header is not placed first", sub="first")
        tgt = "cuda" if "cupy" in spec else "opencl"
        cx.check(f"specialize_for='{tgt}'" in src, f, construct=f"specialize_source(..., specialize_for='{tgt}')", detail="context specialises for its own target", bad_detail="context specialises for another target", sub="target")


def _omp_sites(cx):
    """sites that depend on "this is an OpenMP context", each with the guards it sits under (texts canonicalised: the
    property `openmp_enabled` and its body are the same predicate)"""
    m = cx.m
    from ..flow import Flow as _Flow

    prop = m.func("context_cpu::ContextCpu.openmp_enabled")
    pr = [r for r in own_nodes(prop) if isinstance(r, ast.Return) and r.value is not None]
    prop_body = norm(pr[0].value) if len(pr) == 1 else None

    def canon(txt):
        if prop_body is not None:
            txt = txt.replace("self.openmp_enabled", f"({prop_body})") if txt != "self.openmp_enabled" else prop_body
        return txt

    def omp_guards(fn, pred):
        fl_ = _Flow(fn)
        out_ = []
        for n in own_nodes(fn):
            if pred(n):
                gs = [(canon(norm(c.test).replace("self.context.", "self.")), c.pol) for c in fl_.conds_at(n) if c.kind == "if" and ("openmp" in norm(c.test).lower() or "omp_" in norm(c.test).lower())]
                out_.append((n, gs))
        return out_

    f = m.func("context_cpu::ContextCpu._build_sources")
    tgt_sites = omp_guards(f, lambda n: isinstance(n, ast.Assign) and norm(n.targets[0]) == "specialize_for" and isinstance(n.value, ast.Constant) and n.value.value in ("cpu_openmp", "cpu_serial"))
    hdr_sites = omp_guards(f, lambda n: isinstance(n, ast.Constant) and isinstance(n.value, str) and "omp.h" in n.value)
    ck = m.func("context_cpu::ContextCpu.compile_kernel")
    flag_sites = omp_guards(ck, lambda n: isinstance(n, ast.Constant) and n.value == "-fopenmp")
    kc = m.func("context_cpu::KernelCpu.__call__")
    call_sites = omp_guards(kc, lambda n: isinstance(n, ast.Call) and norm(n.func).endswith("omp_set_num_threads"))
    cx.recog(hdr_sites and flag_sites and call_sites, f, "OpenMP-dependent sites (omp.h, -fopenmp, omp_set_num_threads)")
    ref_pred = {g for _, gs in hdr_sites + flag_sites for g in gs if g[1]}
    cx.recog(len(ref_pred) == 1, f, f"one positive OpenMP predicate guarding omp.h and -fopenmp (found {sorted(ref_pred)})")
    (ptxt, _), = ref_pred
    return f, ptxt, tgt_sites, call_sites


@rule("S11", ["C15", "C16"], "one predicate decides 'this is an OpenMP context' at the sites that are not evaluated: omp.h, -fopenmp, omp_set_num_threads")
def s11(cx):
    # A context for which the sites disagree is compiled / run with OpenMP but specialised for the other CPU target
    # (seeded C16-b selected the target by the thread count); the target selection itself is decided by S11e
    f, ptxt, tgt_sites, call_sites = _omp_sites(cx)
    cx.ok(f, construct=f"omp.h and -fopenmp under `{ptxt}`", detail="one positive predicate guards the header and the compiler flag", sub="predicate")
    for n, gs in call_sites:
        cx.check((ptxt, True) in gs, n, construct=f"omp_set_num_threads under {[('' if p_ else 'not ') + t for t, p_ in gs]}", detail="thread count applied exactly in OpenMP contexts", bad_detail=f"omp_set_num_threads is not guarded by `{ptxt}`", sub="target")


@rule("S11t", ["C15", "C16"], "diagnostic: the specialisation target is selected by two assignments guarded by the OpenMP predicate")
def s11t(cx):
    f, ptxt, tgt_sites, call_sites = _omp_sites(cx)
    if len(tgt_sites) != 2:
        # the target is selected in another form (a table, a conditional expression ...): decided by evaluation (S11e)
        cx.note(f, detail="target selection is not written as two guarded assignments: decided by S11e")
        return
    for n, gs in tgt_sites:
        want_pol = n.value.value == "cpu_openmp"
        mine = [g for g in gs]
        ok = (ptxt, want_pol) in mine
        other = [g for g in mine if g[0] != ptxt]
        cx.check(ok and not other, n, construct=f"specialize_for = {n.value.value!r} under {[('' if p_ else 'not ') + t for t, p_ in mine]}", detail=f"selected by the same predicate `{ptxt}` that enables omp.h / -fopenmp / omp_set_num_threads",
                 bad_detail=f"the target is selected by {[('' if p_ else 'not ') + t for t, p_ in mine]} while OpenMP compilation is selected by `{ptxt}`: a context for which the two differ is built and run with OpenMP but specialised for the other CPU target (its //only_for_context lines and include files are those of the wrong target)", sub="target")


@rule("S11e", ["C15", "C16"], "ContextCpu._build_sources evaluated for serial and OpenMP contexts: the specialisation target, the omp.h header and the context's own OpenMP predicate agree")
def s11e(cx):
    """`_build_sources` is interpreted with `self` a ContextCpu whose omp_num_threads is 0, 1, 4 or 'auto'; the class
    sources and the concatenation are replaced by recorders.  Required for each: specialize_source is called once, for
    cpu_openmp exactly when the context's own `openmp_enabled` holds, the omp.h include is among the headers exactly
    then, and with specialize=False nothing is specialised (both results are the same text)."""
    m = cx.m
    from ..peval import Interp, Obj, PyExc

    f = m.func("context_cpu::ContextCpu._build_sources")
    m.func("context_cpu::ContextCpu.openmp_enabled")
    n = 0
    for omp in (0, 1, 4, "auto"):
        for specialize in (True, False):
            I = Interp(m)
            C = I.global_lookup("context_cpu", "ContextCpu")
            selfv = Obj("instance", {"omp_num_threads": omp}, cls=C)
            rec = {"spec": [], "sources": None}

            def h_cls(interp, args, kwargs):
                return []

            def h_cat(interp, args, kwargs, rec=rec):
                srcs = list(interp.iterate(args[0]))
                rec["sources"] = srcs
                return ("\n".join(x for x in srcs if isinstance(x, str)), [])

            def h_spec(interp, args, kwargs, rec=rec):
                rec["spec"].append(kwargs.get("specialize_for", args[1] if len(args) > 1 else None))
                return "<specialised>" + str(args[0])

            I.call_hooks["sources_from_classes"] = h_cls
            I.call_hooks["_concatenate_sources"] = h_cat
            I.call_hooks["specialize_source"] = h_spec
            out = {}

            def thunk():
                out["enabled"] = I.getattr(selfv, "openmp_enabled")
                out["res"] = I.call(I.getattr(selfv, "_build_sources"), [], {"classes": [], "extra_headers": [], "specialize": specialize, "sources": ["int x;"]})

            res = I.explore(thunk, max_paths=4)
            label = f"ContextCpu(omp_num_threads={omp!r})._build_sources(specialize={specialize})"
            if len(res) != 1 or res[0]["exc"] is not None:
                e = res[0]["exc"]
                if e is not None and isinstance(e, PyExc) and e.etype not in ("AttributeError", "NameError", "TypeError", "KeyError"):
                    cx.bad(f, construct=label, detail=f"raises {e.etype}: {e.msg}", sub="eval")
                    continue
                raise AnalysisError(f"[S11e] {label} cannot be evaluated: {e.etype + ': ' + str(e.msg) if e else res[0]['conds']}")
            en = out["enabled"]
            cx.need(isinstance(en, bool), f"[S11e] openmp_enabled evaluates to {en!r}")
            n += 1
            hdr = any(isinstance(x, str) and "omp.h" in x for x in (rec["sources"] or []))
            want = ["cpu_openmp" if en else "cpu_serial"] if specialize else []
            probs = []
            if rec["spec"] != want:
                probs.append(f"specialised for {rec['spec']}, the context is {'an OpenMP' if en else 'a serial'} one (expected {want})")
            if hdr != en:
                probs.append(f"omp.h is {'included' if hdr else 'not included'} although openmp_enabled is {en}")
            r = out["res"]
            if not (isinstance(r, tuple) and len(r) == 2):
                probs.append(f"returns {r!r}, not (source, specialised source)")
            elif specialize and not (isinstance(r[1], str) and r[1].startswith("<specialised>")):
                probs.append("the second result is not what specialize_source returned")
            elif not specialize and r[0] != r[1]:
                probs.append("specialize=False: the two results differ")
            cx.check(not probs, f, construct=label, detail=f"target {want}, omp.h {'in' if en else 'ex'}cluded: all follow the context's own predicate", bad_detail="; ".join(probs), sub="target")
    cx.need(n == 8, f"[S11e] only {n} of 8 context x specialize cases evaluated")


_CTOK = re.compile(r"/\*.*?\*/|//[^\n]*|[A-Za-z_]\w*|\d+|\S", re.S)


def _walk_tokens(src, out, tgt):
    """`out` must be `src` with every placeholder comment replaced by qualifier tokens of the target (QUAL_ORACLE) and
    nothing else changed (white space apart).  Returns (None, n_placeholders) or (description of the first difference, n)."""
    a, b = _CTOK.findall(src), _CTOK.findall(out)
    i = j = n = 0
    while i < len(a):
        t = a[i]
        if t in QUAL_ORACLE:
            allowed = QUAL_ORACLE[t][tgt]
            got = set()
            while j < len(b) and b[j] in allowed and not (i + 1 < len(a) and a[i + 1] == b[j] and b[j] not in allowed):
                got.add(b[j])
                j += 1
            req = QUAL_REQUIRED.get((t, tgt), set())
            if not req <= got:
                ctxt = " ".join(a[max(0, i - 4) : i + 5])
                return f"`{t}` in `{ctxt}` became {sorted(got)} on {tgt}: {sorted(req - got)} missing", n
            n += 1
            i += 1
            continue
        if j >= len(b) or b[j] != t:
            ctxt = " ".join(a[max(0, i - 5) : i + 4])
            return f"after `{' '.join(a[max(0, i - 5):i])}` the generator wrote `{t}`, the text for {tgt} has `{b[j] if j < len(b) else '<end>'}` (near `{ctxt}`)", n
        i += 1
        j += 1
    if j != len(b):
        return f"the text for {tgt} continues with `{' '.join(b[j:j + 6])}` after the end of the generated text", n
    return None, n


@rule("S12", ["C15"], "the generated API of the whole type zoo specialised for each of the four targets: only qualifier tokens at the placeholders differ from the generator's text, and every accessor of the specialised text computes the address the Python locators compute")
def s12(cx):
    """Composition of the generator (T1/T3z/T6) and the specialiser (S1) on the SAME text: the API source the current
    generator emits for the zoo (8 classes, ~80 functions) is given to the current `specialize_source`, evaluated by the
    checker's interpreter, for cpu_serial / cpu_openmp / opencl / cuda.  (i) token walk: the result is the generated text
    with each placeholder replaced by qualifier tokens of the target's oracle set, required ones present, nothing else
    touched -- so the four targets share every arithmetic token; (ii) the accessors are cut out of each specialised text
    and evaluated on the abstract memory like T3z: address = Python locator chain for every in-range index tuple;
    (iii) on OpenCL every pointer type into object memory is `__global`, on CUDA every function `__device__`."""
    from .ctemplate import TYPEWORDS, _functions, _zoo_sources, accessor_mismatches

    m = cx.m
    f = m.func("specialize_source::specialize_source")
    Z = _zoo_sources(cx)
    order = ["T", "A1", "AT", "AS", "M", "D2", "U"]
    full = "\n".join([Z["others"][nm] for nm in order] + [Z["src"]]) + "\n"
    nfun_src = len(_functions(full))
    cx.need(nfun_src >= 70, f"only {nfun_src} functions in the zoo's API text")
    quals = sorted({t for per in QUAL_ORACLE.values() for s_ in per.values() for t in s_})
    strip_re = re.compile(r"\b(?:" + "|".join(quals) + r")\b")
    for tgt in TARGETS:
        out, exc = _specialise(m, full, tgt)
        if exc is not None:
            if exc.etype in ("AttributeError", "NameError", "TypeError", "KeyError"):
                raise AnalysisError(f"[S12] specialize_source cannot be evaluated on the zoo's API for {tgt}: {exc.etype}: {exc.msg}")
            cx.bad(f, construct=f"specialize_source(<API of the type zoo>, {tgt})", detail=f"raises {exc.etype}: {exc.msg}", sub="eval")
            continue
        diff, nph = _walk_tokens(full, out, tgt)
        cx.check(diff is None, f, construct=f"[{tgt}] {len(_CTOK.findall(full))} tokens of generated API, {nph} placeholders", detail="specialised text = generated text with placeholders replaced by the target's qualifier tokens; every other token unchanged (same arithmetic on all targets)",
                 bad_detail=diff, sub="tokens")
        if diff is not None:
            continue
        plain = strip_re.sub(" ", out)
        texts = {nm: v[1] for nm, v in _functions(plain, prefix=r"[ \t]*").items()}
        res = accessor_mismatches(Z, texts)
        cx.need(len(res) >= 50, f"[{tgt}] only {len(res)} accessors evaluated")
        badn = 0
        for cname, params, nf, nidx, bad in res:
            if bad is not None:
                badn += 1
                if badn <= 3:
                    cx.bad(None, construct=f"[{tgt}] {cname}({params})", nf=nf, detail=f"indices {bad[0]}: specialised C addresses obj+{bad[1]!r}, Python obj+{bad[2]!r}", anchor="specialize_source::specialize_source", sub="address")
        if not badn:
            cx.ok(None, construct=f"[{tgt}] {len(res)} accessors of the specialised text, {sum(r[3] for r in res)} index tuples", detail="address = Python locator chain, as on the unspecialised text (T3z)", anchor="specialize_source::specialize_source", sub="address")
        if tgt == "opencl":
            miss = [mm.group(0) for mm in re.finditer(r"(__global\s+)?\b(?:const\s+)?(?:" + TYPEWORDS + r")\s*\*", out) if mm.group(1) is None]
            cx.check(not miss, f, construct=f"[opencl] pointer types of the specialised API", detail="every pointer into object memory is in the __global address space", bad_detail=f"pointer type(s) without __global: {miss[:3]}", sub="global")
        if tgt == "cuda":
            defs = [l for l in out.splitlines() if re.match(r"^\s*[A-Za-z_][^;=]*\)\s*\{\s*$", l) and not l.strip().startswith(("if", "for", "switch", "case", "else", "while"))]
            nodev = [l.strip()[:80] for l in defs if "__device__" not in l]
            cx.check(len(defs) >= 70 and not nodev, f, construct=f"[cuda] {len(defs)} function definitions of the specialised API", detail="every accessor is a __device__ function", bad_detail=f"definitions without __device__: {nodev[:3]}", sub="device")
    cx.floor(8, "targets x (token walk, accessor evaluation)")
