"""Order-type abstract interpretation of the free list (rule FM; DESIGN 10.3).

`XBuffer.free`, `Chunk.overlaps`, `Chunk.merge` and `XBuffer.get_free` touch offsets, sizes and chunk bounds only
through order comparisons, min/max and additions that cancel (`offset + size`).  Their behaviour therefore
depends only on the ORDER TYPE of the inputs: how many free chunks there are, in which gap the freed region
lies and whether it touches its lower / upper free neighbour.  That is a finite set for a bounded list length.
The checker's interpreter evaluates the current source once per order type over an abstract state in which
every bound is a symbolic point P0 < P1 < ... ; a comparison is decided by the order of the points, any other
use of a point (multiplication, bit operations, a comparison the order does not decide) ends the analysis with
exit 2.  The resulting free list is compared with the first-fit/coalescing specification evaluated on the same
order type: sorted, every touching neighbour merged, nothing lost, nothing invented; get_free grows by `size`.

No repository code object is created or called and no number is ever assigned to a point.
"""
import itertools

from ..core import rule
from ..linear import Poly
from ..peval import Interp, Obj, PyExc, Sym, topoly
from ..srcmodel import AnalysisError


def _pt(i):
    return Poly.atom(f"P{i:02d}")


def _oracle(d):
    """sign of a difference of two points; None when the order type does not decide it"""
    t = d.t
    if len(t) == 2 and () not in t:
        (ka, va), (kb, vb) = sorted(t.items())
        if len(ka) == 1 and len(kb) == 1 and ka[0].startswith("P") and kb[0].startswith("P") and {va, vb} == {1, -1}:
            ia, ib = int(ka[0][1:]), int(kb[0][1:])
            # d = va*Pia + vb*Pib
            pos, neg = (ia, ib) if va == 1 else (ib, ia)
            return (pos > neg) - (pos < neg)
    raise AnalysisError(f"order domain: `{d!r}` is not a difference of two bounds: the free list code uses a bound other than through order comparisons, min/max or cancelling sums")


def scenarios(nmax):
    """(n chunks, gap g, touch_left, touch_right) -> point indices"""
    for n in range(0, nmax + 1):
        for g in range(0, n + 1):
            for tl in ([False, True] if g > 0 else [False]):
                for tr in ([False, True] if g < n else [False]):
                    yield n, g, tl, tr


def build(n, g, tl, tr):
    """returns (chunks [(si, ei)], (o, oe)) as point indices, strictly increasing except for the touching bounds"""
    k = 0
    chunks = []
    o = oe = None
    for i in range(n + 1):
        if i == g:
            # freed region before chunk i (after chunk i-1)
            if tl and chunks:
                o = chunks[-1][1]
            else:
                o = k
                k += 1
            oe = k
            k += 1
        if i < n:
            if i == g and tr:
                s = oe
            else:
                s = k
                k += 1
            e = k
            k += 1
            chunks.append((s, e))
    return chunks, (o, oe)


def expected(chunks, reg, g, tl, tr):
    out = []
    o, oe = reg
    for i, (s, e) in enumerate(chunks):
        out.append([s, e])
    new = [o, oe]
    lo = chunks[:g]
    hi = chunks[g:]
    res = [list(c) for c in lo]
    if tl and res:
        res[-1][1] = oe
        cur = res[-1]
    else:
        res.append(new)
        cur = new
    if tr and hi:
        cur[1] = hi[0][1]
        hi = hi[1:]
    res.extend(list(c) for c in hi)
    return res


def _constructed(I, XB, capacity):
    """an XBuffer instance as the CURRENT constructor leaves it (whatever it initialises besides the documented state
    is there, with its initial value); the abstract state is put in place by the caller afterwards"""
    from ..peval import Builtin, Opaque

    me = Obj("instance", {}, cls=XB)
    ctx = Obj("context", {"minimum_alignment": Sym(Poly.atom("A"))}, name="ctx")
    me.attrs["_make_context"] = Builtin("_make_context", lambda: ctx)
    me.attrs["_new_buffer"] = Builtin("_new_buffer", lambda c: Opaque("storage0"))
    init, owner = I.find_in_class(XB, "__init__")
    if owner is not None:
        I.call(I._bind(init, me, XB), [], {"capacity": capacity})
    del me.attrs["_new_buffer"]
    return me


def _mk_self(I, chunks):
    XB = I.global_lookup("context", "XBuffer")
    Chunk = I.global_lookup("context", "Chunk")
    objs = []
    for s, e in chunks:
        objs.append(I.call(Chunk, [Sym(_pt(s)), Sym(_pt(e))], {}))
    me = _constructed(I, XB, Sym(Poly.atom("cap0")))
    me.attrs["chunks"] = objs
    return me, objs


@rule("FM", ["C12", "C04"], "free list under free(): for every order type of list and freed region the result is the sorted, fully coalesced list with exactly the freed bytes added")
def fm(cx):
    m = cx.m
    f = m.func("context::XBuffer.free")
    nmax = 6 if cx.tier == "thorough" else 4
    I = Interp(m)
    I.order_oracle = _oracle
    count = 0
    for n, g, tl, tr in scenarios(nmax):
        count += 1
        chunks, reg = build(n, g, tl, tr)
        label = f"free list of {n} chunk(s), region freed in gap {g}" + (", touching the lower free chunk" if tl else "") + (", touching the upper free chunk" if tr else "")
        out = {}

        def thunk():
            me, objs = _mk_self(I, chunks)
            out["before"] = I.call(I.getattr(me, "get_free"), [], {})
            off = Sym(_pt(reg[0]))
            size = Sym(_pt(reg[1]) - _pt(reg[0]))
            out["ret"] = I.call(I.getattr(me, "free"), [off, size], {})
            out["after"] = I.call(I.getattr(me, "get_free"), [], {})
            out["chunks"] = list(I.getattr(me, "chunks"))
            return me

        res = I.explore(thunk, max_paths=8)
        if len(res) != 1:
            raise AnalysisError(f"[FM] {label}: evaluation forks on {[r['conds'] for r in res][:2]}: a decision of free() does not depend on the order type only")
        if res[0]["exc"] is not None:
            e = res[0]["exc"]
            cx.bad(f, construct=label, detail=f"free() raises {e.etype}: {e.msg} -- returning memory must always succeed", sub="raises")
            continue
        want = expected(chunks, reg, g, tl, tr)
        got = []
        shape_ok = True
        for c in out["chunks"]:
            if not isinstance(c, Obj):
                shape_ok = False
                break
            got.append((topoly(c.attrs.get("start")), topoly(c.attrs.get("end"))))
        wantp = [(_pt(a), _pt(b)) for a, b in want]
        if not shape_ok:
            raise AnalysisError(f"[FM] {label}: self.chunks holds something that is not a Chunk")

        def show(lst):
            return "[" + ", ".join(f"[{a!r},{b!r})" for a, b in lst) + "]"

        before = [(_pt(a), _pt(b)) for a, b in chunks]
        nf = f"before {show(before)} + freed [{_pt(reg[0])!r},{_pt(reg[1])!r}) -> {show(got)}"
        if got != wantp:
            # classify
            tot_got = sum((b - a for a, b in got), Poly.const(0))
            tot_want = sum((b - a for a, b in wantp), Poly.const(0))
            if len(got) == len(set(map(repr, got))) and tot_got != tot_want:
                why = f"free bytes after the call are {tot_got!r}, expected {tot_want!r}: " + ("bytes are lost (leak: they can never be allocated again)" if len(got) <= len(wantp) else "bytes are counted twice")
            elif len(got) > len(wantp):
                why = "touching free chunks are left unmerged (a request that fits the combined space is refused / the buffer grows needlessly)"
            else:
                why = "resulting free list differs from the sorted, coalesced list"
            cx.bad(f, construct=label, detail=f"{why}; got {show(got)}, expected {show(wantp)}", nf=nf, sub="result")
            continue
        b, a = topoly(out["before"]), topoly(out["after"])
        if b is None or a is None or (a - b) != (_pt(reg[1]) - _pt(reg[0])):
            cx.bad(m.func("context::XBuffer.get_free"), construct=label, detail=f"get_free() changes by {(a - b)!r} instead of the freed size", nf=nf, sub="accounting")
            continue
        cx.ok(f, construct=label, detail="result = sorted coalesced list, get_free += size", nf=nf, trivial=False)
    cx.need(count >= 24, f"only {count} order types enumerated")


# ============================================================================================ AM: allocate + grow
"""Rule AM evaluates `XBuffer.allocate` together with the real `XBuffer.grow` on ABSTRACT STATES of the allocator.

An abstract state fixes only the qualitative facts the code can branch on: how many free chunks there are, for each
one whether the (aligned) request does not fit / fits exactly / fits with room to spare, whether the last free chunk
ends at the capacity, whether the padded request exceeds the capacity, whether a grow_step is configured and whether
the request fits after growing.  All quantities stay SYMBOLIC in the interpreter (chunk bounds, capacity, size,
alignment, aligned starts `al(x)`); a comparison is decided by evaluating the queried linear form on two independent
witness valuations of the abstract state and is accepted only if both give the same sign (otherwise the comparison
is not determined by the abstract state: exit 2).  The outcome -- returned offset, free list, capacity, growth
copies -- is compared, as polynomials, with the outcome of an executable first-fit reference model run on the same
abstract state.  No repository code object is created or called."""
import random  # noqa: E402

from ..peval import Builtin, Effect, Opaque  # noqa: E402


class _Witness:
    def __init__(self, vals, A):
        self.vals = dict(vals)
        self.A = A

    def value(self, p, reg):
        tot = 0
        for mono, c in p.t.items():
            term = c
            for a in mono:
                term *= self.atom(a, reg)
            tot += term
        return tot

    def atom(self, a, reg):
        if a in self.vals:
            return self.vals[a]
        if a in reg:  # al(<poly>, <alignment poly>)
            x, al = reg[a]
            xv, av = self.value(x, reg), self.value(al, reg)
            v = -(-xv // av) * av
            self.vals[a] = v
            return v
        raise AnalysisError(f"[AM] quantity `{a}` has no value in the abstract state (the code computes with something the model does not know)")


def _mk_witness(rng, sc):
    """random valuation satisfying the qualitative facts of scenario sc, or None"""
    A = rng.choice([8, 16, 32]) if sc["align"] else rng.choice([8, 16])
    z = rng.randrange(9, 200)
    vals = {"A": A, "z": z}
    pos = rng.randrange(0, 40)
    bounds = []
    for i, fit in enumerate(sc["fits"]):
        s = pos + rng.randrange(1, 30)
        al = -(-s // A) * A if sc["align"] else s
        need = al + z
        if fit < 0:
            lo = s + 1
            if need - 1 < lo:
                return None
            e = rng.randrange(lo, need)
        elif fit == 0:
            e = need
        else:
            e = need + rng.randrange(1, 60)
        if e <= s:
            return None
        vals[f"s{i}"], vals[f"e{i}"] = s, e
        bounds.append((s, e))
        pos = e
    n = len(sc["fits"])
    if n and sc["last_at_end"]:
        cap = bounds[-1][1]
    else:
        cap = pos + rng.randrange(1, 50)
    vals["cap"] = cap
    eff_al = A if sc["align"] else 1
    big = z + eff_al - 1 > cap
    if big != sc["big"]:
        return None
    if sc["gstep"] != "none":
        if big:
            vals["G"] = rng.randrange(1, 400)  # not used by the policy when the request exceeds the capacity
        else:
            # space available to the request after k growth steps of G bytes
            if n and sc["last_at_end"]:
                s_last = bounds[-1][0]
                base = (-(-s_last // A) * A if sc["align"] else s_last)
            else:
                base = (-(-cap // A) * A if sc["align"] else cap)
            need = base + z - cap  # bytes that must be added behind the old capacity
            if need <= 0:
                return None
            if sc["gstep"] == "enough":
                vals["G"] = need + rng.randrange(0, 50)
            else:  # two or three steps needed
                k = rng.choice([2, 3])
                lo, hi = -(-need // k), (need - 1) // (k - 1)
                if lo > hi or lo < 1:
                    return None
                vals["G"] = rng.randrange(lo, hi + 1)
    return _Witness(vals, A)


def _am_scenarios(nmax):
    for align in (True, False):
        for n in range(0, nmax + 1):
            for fits in itertools.product((-1, 0, 1), repeat=n):
                served = any(f >= 0 for f in fits)
                if served:
                    yield {"align": align, "fits": fits, "last_at_end": False, "big": False, "gstep": "none"}
                    if n:
                        yield {"align": align, "fits": fits, "last_at_end": True, "big": False, "gstep": "none"}
                else:
                    for last in ((False, True) if n else (False,)):
                        for big in (False, True):
                            for g in ("none", "enough", "short"):
                                yield {"align": align, "fits": fits, "last_at_end": last, "big": big, "gstep": g}
                            # a refused enlargement (the new storage cannot be obtained): nothing may have changed
                            yield {"align": align, "fits": fits, "last_at_end": last, "big": big, "gstep": "none", "refuse": True}


class _Stop(Exception):
    pass


@rule("AM", ["C04", "C12"], "allocate + grow agree with the first-fit reference model on every abstract state of the allocator (chunks x fit classes x growth policy)")
def am(cx):
    m = cx.m
    nmax = 3 if cx.tier == "thorough" else 2
    rng = random.Random(20260929)
    f_alloc = m.func("context::XBuffer.allocate")
    I = Interp(m)
    reg = {}  # al-atom name -> (x poly, alignment poly)
    state = {"w": None}

    def al(x, a):
        if a.is_const() and a.const_value() == 1:
            return Sym(x)
        name = f"al({x!r};{a!r})"
        reg[name] = (x, a)
        return Sym(Poly.atom(name))

    def roundup(pa, pb):
        # (x + a - 1) & (-a)   /   (x + a - 1) & ~(a - 1) == & (-a)
        a = -pb
        x = pa - a + Poly.const(1)
        if any(k == () for k in []):
            return None
        # accept only if `a` is the alignment of the abstract state (symbol A) or the constant 1
        if (a.is_const() and a.const_value() == 1) or repr(a) == "A":
            return al(x, a)
        return None

    def oracle(d):
        w1, w2 = state["w"]
        v1, v2 = w1.value(d, reg), w2.value(d, reg)
        s1, s2 = (v1 > 0) - (v1 < 0), (v2 > 0) - (v2 < 0)
        if s1 != s2:
            raise AnalysisError(f"[AM] the sign of `{d!r}` is not determined by the abstract state (the code branches on a fact the model does not fix)")
        return s1

    I.order_oracle = oracle
    I.roundup_hook = roundup
    I.call_hooks["_align"] = lambda interp, args, kwargs: al(topoly(args[0]), topoly(args[1] if len(args) > 1 else kwargs.get("alignment")))

    # ---------------------------------------------------------------- reference model (first fit, grow policy of the documentation)
    def model(chunks, cap, z, align, gstep, depth=0):
        """chunks: list of [start poly, end poly]; returns (offset poly, chunks, cap, growths[(oldcap, amount)])"""
        A = Poly.atom("A") if align else Poly.const(1)
        growths = []
        for _ in range(4):
            for i, (s, e) in enumerate(chunks):
                a0 = topoly(al(s, A))
                if oracle(e - a0 - z) >= 0:
                    new = [list(c) for c in chunks]
                    new[i][0] = a0 + z
                    if oracle(e - a0 - z) == 0:
                        del new[i]
                    return a0, new, cap, growths
            sizepa = z + A - Poly.const(1)
            if oracle(sizepa - cap) > 0:
                g = sizepa
            elif gstep is not None:
                g = gstep
            else:
                g = cap
            growths.append((cap, g))
            chunks = [list(c) for c in chunks]
            if chunks and oracle(chunks[-1][1] - cap) == 0:
                chunks[-1][1] = cap + g
            else:
                chunks.append([cap, cap + g])
            cap = cap + g
        raise _Stop()

    count = ok_count = 0
    for sc in _am_scenarios(nmax):
        w = []
        for _ in range(400):
            x = _mk_witness(rng, sc)
            if x is not None:
                w.append(x)
            if len(w) == 2:
                break
        if len(w) < 2:
            continue  # qualitative facts are contradictory (e.g. a fitting chunk although the request exceeds the capacity)
        # both witnesses must agree on the growth outcome being reachable within the model's bound
        count += 1
        state["w"] = w
        reg.clear()
        n = len(sc["fits"])
        z = Poly.atom("z")
        cap = Poly.atom("cap")
        gstep = Poly.atom("G") if sc["gstep"] != "none" else None
        label = (f"{n} free chunk(s), fit {['<' if f < 0 else '=' if f == 0 else '>' for f in sc['fits']]}, align={sc['align']}" +
                 (f", last chunk {'at' if sc['last_at_end'] else 'before'} the end" if n else "") + (", request > capacity" if sc["big"] else "") + ({"none": "", "enough": ", grow_step set (one step suffices)", "short": ", grow_step set (one step is NOT enough)"}[sc["gstep"]]) + (", enlargement refused (no memory)" if sc.get("refuse") else ""))
        try:
            want = None if sc.get("refuse") else model([[Poly.atom(f"s{i}"), Poly.atom(f"e{i}")] for i in range(n)], cap, z, sc["align"], gstep)
        except _Stop:
            continue  # needs more than four growths with these witnesses: outside the bound
        except AnalysisError:
            continue  # the two witnesses disagree on a growth fact (e.g. whether one grow_step is enough): not one abstract state
        out = {}

        def thunk():
            XB = I.global_lookup("context", "XBuffer")
            Chunk = I.global_lookup("context", "Chunk")
            objs = [I.call(Chunk, [Sym(Poly.atom(f"s{i}")), Sym(Poly.atom(f"e{i}"))], {}) for i in range(n)]
            me = _constructed(I, XB, Sym(cap))
            me.attrs.update({"chunks": objs, "capacity": Sym(cap), "default_alignment": Sym(Poly.atom("A")), "grow_step": (Sym(gstep) if gstep is not None else None), "buffer": Opaque("storage0")})
            def _nb(c):
                st_new = Opaque(f"storage{len(I.effects) + 1}")
                I.effects.append(Effect("new_buffer", size=c, ret=st_new))
                if sc.get("refuse"):
                    out["state_at_refusal"] = ([(topoly(I.getattr(ch, "start")), topoly(I.getattr(ch, "end"))) for ch in I.getattr(me, "chunks")], topoly(I.getattr(me, "capacity")), I.getattr(me, "buffer"))
                    raise PyExc("MemoryError", "cannot allocate the new storage")
                return st_new

            me.attrs["_new_buffer"] = Builtin("_new_buffer", _nb)
            out["me"] = me
            me.attrs["copy_to_native"] = Builtin("copy_to_native", lambda *a, **k: I.effects.append(Effect("copy_to_native", args=a, kwargs=k, cap=I.getattr(me, "capacity"), src=I.getattr(me, "buffer"))))
            I.__dict__["max_activations"] = {}
            out["ret"] = I.call(I.getattr(me, "allocate"), [Sym(z)], {"align": sc["align"]})
            out["depth"] = I.__dict__.get("max_activations", {}).get("XBuffer.allocate", 0)
            out["storage"] = I.getattr(me, "buffer")
            out["chunks"] = [(topoly(I.getattr(c, "start")), topoly(I.getattr(c, "end"))) for c in I.getattr(me, "chunks")]
            out["cap"] = topoly(I.getattr(me, "capacity"))
            out["eff"] = list(I.effects)
            return None

        try:
            res = I.explore(thunk, max_paths=4)
        except AnalysisError as e:
            if "step limit" in str(e) or "recursion" in str(e).lower():
                cx.bad(f_alloc, construct=label, detail="the evaluation does not terminate: the retry never finds the space it grew (unbounded growth / recursion)", sub="terminates")
                continue
            raise
        if len(res) != 1:
            raise AnalysisError(f"[AM] {label}: evaluation forks on {[r['conds'] for r in res][:2]}")
        if sc.get("refuse"):
            e = res[0]["exc"]
            if e is None or e.etype != "MemoryError":
                cx.bad(f_alloc, construct=label, detail="the refused enlargement is swallowed: allocate returns although no storage could be obtained", sub="refused")
                continue
            me = out["me"]
            now = ([(topoly(I.getattr(ch, "start")), topoly(I.getattr(ch, "end"))) for ch in I.getattr(me, "chunks")], topoly(I.getattr(me, "capacity")))
            before = ([(Poly.atom(f"s{i}"), Poly.atom(f"e{i}")) for i in range(n)], cap)
            cx.check(now[0] == before[0] and now[1] == before[1], m.func("context::XBuffer.grow"), construct=label, detail="the allocator is unchanged when the enlargement is refused",
                     bad_detail=f"after the refused enlargement the free list is {[(repr(a), repr(b)) for a, b in now[0]]} and the capacity {now[1]!r}: the allocator claims free bytes beyond its storage; later requests are served outside the buffer", sub="refused")
            continue
        if res[0]["exc"] is not None:
            e = res[0]["exc"]
            cx.bad(f_alloc, construct=label, detail=f"allocate raises {e.etype}: {e.msg}", sub="raises")
            continue
        woff, wchunks, wcap, wgrow = want
        probs = []
        got = topoly(out["ret"])
        if got is None or got != woff:
            probs.append(f"returns {out['ret']!r}, the first fit (lowest-addressed chunk that holds the aligned request) is at {woff!r}")
        if out["chunks"] != [(a, b) for a, b in wchunks]:
            probs.append(f"free list afterwards is {[(repr(a), repr(b)) for a, b in out['chunks']]}, reference {[(repr(a), repr(b)) for a, b in wchunks]}")
        if out["cap"] != wcap:
            probs.append(f"capacity afterwards is {out['cap']!r}, reference {wcap!r}")
        nb = [e for e in out["eff"] if e.kind == "new_buffer"]
        cp = [e for e in out["eff"] if e.kind == "copy_to_native"]
        if len(nb) != len(wgrow) or len(cp) != len(wgrow):
            probs.append(f"{len(nb)} growth(s) / {len(cp)} copies, the reference grows {len(wgrow)} time(s)" + (" (the buffer grows although a free chunk holds the request)" if len(nb) > len(wgrow) else ""))
        else:
            prev_storage = "storage0"
            for (oldcap, g), e1, e2 in zip(wgrow, nb, cp):
                src_tag = getattr(e2.src, "tag", None)
                dst = dict(e2.kwargs).get("dest", e2.args[0] if e2.args else None)
                if src_tag != prev_storage:
                    probs.append(f"the growth copy reads {src_tag} (the storage was swapped before its bytes were saved); the old bytes are in {prev_storage}")
                elif dst is not e1.ret:
                    probs.append("the growth copy does not go into the new storage")
                prev_storage = e1.ret.tag
                if topoly(e1.size) != oldcap + g:
                    probs.append(f"new storage of {e1.size!r} bytes, reference {oldcap + g!r}")
                kw = dict(e2.kwargs)
                names = ["dest", "dest_offset", "source_offset", "nbytes"]
                for nm, v in zip(names, e2.args):
                    kw[nm] = v
                if topoly(kw.get("nbytes")) != oldcap or topoly(kw.get("dest_offset")) != Poly.const(0) or topoly(kw.get("source_offset")) != Poly.const(0):
                    probs.append(f"growth copies nbytes={kw.get('nbytes')!r} from {kw.get('source_offset')!r} to {kw.get('dest_offset')!r}; every stored byte (0..{oldcap!r}) must be kept")
            if len(wgrow) >= 2 and out.get("depth", 0) > 2:
                probs.append(f"{out['depth']} nested activations of allocate for {len(wgrow)} growth steps: the retry recurses once per step, so a request that needs many small steps (large request, small grow_step) exhausts the interpreter's stack instead of being served")
            if wgrow and getattr(out.get("storage"), "tag", None) != prev_storage:
                probs.append(f"after growing the buffer still uses {getattr(out.get('storage'), 'tag', None)}, the bytes are in {prev_storage}")
        if probs:
            for msg in probs[:2]:
                cx.bad(f_alloc, construct=f"{label}: {msg}", detail="allocate/grow differ from the first-fit reference model on this abstract state", sub="model")
        else:
            ok_count += 1
            cx.ok(f_alloc, construct=label, nf=f"-> {woff!r}, {len(wgrow)} growth(s)", detail="offset, free list, capacity and growth copies equal the reference model")
    cx.need(count >= 60, f"only {count} abstract allocator states evaluated")
