"""Order-type abstract interpretation of the free list (rule FM; DESIGN 10.3).

`XBuffer.free`, `Chunk.overlaps`, `Chunk.merge` and `XBuffer.get_free` touch offsets, sizes and chunk bounds only
through order comparisons, min/max and additions that cancel (`offset + size`).  Their behaviour therefore
depends only on the ORDER TYPE of the inputs: how many free chunks there are, in which gap the freed region
lies and whether it touches its lower / upper free neighbour.  That is a finite set for a bounded list length.
The checker's interpreter evaluates the current source once per order type over an abstract state in which
every bound is a symbolic point P0 < P1 < ... ; a comparison is decided by the order of the points, any other
use of a point (multiplication, bit operations, a comparison the order does not decide) ends the analysis with
exit 2.  The resulting free list is compared with the first-fit/coalescing specification evaluated on the same
order type: sorted, every touching neighbour merged, nothing lost, nothing invented; get_free grows by `size`.

No repository code object is created or called and no number is ever assigned to a point.
"""
import itertools

from ..core import rule
from ..linear import Poly
from ..peval import Interp, Obj, PyExc, Sym, topoly
from ..srcmodel import AnalysisError


def _pt(i):
    return Poly.atom(f"P{i:02d}")


def _oracle(d):
    """sign of a difference of two points; None when the order type does not decide it"""
    t = d.t
    if len(t) == 2 and () not in t:
        (ka, va), (kb, vb) = sorted(t.items())
        if len(ka) == 1 and len(kb) == 1 and ka[0].startswith("P") and kb[0].startswith("P") and {va, vb} == {1, -1}:
            ia, ib = int(ka[0][1:]), int(kb[0][1:])
            # d = va*Pia + vb*Pib
            pos, neg = (ia, ib) if va == 1 else (ib, ia)
            return (pos > neg) - (pos < neg)
    raise AnalysisError(f"order domain: `{d!r}` is not a difference of two bounds: the free list code uses a bound other than through order comparisons, min/max or cancelling sums")


def scenarios(nmax):
    """(n chunks, gap g, touch_left, touch_right) -> point indices"""
    for n in range(0, nmax + 1):
        for g in range(0, n + 1):
            for tl in ([False, True] if g > 0 else [False]):
                for tr in ([False, True] if g < n else [False]):
                    yield n, g, tl, tr


def build(n, g, tl, tr):
    """returns (chunks [(si, ei)], (o, oe)) as point indices, strictly increasing except for the touching bounds"""
    k = 0
    chunks = []
    o = oe = None
    for i in range(n + 1):
        if i == g:
            # freed region before chunk i (after chunk i-1)
            if tl and chunks:
                o = chunks[-1][1]
            else:
                o = k
                k += 1
            oe = k
            k += 1
        if i < n:
            if i == g and tr:
                s = oe
            else:
                s = k
                k += 1
            e = k
            k += 1
            chunks.append((s, e))
    return chunks, (o, oe)


def expected(chunks, reg, g, tl, tr):
    out = []
    o, oe = reg
    for i, (s, e) in enumerate(chunks):
        out.append([s, e])
    new = [o, oe]
    lo = chunks[:g]
    hi = chunks[g:]
    res = [list(c) for c in lo]
    if tl and res:
        res[-1][1] = oe
        cur = res[-1]
    else:
        res.append(new)
        cur = new
    if tr and hi:
        cur[1] = hi[0][1]
        hi = hi[1:]
    res.extend(list(c) for c in hi)
    return res


def _mk_self(I, chunks):
    XB = I.global_lookup("context", "XBuffer")
    Chunk = I.global_lookup("context", "Chunk")
    objs = []
    for s, e in chunks:
        objs.append(I.call(Chunk, [Sym(_pt(s)), Sym(_pt(e))], {}))
    me = Obj("instance", {"chunks": objs}, cls=XB)
    return me, objs


@rule("FM", ["C12", "C04"], "free list under free(): for every order type of list and freed region the result is the sorted, fully coalesced list with exactly the freed bytes added")
def fm(cx):
    m = cx.m
    f = m.func("context::XBuffer.free")
    nmax = 6 if cx.tier == "thorough" else 4
    I = Interp(m)
    I.order_oracle = _oracle
    count = 0
    for n, g, tl, tr in scenarios(nmax):
        count += 1
        chunks, reg = build(n, g, tl, tr)
        label = f"free list of {n} chunk(s), region freed in gap {g}" + (", touching the lower free chunk" if tl else "") + (", touching the upper free chunk" if tr else "")
        out = {}

        def thunk():
            me, objs = _mk_self(I, chunks)
            out["before"] = I.call(I.getattr(me, "get_free"), [], {})
            off = Sym(_pt(reg[0]))
            size = Sym(_pt(reg[1]) - _pt(reg[0]))
            out["ret"] = I.call(I.getattr(me, "free"), [off, size], {})
            out["after"] = I.call(I.getattr(me, "get_free"), [], {})
            out["chunks"] = list(I.getattr(me, "chunks"))
            return me

        res = I.explore(thunk, max_paths=8)
        if len(res) != 1:
            raise AnalysisError(f"[FM] {label}: evaluation forks on {[r['conds'] for r in res][:2]}: a decision of free() does not depend on the order type only")
        if res[0]["exc"] is not None:
            e = res[0]["exc"]
            cx.bad(f, construct=label, detail=f"free() raises {e.etype}: {e.msg} -- returning memory must always succeed", sub="raises")
            continue
        want = expected(chunks, reg, g, tl, tr)
        got = []
        shape_ok = True
        for c in out["chunks"]:
            if not isinstance(c, Obj):
                shape_ok = False
                break
            got.append((topoly(c.attrs.get("start")), topoly(c.attrs.get("end"))))
        wantp = [(_pt(a), _pt(b)) for a, b in want]
        if not shape_ok:
            raise AnalysisError(f"[FM] {label}: self.chunks holds something that is not a Chunk")

        def show(lst):
            return "[" + ", ".join(f"[{a!r},{b!r})" for a, b in lst) + "]"

        before = [(_pt(a), _pt(b)) for a, b in chunks]
        nf = f"before {show(before)} + freed [{_pt(reg[0])!r},{_pt(reg[1])!r}) -> {show(got)}"
        if got != wantp:
            # classify
            tot_got = sum((b - a for a, b in got), Poly.const(0))
            tot_want = sum((b - a for a, b in wantp), Poly.const(0))
            if len(got) == len(set(map(repr, got))) and tot_got != tot_want:
                why = f"free bytes after the call are {tot_got!r}, expected {tot_want!r}: " + ("bytes are lost (leak: they can never be allocated again)" if len(got) <= len(wantp) else "bytes are counted twice")
            elif len(got) > len(wantp):
                why = "touching free chunks are left unmerged (a request that fits the combined space is refused / the buffer grows needlessly)"
            else:
                why = "resulting free list differs from the sorted, coalesced list"
            cx.bad(f, construct=label, detail=f"{why}; got {show(got)}, expected {show(wantp)}", nf=nf, sub="result")
            continue
        b, a = topoly(out["before"]), topoly(out["after"])
        if b is None or a is None or (a - b) != (_pt(reg[1]) - _pt(reg[0])):
            cx.bad(m.func("context::XBuffer.get_free"), construct=label, detail=f"get_free() changes by {(a - b)!r} instead of the freed size", nf=nf, sub="accounting")
            continue
        cx.ok(f, construct=label, detail="result = sorted coalesced list, get_free += size", nf=nf, trivial=False)
    cx.need(count >= 24, f"only {count} order types enumerated")
